"""C04 -- a name resolves to what Python would bind it to, or not at all.

Three parties per generated project: the REAL pydoctor (impl/c04_names.py), CPython itself (impl/c04_cpython.py) and
the extracted Coq development (Model/Names.v = pydoctor, Spec/PyImport.v = CPython).
  model  vs pydoctor : correspondence (registry, alias maps, bases, expandName/resolveName of every query)
  spec   vs CPython  : spec validation (a mismatch is a broken check, never a finding about pydoctor)
  oracle             : pydoctor's answer is None or the CPython object; a name imported directly from the defining
                       module, or reached through a module alias, is never None.
"""
from __future__ import annotations
import itertools, json, random
from typing import Any, Dict, List, Optional, Tuple
import lib
from lib import PropertyCheck, Violation, enc, dec
import c04_gen as G


# ------------------------------------------------------------------ helpers on project syntax
def py_resolve_relative(modname: str, is_pkg: bool, level: int, name: str) -> Optional[str]:
    """importlib._bootstrap._resolve_name, restated (validated against the real one in relative_sweep)."""
    if level == 0:
        return name
    package = modname if is_pkg else (modname.rsplit('.', 1)[0] if '.' in modname else '')
    if not package:
        return None
    bits = package.rsplit('.', level - 1)
    if len(bits) < level:
        return None
    return bits[0] + ('.' + name if name else '')


def scope_body(proj: dict, m: str, qual: List[str]) -> Optional[Tuple[dict, List[Any]]]:
    for mod in proj['modules']:
        if mod['name'] == m:
            body = mod['body']
            for c in qual:
                nxt = None
                for s in body:
                    if s[0] == 'class' and s[1] == c:
                        nxt = s[3]
                if nxt is None:
                    return None
                body = nxt
            return mod, body
    return None


def import_binders(proj: dict, m: str, qual: List[str]) -> Dict[str, Any]:
    """name -> ('from', X, orig) | ('module', X) for names bound by import statements of this very scope."""
    sb = scope_body(proj, m, qual)
    out: Dict[str, Any] = {}
    if sb is None:
        return out
    mod, body = sb
    for s in body:
        if s[0] == 'import':
            if s[2]:
                out[s[2]] = ('module', s[1])
            else:
                out[s[1].split('.')[0]] = ('module', s[1].split('.')[0])
        elif s[0] == 'from':
            x = py_resolve_relative(m, mod['pkg'], s[1], s[2])
            if x is None:
                continue
            for o, a in s[3]:
                out[a or o] = ('from', x, o)
    return out


def cp_ident(v: Any) -> Optional[str]:
    if v is None:
        return None
    return v[1] if v[0] == 'mod' else v[1] + '.' + v[2]


def reexporters(proj: dict, values: Dict[Tuple[str, Tuple[str, ...], str], Any], ident: str) -> List[str]:
    """modules R (other than the defining one) that list in __all__ a name they from-import and whose run-time value is the object."""
    out = []
    for mod in proj['modules']:
        if mod.get('all') is None:
            continue
        for s in mod['body']:
            if s[0] != 'from':
                continue
            for o, a in s[3]:
                n = a or o
                if n in mod['all']:
                    v = values.get((mod['name'], (), n))
                    if v is not None and v[0] == 'obj' and cp_ident(v) == ident and v[1] != mod['name']:
                        out.append(mod['name'])
    return out


# ------------------------------------------------------------------ the oracle (the property, stated on one observation)
def oracle_query(proj: dict, values: Dict[Any, Any], q: List[Any], res: Any) -> Optional[Tuple[str, str]]:
    """q = [m, qual, dotted, cpython_value]; res = pydoctor's [ctx, expandName, [fullName, id, kind] | None].
    Returns (why, text) when the property is violated on this name."""
    m, qual, dotted, v = q[:4]
    if v is None:
        # Python does not bind this name in this namespace at all: pydoctor may know it, but must not resolve it
        if res is not None and res[2] is not None:
            return ('invented-name', 'in %s the name %r is NOT bound at run time but pydoctor resolves it to %s (defined as %s)'
                    % ('.'.join([m] + qual), dotted, res[2][0], res[2][1]))
        return None
    want = cp_ident(v)
    if res is None or res[0] is None:
        return ('context-missing', 'pydoctor has no object for the namespace %s' % '.'.join([m] + qual))
    r = res[2]
    if r is not None:
        if r[1] != want or (v[0] == 'mod') != (r[2] in (0, 1)):
            return ('wrong-object', 'in %s the name %r is %s at run time but pydoctor resolves it to %s (defined as %s)'
                    % ('.'.join([m] + qual), dotted, want, r[0], r[1]))
        return None
    parts = dotted.split('.')
    binders = import_binders(proj, m, qual)
    if len(parts) == 1 and parts[0] in binders and binders[parts[0]][0] == 'from':
        _, x, orig = binders[parts[0]]
        if v[0] == 'obj' and v[1] == x and v[2] == orig:
            return ('direct-import-unresolved',
                    'in %s the name %r is imported directly from its defining module %s but pydoctor does not resolve it'
                    % ('.'.join([m] + qual), dotted, x))
    if len(parts) == 2 and parts[0] in binders:
        kv = values.get((m, tuple(qual), parts[0]))
        b = binders[parts[0]]
        # a module alias: `import X as k`, `import k`, or `from P import S [as k]` with P.S a module
        is_alias = kv is not None and kv[0] == 'mod' and (
            (b[0] == 'module' and b[1] == kv[1]) or (b[0] == 'from' and b[1] + '.' + b[2] == kv[1]))
        if is_alias and kv[0] == 'mod' and v[0] == 'obj' and v[1] == kv[1] and v[2] == parts[1]:
            return ('module-alias-unresolved',
                    'in %s the name %r reaches %s through the module alias %r but pydoctor does not resolve it'
                    % ('.'.join([m] + qual), dotted, want, parts[0]))
    return None


def demands_resolution(proj: dict, values: Dict[Any, Any], q: List[Any]) -> Optional[str]:
    """'direct' when q's name is imported in its own scope directly from the module that defines the object, 'alias' when it
    reaches the object through a module alias (the two cases the property text says ALWAYS resolve), else None."""
    m, qual, dotted, v = q[:4]
    if v is None or v[0] != 'obj':
        return None
    parts = dotted.split('.')
    binders = import_binders(proj, m, qual)
    if len(parts) == 1 and parts[0] in binders and binders[parts[0]][0] == 'from':
        _, x, orig = binders[parts[0]]
        if v[1] == x and v[2] == orig:
            return 'direct'
    if len(parts) == 2 and parts[0] in binders:
        kv = values.get((m, tuple(qual), parts[0]))
        b = binders[parts[0]]
        is_alias = kv is not None and kv[0] == 'mod' and (
            (b[0] == 'module' and b[1] == kv[1]) or (b[0] == 'from' and b[1] + '.' + b[2] == kv[1]))
        if is_alias and v[1] == kv[1] and v[2] == parts[1]:
            return 'alias'
    return None


def oracle_find(proj: dict, values: Dict[Any, Any], q: List[Any], res: Any, fnd: Any) -> Optional[Tuple[str, str]]:
    """The property on System.find_object(expandName(name)) -- the lookup of possibly moved objects that linker and
    base-class resolution fall back to (anchor `model.System.find_object`): it answers the object Python binds or nothing;
    for a name imported directly from the defining module / reached through a module alias it always answers.
    fnd = ['obj', fullName, id, kind] | ['none'] | ['LookupError', text]."""
    m, qual, dotted, v = q[:4]
    if v is None or fnd is None or res is None or res[0] is None:
        return None
    want = cp_ident(v)
    where = '.'.join([m] + qual)
    if fnd[0] == 'obj':
        if res[2] is not None and res[2][0] == fnd[1]:
            return None     # the very object resolveName answered: judged by oracle_query already
        if fnd[2] != want or (v[0] == 'mod') != (fnd[3] in (0, 1)):
            return ('find-wrong-object', 'in %s the name %r is %s at run time; it expands to %r and System.find_object gives %s '
                    '(defined as %s)' % (where, dotted, want, res[1], fnd[1], fnd[2]))
        return None
    how = demands_resolution(proj, values, q)
    if how is not None:
        return ('find-%s-unresolved' % how,
                'in %s the name %r (%s) is %s at run time; it expands to %r and System.find_object answers %s'
                % (where, dotted, 'imported directly from its defining module' if how == 'direct' else 'reached through a module alias',
                   want, res[1], 'None (external)' if fnd[0] == 'none' else 'LookupError(%s)' % fnd[1]))
    return None


# ------------------------------------------------------------------ corpus (boundary cases of DESIGN.md 5.C04 / 7.3)
def M(name: str, body: List[Any], pkg: bool = False, all_: Optional[List[str]] = None) -> dict:
    return {'name': name, 'pkg': pkg, 'all': all_, 'body': body}


def corpus() -> List[dict]:
    out = []
    # 7.3 witness: re-exported object imported from its defining module
    out.append({'tag': 'reexport-witness', 'modules': [
        M('pkg', [['from', 1, '_impl', [['Foo', None]]]], True, ['Foo']),
        M('pkg._impl', [['class', 'Foo', None, [['def', 'meth']]]]),
        M('cons', [['from', 0, 'pkg._impl', [['Foo', None]]], ['import', 'pkg._impl', 'i'],
                   ['from', 0, 'pkg', [['Foo', 'F2']]], ['class', 'X', 'Foo', []]]),
    ], 'order': None})
    out.append({'tag': 'reexport-renamed', 'modules': [
        M('r', [['from', 0, 'd', [['Foo', 'Bar']]]], False, ['Bar']),
        M('d', [['class', 'Foo', None, [['def', 'meth'], ['class', 'In', None, [['def', 'deep']]]]]]),
        M('cons', [['from', 0, 'd', [['Foo', None]]], ['import', 'd', None], ['import', 'r', 'rr'],
                   ['alias', 'z', 'rr.Bar.In']]),
    ], 'order': ['cons', 'd', 'r']})
    # alias chains, import forms
    out.append({'tag': 'chain', 'modules': [
        M('d', [['class', 'Foo', None, [['def', 'm']]]]),
        M('mid', [['from', 0, 'd', [['Foo', None]]]]),
        M('c', [['from', 0, 'mid', [['Foo', None]]], ['import', 'mid', None], ['import', 'mid', 'mm'],
                ['alias', 'z', 'mid.Foo'], ['alias', 'w', 'z.m']]),
    ], 'order': None})
    out.append({'tag': 'import-forms', 'modules': [
        M('a', [], True), M('a.b', [['class', 'Q', None, []]]),
        M('a.c', [], True), M('a.c.d', [['def', 'fn'], ['from', 2, 'b', [['Q', None]]], ['from', 2, '', [['b', 'bmod']]]]),
        M('a.c.e', [], True), M('a.c.e.f', [['from', 3, 'b', [['Q', 'Q3']]], ['from', 2, 'd', [['fn', None]]], ['from', 1, '', [['f', 'me']]]]),
        M('c', [['import', 'a.b', None], ['import', 'a.b', 'ab'], ['from', 0, 'a', [['b', None]]],
                ['from', 0, 'a', [['b', 'bb']]], ['import', 'a.c.d', 'acd'],
                ['class', 'K', 'ab.Q', [['import', 'a.c.d', 'inner'], ['from', 0, 'a.b', [['Q', 'QQ']]],
                                        ['alias', 'al', 'inner.fn']]]]),
    ], 'order': None})
    out.append({'tag': 'import-inside-module', 'modules': [
        M('top', [['class', 'Foo', None, []]]),
        M('m', [['import', 'top', None]]),
        M('c', [['import', 'm', None], ['alias', 'x', 'm.top.Foo']]),
    ], 'order': None})
    out.append({'tag': 'star', 'modules': [
        M('d', [['class', 'Pub', None, []], ['class', '_Priv', None, []], ['def', 'fn']]),
        M('e', [['class', 'Listed', None, []], ['class', 'Unlisted', None, []]], False, ['Listed']),
        M('c', [['star', 0, 'd'], ['star', 0, 'e'], ['class', 'S', 'Pub', []]]),
    ], 'order': None})
    out.append({'tag': 'inherit', 'modules': [
        M('b', [['class', 'Base', None, [['def', 'inh'], ['class', 'Inner', None, []]]]]),
        M('c', [['from', 0, 'b', [['Base', None]]], ['class', 'Sub', 'Base', [['def', 'own']]],
                ['class', 'SubSub', 'Sub', []], ['alias', 'viaSub', 'SubSub.inh']]),
    ], 'order': None})
    # class-body import / alias of a name that the module binds to ANOTHER object (alias RHS must be expanded in the class)
    out.append({'tag': 'class-rebinds-module-name', 'modules': [
        M('c04defs', [], True), M('c04defs.m0', [['class', 'Alpha', None, [['def', 'am']]]]),
        M('c04defs.m1', [['class', 'Beta', None, [['def', 'bm']]]]),
        M('c04app', [], True),
        M('c04app.m2', [['from', 0, 'c04defs.m0', [['Alpha', 'T']]], ['import', 'c04defs.m0', 'md'],
                        ['class', 'K', None, [['from', 0, 'c04defs.m1', [['Beta', 'T']]], ['alias', 'U', 'T'], ['alias', 'Um', 'T.bm'],
                                              ['import', 'c04defs.m1', 'md'], ['alias', 'W', 'md.Beta'],
                                              ['class', 'Inner', None, []], ['alias', 'V', 'Inner']]],
                        ['class', 'K2', None, [['alias', 'T', 'md.Alpha'], ['alias', 'U2', 'T']]],
                        ['alias', 'modU', 'T']]),
    ], 'order': None})
    # star import from a module WITHOUT __all__ that binds underscore names through imports / aliases:
    # `other` must not get them; `main` keeps its own earlier binding of the same private name
    out.append({'tag': 'star-private-imported-names', 'modules': [
        M('c04lib', [], True), M('c04lib.defs', [['class', 'Alpha', None, []], ['class', 'Beta', None, []], ['def', '_hidden']]),
        M('c04lib.helpers', [['from', 0, 'c04lib.defs', [['Alpha', '_impl'], ['Beta', 'pub']]], ['import', 'c04lib.defs', '_dm'],
                             ['alias', '_al', 'pub'], ['alias', 'pal', '_impl'], ['def', '_own'], ['def', 'shown']]),
        M('other', [['star', 0, 'c04lib.helpers']]),
        M('main', [['from', 0, 'c04lib.defs', [['Beta', '_impl']]], ['from', 0, 'c04lib.defs', [['Alpha', '_dm']]],
                   ['star', 0, 'c04lib.helpers'], ['class', 'Sub', '_impl', []], ['alias', 'chk', '_dm']]),
        M('c04lib.rel', [['star', 1, 'helpers'], ['class', 'R', 'pub', []]]),
    ], 'order': None})
    # a locally bound name spelled like a ROOT package: the dotted name through it must follow the local binding
    out.append({'tag': 'local-name-spelled-like-root', 'modules': [
        M('core', [], True), M('core.util', [['class', 'RootU', None, []]]),
        M('app', [], True), M('app.core', [], True), M('app.core.util', [['class', 'AppU', None, [['def', 'meth']]]]),
        M('app.main', [['from', 0, 'app', [['core', None]]], ['import', 'app.core.util', None],
                       ['class', 'K', None, [['from', 1, '', [['core', None]]], ['import', 'app.core.util', 'util'],
                                             ['alias', 'ku', 'core.util.AppU']]],
                       ['alias', 'mu', 'core.util.AppU'], ['class', 'S', 'core.util.AppU', []]]),
        M('app.other', [['import', 'app.core', 'core'], ['import', 'app.core.util', None], ['alias', 'ou', 'core.util']]),
    ], 'order': None})
    # genuine defects kept as corpus cases (known findings)
    out.append({'tag': 'nested-class-capture', 'modules': [
        M('m', [['class', 'A0', None, []], ['class', 'B0', None, []], ['alias', 'x', 'A0'],
                ['class', 'Out', None, [['alias', 'x', 'B0'], ['class', 'In', None, [['alias', 'y', 'x']]]]]]),
    ], 'order': None})
    out.append({'tag': 'class-attr-module-fallback', 'modules': [
        M('d', [['def', 'helper'], ['def', 'thing']]),
        M('b', [['import', 'd', None], ['class', 'Base', None, [['alias', 'helper', 'd.thing']]]]),
        M('m', [['from', 0, 'd', [['helper', None]]], ['from', 0, 'b', [['Base', None]]], ['class', 'C', 'Base', []]]),
    ], 'order': None})
    out.append({'tag': 'find-skips-alias-in-base', 'modules': [
        M('m', [['class', 'Other', None, []], ['class', 'Base2', None, [['def', 'n']]],
                ['class', 'Base1', 'Base2', [['alias', 'n', 'Other']]], ['class', 'C', 'Base1', []]]),
    ], 'order': None})
    return out


def matrix_projects() -> List[dict]:
    """Systematic small domain: definer location x consumer location x import form x re-export x order."""
    base_mods = {'dtop': False, 'pk': True, 'pk.dm': False, 'pk.sub': True, 'pk.sub.dd': False,
                 'ctop': False, 'pk.cm': False, 'pk.sub.cs': False, 'pk2': True, 'pk2.x': False}
    definers = ['dtop', 'pk.dm', 'pk.sub.dd', 'pk', 'pk.sub']
    consumers = ['ctop', 'pk.cm', 'pk.sub.cs', 'pk', 'pk2']
    out = []
    for D in definers:
        for C in consumers:
            if C == D or D.startswith(C + '.') and False:
                continue
            if C == 'pk' and not D.startswith('pk.'):
                pass
            forms = []
            forms.append(('from_abs', [['from', 0, D, [['Foo', None]]]], 'Foo'))
            forms.append(('from_as', [['from', 0, D, [['Foo', 'Bar']]]], 'Bar'))
            pkC = C if base_mods[C] else (C.rsplit('.', 1)[0] if '.' in C else '')
            if pkC:
                Pp, T = pkC.split('.'), D.split('.')
                common = 0
                while common < len(Pp) and common < len(T) and Pp[common] == T[common]:
                    common += 1
                for keep in range(1, common + 1):
                    level = len(Pp) - keep + 1
                    forms.append(('from_rel_%d' % level, [['from', level, '.'.join(T[keep:]), [['Foo', 'R%d' % level]]]], 'R%d' % level))
            forms.append(('import_as', [['import', D, 'al']], 'al.Foo'))
            forms.append(('import_plain', [['import', D, None]], D + '.Foo'))
            if '.' in D:
                par, short = D.rsplit('.', 1)
                forms.append(('from_pkg_sub', [['from', 0, par, [[short, 'sm']]]], 'sm.Foo'))
            for fname, stmts, expr in forms:
                for rex in (False, True):
                    for rev in (False, True):
                        mods = {n: M(n, [], pkg) for n, pkg in base_mods.items()}
                        mods[D]['body'].append(['class', 'Foo', None, [['def', 'meth'], ['class', 'Inner', None, []]]])
                        body = mods[C]['body']
                        body.extend([list(x) for x in stmts])
                        body.append(['class', 'K', expr, [['def', 'own']]])
                        body.append(['alias', 'z', expr])
                        body.append(['alias', 'zm', expr + '.meth'])
                        body.append(['class', 'W', None, [['alias', 'y', expr], ['class', 'V', 'z', []]]])
                        if rex:
                            mods['rex'] = M('rex', [['from', 0, D, [['Foo', 'Pub']]]], False, ['Pub'])
                        names = sorted(mods)
                        order = names[::-1] if rev else None
                        out.append({'tag': 'matrix-%s-%s-%s-%s%s' % (D, C, fname, 'rex' if rex else 'plain', '-rev' if rev else ''),
                                    'modules': [mods[n] for n in names], 'order': order})
    return out


def prefix_root_projects() -> List[dict]:
    """Several ROOTS whose names are string-prefix related (core / coretools; a root module co.py beside a package cox), the
    shorter one added first: definer root x consumer root x import form x re-export (x re-exporter root) x order."""
    out = []
    for short, long_, short_pkg in (('core', 'coretools', True), ('ab', 'abq', True), ('co', 'cox', False), ('p', 'p_', True)):
        for droot in (long_, short):
            oroot = short if droot == long_ else long_
            if droot == short and not short_pkg:
                D = short
            else:
                D = droot + '.impl'
            for C in (droot + '.user' if '.' in D else None, oroot + '.user' if (oroot != short or short_pkg) else None, 'zuser'):
                if C is None:
                    continue
                forms = [('from_abs', [['from', 0, D, [['Foo', None]]]], 'Foo'),
                         ('from_as', [['from', 0, D, [['Foo', 'Bar']]]], 'Bar'),
                         ('import_as', [['import', D, 'al']], 'al.Foo'),
                         ('import_plain', [['import', D, None]], D + '.Foo')]
                if '.' in D and C.startswith(droot + '.'):
                    forms.append(('from_rel', [['from', 1, 'impl', [['Foo', 'R1']]]], 'R1'))
                    forms.append(('from_pkg_sub', [['from', 1, '', [['impl', 'sm']]]], 'sm.Foo'))
                for fname, stmts, expr in forms:
                    for rex in (None, droot + '.api' if '.' in D else None, oroot + '.api' if (oroot != short or short_pkg) else None, 'zapi'):
                        if rex is None and fname not in ('from_abs', 'import_as'):
                            continue
                        for rev in (False, True):
                            mods = {}
                            if short_pkg:
                                mods[short] = M(short, [], True)
                                mods[short + '.base'] = M(short + '.base', [['class', 'BaseThing', None, []]])
                            else:
                                mods[short] = M(short, [['class', 'BaseThing', None, []]])
                            mods[long_] = M(long_, [], True)
                            mods[long_ + '.other'] = M(long_ + '.other', [['def', 'helper']])
                            for n in (D, C, rex):
                                if n is not None and n not in mods:
                                    mods[n] = M(n, [])
                            mods[D]['body'].append(['class', 'Foo', None, [['def', 'meth'], ['class', 'Inner', None, []]]])
                            body = mods[C]['body']
                            body.extend([list(x) for x in stmts])
                            body.append(['class', 'K', expr, [['def', 'own']]])
                            body.append(['alias', 'z', expr])
                            body.append(['alias', 'zm', expr + '.meth'])
                            if rex is not None:
                                mods[rex]['body'].append(['from', 0, D, [['Foo', 'Pub']]])
                                mods[rex]['all'] = ['Pub']
                            names = sorted(mods)
                            out.append({'tag': 'prefixroots-%s-%s-%s-%s-%s%s' % (short, D, C, fname, rex or 'plain', '-rev' if rev else ''),
                                        'modules': [mods[n] for n in names], 'order': names[::-1] if rev else None})
    return out


def relative_project() -> dict:
    """every level 1..5 x {no module name, one component} from a package and a module at depths 1..3 (model vs pydoctor only:
    most of these do not import under CPython)."""
    mods = [M('a', [], True), M('a.x', [['def', 'fa']]), M('a.b', [], True), M('a.b.x', [['def', 'fb']]),
            M('a.b.c', [], True), M('a.b.c.x', [['def', 'fc']]), M('t', [])]
    k = 0
    for mod in mods:
        for level in range(1, 6):
            for name in ('', 'x', 'b.x'):
                k += 1
                mod['body'].append(['from', level, name, [['zz', 'r%d' % k]]])
    return {'tag': 'relative-sweep', 'modules': mods, 'order': None, 'no_cpython': True}


class Check(PropertyCheck):
    id = 'C04'
    props_module = 'Props.C04'
    models = {'names': 'XNames.v'}
    needs_gen = True
    gen_modules = ['gen_c04_code']
    rule = ('generated acyclic multi-package projects (packages depth <= 3, plain/aliased/relative(1-4)/star imports, module '
            'aliases, package re-imports, alias chains, class scopes, single re-exports) x a processing order; every name bound '
            'in every module and class namespace under CPython plus its dotted continuations to depth 3; non-trivial = a query '
            'whose name is bound by an import or alias (not a plain local definition); distinct by (project, namespace, name)')
    trusted_base = [
        'Coq 8.16.1 kernel (coqc; vm_compute for witnesses; no native_compute)',
        'no axioms (Print Assumptions: Closed under the global context for every theorem)',
        'extraction: ExtrOcamlBasic only; OCaml 4.13.1; coq/ocaml/driver.ml',
        'harness/c04.py + c04_gen.py + impl/c04_names.py (real pydoctor) + impl/c04_cpython.py (CPython 3.12 import system)',
        'translator harness/gen/gen_c04_code.py (fail-closed; bodies of Documentable.expandName, Module/Class._localNameToFullName, '
        'Class.find -> Gen/NamesCode.v) and the interpreter Model/NamesIR.v; primitives assumed as documented there: dict lookups on '
        'contents/_localNameToFullName_map, fullName(), parent, objForFullName, isinstance(x, Class), truthiness of a Documentable, '
        'mro() = the single-inheritance base chain; normalisations done by the translator with the meaning stated in the Model/NamesIR.v '
        'header: d.get(k, default) = d[k] if k in d else default, a local bound to self.contents / self._localNameToFullName_map is '
        'that dict, next(<generator pipeline over mro()>, default) = the for loop with an early return, a module-level helper called '
        'from a translated body is translated too and run on a fresh frame (SCall), [a, *l] = [a] + l; expandName is proved through '
        'one of four loop shapes (Proofs/NamesIRProofs.v), any other shape fails the build; '
        'Inheritable._localNameToFullName (Function objects), resolveName and '
        'objForFullName are pinned by the translator, not translated',
        'Spec/PyImport.v is a hand-written final-state semantics of CPython binding; validated against CPython on every run',
        'modelled not verified: at most one base per class (C3 is C05), no duplicate definitions, CPython ast parsing',
    ]
    manifest = {
        'text': ('TIE TO THE SOURCE: the bodies of Documentable.expandName, Module._localNameToFullName, Class._localNameToFullName and '
                 'Class.find are translated from the current pydoctor/model.py on every run (harness/gen/gen_c04_code.py -> '
                 'Gen/NamesCode.v) and C04_code_{module_l2f,class_l2f,find,expand_name}_is_model prove, for all inputs, that their '
                 'interpretation (Model/NamesIR.v) is l2f / find_member / expand_name of the model; C04_code_bound_name_sound restates '
                 'the property on the translated code; the interpreted code is also a third leg of the correspondence. '
                 'Model/Names.v mirrors visit_Import/visit_ImportFrom/_importNames/_importAll/_handleReExport/_handleAliasing, '
                 'expandName/resolveName/_localNameToFullName/Class.find/reparent and the processModule work-list; Spec/PyImport.v '
                 'states what CPython binds (relations incl. star imports + an evaluator proved sound for them). Proved for all '
                 'inputs: the relative-level arithmetic equals importlib._resolve_name (C04_relative_level); every alias entry '
                 'written for an import statement denotes what CPython binds (C04_alias_map_sound); expandName/resolveName never '
                 'yield another object than CPython in any state satisfying the registry/alias invariants (C04_expand_sound, '
                 '_class_scope); pydoctor ESTABLISHES those invariants for every well-formed project -- imports of every form, '
                 'definitions, nested classes, alias assignments, base expressions, star imports from processed modules -- under '
                 'every processing order, whenever the run stays inside the model-computed guard (C04_run_establishes_invariants), '
                 'hence the property in the shape of its text: every name Python binds in a module or class namespace resolves to '
                 'the Python object or not at all (C04_bound_name_sound; dotted names: C04_expand_sound_run). The guards are the '
                 'exact images of four refuted statements with vm_compute witnesses (stale defining-module name after a re-export '
                 'move, nested class seeing its enclosing class, class attribute falling back to module scope, Class.find skipping '
                 'an alias in an intermediate base). Tie: model vs real pydoctor (registry, alias maps, bases, expandName, '
                 'resolveName) and spec vs CPython on a complete definer x consumer x import-form x re-export x order matrix, the '
                 'complete relative-level grid and seeded random projects; oracle = the property on every run-time bound name and '
                 'on every name pydoctor knows that CPython does not bind.'),
        'note': ('Trusted: Coq kernel, extraction + driver, harness, CPython as the reference. Residual: runs in which a re-export '
                 'move fires are outside the whole-run theorems (reparent is proved to keep registry and alias maps sound, '
                 'C04_reexport_keeps_soundness_partial; the run invariant with moved paths is not mechanised); classes have at most '
                 'one base in the model; import cycles (star import from a module being processed) and rebinding are outside the '
                 'quantifier; "every module is processed" is taken from C01 (all_closed); the final-state semantics of the spec is '
                 'validated against CPython, not proved about it.'),
        'technique': 'Coq proof + three-way differential check (model, real pydoctor, CPython)',
    }
    assumptions = ['projects import without error under CPython (acyclic, every name used after it is bound)',
                   'every definition has a globally unique name; each name is bound once per scope',
                   'classes have at most one base in the model (multiple inheritance is C05)']

    # ---------------------------------------------------------------- input streams
    def projects(self, n: int, seed_salt: int = 0) -> List[dict]:
        out = []
        for i in range(n):
            rng = random.Random('%d/%d/%d' % (self.seed, seed_salt, i))
            size = 'small' if i % 5 == 0 else 'normal'
            g = G.Gen(rng, size=size, simple=(i % 5 == 3), shadow=0.35, prefix_roots=(i % 5 in (1, 3)))
            p = g.project()
            p['tag'] = 'gen-%d-%d' % (seed_salt, i)
            p['simple'] = (i % 5 == 3)
            out.append(p)
        return out

    # ---------------------------------------------------------------- one batch through the three parties
    def run_projects(self, projs: List[dict], oracle_only: bool = False) -> List[Violation]:
        out: List[Violation] = []
        # 1. CPython
        cp_in = []
        for i, p in enumerate(projs):
            p['files'] = G.files_of(p)
            cp_in.append({'files': p['files'], 'modules': [m['name'] for m in p['modules']], 'seed': self.seed + i,
                          'depth': 3, 'max_queries': 400})
        need = [i for i, p in enumerate(projs) if not p.get('no_cpython')]
        cp_res: Dict[int, Any] = {}
        res = lib.run_impl_worker('c04_cpython.py', [cp_in[i] for i in need], jobs=16)
        for i, r in zip(need, res):
            cp_res[i] = r
        live = []
        for i, p in enumerate(projs):
            if p.get('no_cpython'):
                p['queries'] = p.get('queries') or self.all_names_queries(p)
                live.append(p)
                continue
            r = cp_res[i]
            if not r['ok']:
                self.count('dropped_not_importable')
                if p['tag'] and not p['tag'].startswith('gen-'):
                    out.append(Violation('correspondence', 'corpus project %s does not import under CPython: %s'
                                         % (p['tag'], r['error']), case={'project': strip(p)}, found_input=False))
                continue
            p['queries'] = r['queries']
            live.append(p)
        # 2. pydoctor
        pd_in = [{'files': p['files'], 'roots': G.roots_of(p), 'order': p.get('order'),
                  'queries': [['.'.join([q[0]] + q[1]), q[2]] for q in p['queries']]} for p in live]
        pd_res = lib.run_impl_worker('c04_names.py', pd_in, jobs=16)
        # 2b. names pydoctor knows in a namespace that CPython does NOT bind there: added to the query list (value None,
        #     marker 'unbound') so that the oracle, the model and the replay see them too
        for p, pr in zip(live, pd_res):
            if p.get('no_cpython') or 'error' in pr:
                continue
            add_unbound_queries(p, pr)
        # 3. model + spec
        wires = []
        atoms = []
        for p in live:
            at = G.Atoms(G.all_idents(p, [q[2] for q in p['queries']]))
            atoms.append(at)
            order = p.get('order') or self.default_order(p)
            wires.append(enc([0, G.wire_project(p, at), [at.path(o) for o in order],
                              [[at.path(q[0]), [at.to[x] for x in q[1]], at.path(q[2])] for q in p['queries']]]))
        mo_res = [] if oracle_only else self.model('names', wires)
        for k, p in enumerate(live):
            # one evaluation = one (project, scope, name) query put to pydoctor, the model and CPython
            self.evaluations += max(1, len([q for q in p['queries'] if q[3] is not None]))
            self.count('projects')
            pr = pd_res[k]
            case = {'project': strip(p)}
            if 'error' in pr:
                out.append(Violation('oracle', 'pydoctor raised on a project of the subset: ' + pr['error'], case=case,
                                     observed=pr.get('tb')))
                continue
            values = {(q[0], tuple(q[1]), q[2]): q[3] for q in p['queries'] if q[3] is not None}
            for f, c in (p.get('features') or {}).items():
                self.count('feature_' + f, c)
            self.count('modules', len(p['modules']))
            self.count('queries', len(p['queries']))
            # oracle
            if len(G.roots_of(p)) > 1:
                self.count('projects_multi_root')
                rs = [x[:-3] if x.endswith('.py') else x for x in G.roots_of(p)]
                if any(a != b and b.startswith(a) for a in rs for b in rs):
                    self.count('projects_with_prefix_related_root_names')
            for qi, (q, r) in enumerate(zip(p['queries'], pr['results'])):
                if q[3] is None:
                    if len(q) > 4 and q[4] == 'unbound':
                        self.count('unbound_names_checked')
                        o = oracle_query(p, values, q, r)
                        if o is not None:
                            self.count('oracle_' + o[0])
                            if len([v for v in out if v.kind == 'oracle']) < 400:
                                out.append(Violation('oracle', o[1], case=dict(case, why=o[0], query=q, observed=r, tag=p.get('tag'),
                                                                              reexported_by=[]), expected=None, observed=r))
                    continue
                self.count('parts_%d' % (q[2].count('.') + 1))
                self.count('resolved' if r[2] is not None else 'unresolved')
                bnd = import_binders(p, q[0], q[1])
                if q[2].split('.')[0] in bnd or '.' in q[2]:
                    self.nontrivial.add((p['tag'], q[0], tuple(q[1]), q[2]))
                o = oracle_query(p, values, q, r)
                if o is not None:
                    why, text = o
                    self.count('oracle_' + why)
                    ident = cp_ident(q[3])
                    info = {'why': why, 'query': q, 'observed': r, 'tag': p.get('tag'),
                            'reexported_by': reexporters(p, values, ident) if q[3][0] == 'obj' else []}
                    if len([v for v in out if v.kind == 'oracle']) < 400:
                        out.append(Violation('oracle', text, case=dict(case, **info), expected=ident, observed=r))
                fnd = pr.get('found')
                f = fnd[qi] if fnd is not None and qi < len(fnd) else None
                if f is not None:
                    self.count('find_' + f[0])
                    if f[0] == 'obj' and r[2] is None:
                        self.count('find_object_followed_a_moved_name')
                o = oracle_find(p, values, q, r, f)
                if o is not None:
                    why, text = o
                    self.count('oracle_' + why)
                    ident = cp_ident(q[3])
                    info = {'why': why, 'query': q, 'observed': r, 'found': f, 'tag': p.get('tag'),
                            'reexported_by': reexporters(p, values, ident) if q[3][0] == 'obj' else []}
                    if len([v for v in out if v.kind == 'oracle']) < 400:
                        out.append(Violation('oracle', text, case=dict(case, **info), expected=ident, observed=f))
            if oracle_only:
                continue
            # correspondence model vs pydoctor, spec vs CPython
            at = atoms[k]
            mm = dec(mo_res[k])
            d = self.diff_model(p, at, mm, pr)
            if d is not None and len([v for v in out if v.kind == 'correspondence']) < 10:
                out.append(Violation('correspondence', 'Model.Names and pydoctor disagree: ' + d[0], case=case,
                                     expected=d[1], observed=d[2]))
            # how much of the observed stream lies inside the guard of the theorems
            leak = bool(mm[4]) if len(mm) > 4 else None
            if len(mm) > 5:
                self.count('runs_all_closed' if mm[5] else 'runs_not_all_closed')
                if mm[5] and leak is False:
                    self.count('runs_inside_all_guards_of_C04_bound_name_sound')
            self.count('runs_inside_guard_leak_false' if leak is False else 'runs_with_leak_flag')
            if leak and p.get('tag', '').startswith('gen-'):
                self.count('random_projects_with_leak_flag')
            if p.get('tag') == 'nested-class-capture' and leak is False:
                out.append(Violation('correspondence', 'the run-time guard (leak flag) of the model does not fire on the nested-class '
                                     'capture witness', case=case, found_input=False))
            simple = is_simple(p)
            if simple:
                self.count('projects_in_whole_project_theorem_subset')
            for q, mr, r in zip(p['queries'], mm[3], pr['results']):
                if q[3] is None or len(mr) < 5:
                    continue
                g = bool(mr[4])
                self.count('guard_true' if g else 'guard_false')
                if simple:
                    self.count('simple_guard_true' if g else 'simple_guard_false')
                if simple and g and r[2] is not None and r[2][1] != cp_ident(q[3]) and len(out) < 50:
                    out.append(Violation('correspondence', 'a name inside the guard of C04_expand_sound_project_partial resolves to '
                                         'another object than CPython binds: the theorem, the model or the spec no longer describe '
                                         'the code', case=dict(case, query=q), expected=cp_ident(q[3]), observed=r))
            d = self.diff_spec(p, at, mm)
            if d is not None and len([v for v in out if v.kind == 'spec']) < 5:
                out.append(Violation('spec', 'SPEC VALIDATION: Spec.PyImport and CPython disagree (broken check, not a '
                                     'finding about pydoctor): ' + d[0], case=case, expected=d[1], observed=d[2],
                                     found_input=False))
            if k < 3:
                self.sample({'tag': p.get('tag'), 'files': p['files'], 'order': p.get('order'),
                             'some_queries': p['queries'][:6]})
        return out

    def default_order(self, p: dict) -> List[str]:
        """System.addPackage order: __init__ first, then sorted directory entries (files 'x.py' and dirs 'x')."""
        names = {m['name']: m for m in p['modules']}
        out: List[str] = []

        def entries(parent: Optional[str]) -> List[str]:
            kids = [n for n in names if (n.rsplit('.', 1)[0] if '.' in n else None) == parent]
            return sorted(kids, key=lambda n: (n.rsplit('.', 1)[-1] + ('' if names[n]['pkg'] else '.py')))

        def walk(n: str) -> None:
            out.append(n)
            if names[n]['pkg']:
                for c in entries(n):
                    walk(c)
        for r in G.roots_of(p):
            walk(r[:-3] if r.endswith('.py') else r)
        return out

    def all_names_queries(self, p: dict) -> List[Any]:
        qs = []

        def body(m: str, qual: List[str], b: List[Any]) -> None:
            for s in b:
                if s[0] == 'import':
                    qs.append([m, qual, s[2] or s[1].split('.')[0], None])
                elif s[0] == 'from':
                    for o, a in s[3]:
                        qs.append([m, qual, a or o, None])
                        qs.append([m, qual, (a or o) + '.fa', None])
                elif s[0] == 'class':
                    qs.append([m, qual, s[1], None])
                    body(m, qual + [s[1]], s[3])
                elif s[0] in ('def', 'alias'):
                    qs.append([m, qual, s[1], None])
        for mod in p['modules']:
            body(mod['name'], [], mod['body'])
        return qs

    def diff_model(self, p: dict, at: G.Atoms, mm: Any, pr: Any) -> Optional[Tuple[str, Any, Any]]:
        oof, anomaly, objs, results = mm[:4]
        if oof or anomaly:
            return ('model left its domain (oof=%s anomaly=%s)' % (oof, anomaly), None, None)
        mobjs = {}
        for path, oid, kind, amap, base, state in objs:
            e = {'kind': kind, 'id': at.unpath(oid),
                 'amap': {at.back.get(n, '?'): at.unpath(q) for n, q in amap} if kind != 3 else None,
                 'base': at.unpath(base[0]) if base else None, 'state': state if kind in (0, 1) else None}
            mobjs[at.unpath(path)] = e
        pobjs = {}
        for fn, e in pr['objs'].items():
            pobjs[fn] = {'kind': e['kind'], 'id': e['id'], 'amap': e['amap'] if e['kind'] != 3 else None,
                         'base': e['base'], 'state': e['state']}
        if sorted(mobjs) != sorted(pobjs):
            return ('registered full names differ', sorted(mobjs), sorted(pobjs))
        for fn in sorted(mobjs):
            if mobjs[fn] != pobjs[fn]:
                return ('object %s differs' % fn, mobjs[fn], pobjs[fn])
        for q, mr, r in zip(p['queries'], results, pr['results']):
            mres = [at.unpath(mr[0]) if mr[0] else None, at.unpath(mr[1]),
                    [at.unpath(mr[2][0][0]), at.unpath(mr[2][0][1]), mr[2][0][2]] if mr[2] else None]
            if mr[0] == [] and r[0] is None:
                continue
            if len(mr) > 5 and mr[0]:
                code = at.unpath(mr[5][0]) if mr[5] else None
                self.count('code_leg_queries')
                if code != r[1]:
                    return ('the body of expandName translated from model.py (Gen/NamesCode.v, interpreted by Model.NamesIR) and '
                            'pydoctor disagree on %r in %s' % (q[2], '.'.join([q[0]] + q[1])), code, r[1])
            if mres != r:
                return ('expandName/resolveName of %r in %s' % (q[2], '.'.join([q[0]] + q[1])), mres, r)
        return None

    def diff_spec(self, p: dict, at: G.Atoms, mm: Any) -> Optional[Tuple[str, Any, Any]]:
        for q, mr in zip(p['queries'], mm[3]):
            if q[3] is None:
                continue
            sv = mr[3]
            if not sv:
                got = None
            else:
                tag, m, qq = sv[0]
                got = ['mod', at.unpath(m)] if tag == 0 else ['obj', at.unpath(m), at.unpath(qq)]
            if got != q[3]:
                return ('value of %r in %s' % (q[2], '.'.join([q[0]] + q[1])), got, q[3])
        return None

    # ---------------------------------------------------------------- relative-level arithmetic, exhaustively
    def relative_sweep(self) -> List[Violation]:
        out: List[Violation] = []
        cases = []
        comps = ['a', 'b', 'c', 'd']
        for depth in range(1, 5):
            for is_pkg in (0, 1):
                for level in range(0, 7):
                    for name in ([], ['x'], ['x', 'y']):
                        cases.append((comps[:depth], is_pkg, level, name))
        at = G.Atoms(comps + ['x', 'y'])
        wires = [enc([1, [at.to[c] for c in mp], pk, lv, [at.to[c] for c in nm]]) for mp, pk, lv, nm in cases]
        res = [dec(w) for w in self.model('names', wires)]
        rel_cases = []
        for mp, pk, lv, nm in cases:
            modname = '.'.join(mp)
            package = modname if pk else (modname.rsplit('.', 1)[0] if '.' in modname else '')
            rel_cases.append([package, lv, '.'.join(nm)])
        cp = lib.run_impl_worker('c04_cpython.py', {'resolve': [c for c in rel_cases if c[1] > 0]})
        cpi = iter(cp)
        for (mp, pk, lv, nm), r, rc in zip(cases, res, rel_cases):
            self.evaluations += 1
            mres = at.unpath(r[0][0]) if r[0] else None
            sres = at.unpath(r[1][0]) if r[1] else None
            cres = next(cpi) if lv > 0 else '.'.join(nm)
            self.count('relative_' + ('error' if sres is None else 'ok'))
            mine = py_resolve_relative('.'.join(mp), bool(pk), lv, '.'.join(nm))
            if sres != cres or mine != cres:
                out.append(Violation('spec', 'SPEC VALIDATION: resolve_relative differs from importlib._resolve_name',
                                     case={'relative': [mp, pk, lv, nm]}, expected=cres, observed=[sres, mine], found_input=False))
            if mres != sres:
                out.append(Violation('correspondence', 'model level arithmetic differs from the spec (theorem C04_relative_level '
                                     'would be false)', case={'relative': [mp, pk, lv, nm]}, expected=sres, observed=mres))
        self.stats['relative_arith_cases'] = len(cases)
        # the real visitor on the same grid: the sweep project is compared model-vs-pydoctor entry by entry,
        # and every alias entry must be what CPython's rule gives
        p = relative_project()
        out.extend(self.run_projects([p]))
        pd = lib.run_impl_worker('c04_names.py', [{'files': G.files_of(p), 'roots': G.roots_of(p), 'order': None, 'queries': []}])[0]
        if 'error' in pd:
            out.append(Violation('oracle', 'pydoctor raised on the relative-import sweep: ' + pd['error'], case={'project': strip(p)}))
            return out
        for mod in p['modules']:
            amap = pd['objs'][mod['name']]['amap']
            for s in mod['body']:
                if s[0] != 'from':
                    continue
                want = py_resolve_relative(mod['name'], mod['pkg'], s[1], s[2])
                for o, a in s[3]:
                    got = amap.get(a)
                    exp = None if want is None else want + '.' + o
                    self.evaluations += 1
                    if got != exp:
                        out.append(Violation('oracle', 'relative import `from %s%s import %s` in %s %s: pydoctor binds %r, '
                                             'CPython resolves the module to %r' % ('.' * s[1], s[2], o, 'package' if mod['pkg'] else 'module',
                                                                                     mod['name'], got, want),
                                             case={'project': strip(p), 'why': 'relative-level', 'stmt': s, 'module': mod['name']},
                                             expected=exp, observed=got))
        return out

    # ---------------------------------------------------------------- driver hooks
    def correspondence(self) -> List[Violation]:
        out = self.relative_sweep()
        cor = corpus()
        out.extend(self.run_projects(cor))
        mat = matrix_projects()
        self.stats['matrix_projects'] = len(mat)
        out.extend(self.run_projects(mat))
        pre = prefix_root_projects()
        self.stats['prefix_root_projects'] = len(pre)
        out.extend(self.run_projects(pre))
        self.exhaustive = True      # the matrix (definer x consumer x import form x re-export x order) and the relative-level grid are complete
        n = 300 if self.tier == 'quick' else 10000
        self.stats['random_projects'] = n
        self.stats['corpus_projects'] = len(cor) + 1
        step = 500
        for s in range(0, n, step):
            out.extend(self.run_projects(self.projects(min(step, n - s), seed_salt=1 + s // step)))
        self.stats['distinct_nontrivial'] = len(self.nontrivial)
        # spec-validation failures are broken checks: they go to `broken` through kind != 'oracle'
        return out

    def search(self, broken: List[Violation]) -> List[Violation]:
        found: List[Violation] = []
        n = 1500 if self.tier == 'quick' else 4000
        for s in range(0, n, 500):
            vs = self.run_projects(self.projects(500, seed_salt=1000 + s // 500), oracle_only=True)
            known, _ = lib.load_known_findings(self.id)
            fresh = [v for v in vs if v.kind == 'oracle' and self.classify_known(v, known) is None]
            if fresh:
                return fresh[:5]
            found.extend([v for v in vs if v.kind == 'oracle'][:2])
        return found[:3]

    def classify_known(self, v: Violation, known: List[dict]) -> Optional[dict]:
        c = v.case if isinstance(v.case, dict) else {}
        why = c.get('why')
        for k in known:
            mt = k.get('match', {})
            if mt.get('why') != why:
                continue
            if mt.get('class') == 'reexported-object-imported-from-defining-module':
                if c.get('reexported_by'):
                    return k
            elif mt.get('class') == 'corpus-tag':
                if c.get('tag') == mt.get('tag') and c.get('query', [None, None, None])[:3] in mt.get('queries', []):
                    return k
        return None

    def replay(self, data: Any) -> int:
        case = data['input']
        if not isinstance(case, dict):
            print('nothing to replay:', data.get('what'))
            return 1
        if 'relative' in case:
            mp, pk, lv, nm = case['relative']
            at = G.Atoms(sorted(set(mp + nm)))
            r = dec(self_model(self, enc([1, [at.to[c] for c in mp], pk, lv, [at.to[c] for c in nm]])))
            print('model:', r[0], 'spec:', r[1])
            return 1 if r[0] != r[1] else 0
        p = dict(case['project'])
        p['files'] = G.files_of(p)
        print('--- project (%s)' % p.get('tag'))
        for f, src in sorted(p['files'].items()):
            print('# ' + f)
            print(src)
        print('--- processing order:', p.get('order') or '(default)')
        if case.get('why') == 'relative-level':
            pd = lib.run_impl_worker('c04_names.py', [{'files': p['files'], 'roots': G.roots_of(p), 'order': None, 'queries': []}])[0]
            mod = [m for m in p['modules'] if m['name'] == case['module']][0]
            s = case['stmt']
            want = py_resolve_relative(mod['name'], mod['pkg'], s[1], s[2])
            got = pd['objs'][mod['name']]['amap'].get(s[3][0][1] or s[3][0][0])
            exp = None if want is None else want + '.' + s[3][0][0]
            print('statement: from %s%s import %s  in %s' % ('.' * s[1], s[2], s[3][0][0], mod['name']))
            print('pydoctor alias entry:', got)
            print('CPython resolves to :', exp)
            return 1 if got != exp else 0
        cp = lib.run_impl_worker('c04_cpython.py', [{'files': p['files'], 'modules': [m['name'] for m in p['modules']],
                                                     'seed': 0, 'depth': 4, 'max_queries': 100000}])[0]
        if not cp['ok']:
            print('CPython cannot import the project:', cp['error'])
            return 1
        queries = cp['queries']
        if case.get('query'):
            queries = [q for q in queries if q[:3] == case['query'][:3]] or [case['query'][:3] + [None, 'unbound']]
        pd = lib.run_impl_worker('c04_names.py', [{'files': p['files'], 'roots': G.roots_of(p), 'order': p.get('order'),
                                                   'queries': [['.'.join([q[0]] + q[1]), q[2]] for q in queries]}])[0]
        if 'error' in pd:
            print('pydoctor raised:', pd['error'])
            print(pd.get('tb'))
            return 1
        values = {(q[0], tuple(q[1]), q[2]): q[3] for q in cp['queries']}
        bad = 0
        print('roots in System.rootobjects order:', pd.get('rootorder'))
        for qi, (q, r) in enumerate(zip(queries, pd['results'])):
            o = oracle_query(p, values, q, r)
            f = (pd.get('found') or [None] * (qi + 1))[qi]
            print('namespace %-20s name %-24s CPython: %-28s pydoctor: expandName=%r resolveName=%r find_object=%r'
                  % ('.'.join([q[0]] + q[1]), q[2], cp_ident(q[3]) or '(not bound)', r[1], r[2][0] if r[2] else None,
                     (f[1] if f[0] == 'obj' else f[0] + (': ' + f[1] if len(f) > 1 else '')) if f else None))
            if o is not None:
                bad += 1
                print('   PROPERTY VIOLATED (%s): %s' % o)
            o2 = oracle_find(p, values, q, r, f)
            if o2 is not None:
                bad += 1
                print('   PROPERTY VIOLATED (%s): %s' % o2)
        print('property:', 'violated on %d name(s)' % bad if bad else 'holds on this input')
        return 1 if bad else 0


def self_model(chk: Check, wire: str) -> str:
    b, out = lib.build_model(chk.id + '_names', 'XNames.v')
    if b is None:
        raise RuntimeError(out)
    return lib.run_model(b, [wire])[0]


def split_scope(p: dict, ctx_id: str) -> Tuple[str, List[str]]:
    mods = set(m['name'] for m in p['modules'])
    parts = ctx_id.split('.')
    for i in range(len(parts), 0, -1):
        if '.'.join(parts[:i]) in mods:
            return '.'.join(parts[:i]), parts[i:]
    return ctx_id, []


def add_unbound_queries(p: dict, pr: dict) -> None:
    bound = set((q[0], tuple(q[1]), q[2]) for q in p['queries'] if q[3] is not None and '.' not in q[2])
    for ctx_id, name, ctx_full, ex, res in pr.get('own', []):
        m, qual = split_scope(p, ctx_id)
        if (m, tuple(qual), name) in bound:
            continue
        p['queries'].append([m, qual, name, None, 'unbound'])
        pr['results'].append([ctx_full, ex, res])


def is_simple(p: dict) -> bool:
    """Proofs/NamesInvProofs.v simple_project + no re-export: import statements of every form, defs, classes without base."""
    def body(b: List[Any]) -> bool:
        for s in b:
            if s[0] in ('star', 'alias'):
                return False
            if s[0] == 'class' and (s[2] is not None or not body(s[3])):
                return False
        return True

    def froms(b: List[Any]) -> List[str]:
        out = []
        for s in b:
            if s[0] == 'from':
                out += [a or o for o, a in s[3]]
            elif s[0] == 'class':
                out += froms(s[3])
        return out
    for m in p['modules']:
        if not body(m['body']):
            return False
        if m.get('all') and set(m['all']) & set(froms(m['body'])):
            return False
    return True


def strip(p: dict) -> dict:
    return {'tag': p.get('tag'), 'modules': p['modules'], 'order': p.get('order')}
