"""C16 -- warnings point at the right place and every reported problem is counted.

Model/Lines.v + Model/Msg.v + Spec/CleanDoc.v (extracted, one binary) are run against the real pydoctor:
  unit level  (harness/impl/c16_unit.py): extract_docstring, inspect.cleandoc, str.isspace/expandtabs,
              Documentable.report, Field.report, the linker's report, System.msg, reportErrors, driver.main's
              exit logic -- exhaustive small domains + seeded random streams;
  end to end  (harness/impl/c16_e2e.py): generated modules with ONE problem planted at a known physical line,
              `pydoctor.driver.main` run in-process with and without --warnings-as-errors.
The oracle is the property itself, stated on the stdout lines and the exit status of the real run, with the
ground truth of the generator (it never looks at the model)."""
from __future__ import annotations
import itertools, json, random, re
from typing import Any, Dict, List, Optional, Tuple
import lib
from lib import PropertyCheck, Violation, enc, dec, txt

FMTS = ['epytext', 'restructuredtext', 'google', 'numpy']
KINDS = ['module', 'class', 'function', 'method', 'attribute', 'classattribute']
HEADER1 = "these 1 objects' docstrings contain syntax errors:"


# =============================================================================== pure helpers (no pydoctor)
def ws_excess(value: str) -> int:
    """By how many lines extract_docstring_linenum overshoots for this docstring value: the number of lines
    between the first leading whitespace-only line (index >= 1) that is longer than cleandoc's margin and the
    first line with text.  0 = the layout is aligned.  (Independent Python statement of Spec.CleanDoc.leading_ws_fit.)"""
    lines = value.expandtabs().split('\n')
    k = None
    for i, l in enumerate(lines):
        if l.strip():
            k = i
            break
    if k is None or k == 0:
        return 0
    indents = [len(l) - len(l.lstrip()) for l in lines[1:] if l.strip()]
    margin = min(indents)
    for j in range(1, k):
        if len(lines[j]) > margin:
            return k - j
    return 0


RST_SEPARATORS = '\x1c\x1d\x1e\x85\u2028\u2029'     # docutils splits on these (str.splitlines); \x0b and \x0c become spaces


def separators_before(case: Dict[str, Any]) -> int:
    """how many characters docutils takes for line boundaries (but Python does not) precede the problem block"""
    if case.get('pidx', -1) < 0:
        return 0
    head = case['value'].split('\n')[:case['pidx'] + case['first_rel']]
    return sum(l.count(ch) for l in head for ch in RST_SEPARATORS)


def aligned_lines(value: str, k: int) -> Optional[List[str]]:
    """What cleandoc makes of the value lines k, k+1, ... (expandtabs, margin removed / first line lstripped)."""
    lines = value.expandtabs().split('\n')
    indents = [len(l) - len(l.lstrip()) for l in lines[1:] if l.strip()]
    margin = min(indents) if indents else None
    out = []
    for j in range(k, len(lines)):
        l = lines[j]
        out.append(l.lstrip() if j == 0 else (l[margin:] if margin is not None else l))
    return out


# =============================================================================== generator of modules
def blocks_for(fmt: str, problem: str, place: str, variant: int, name: str, raw: bool, has_param: bool
               ) -> Tuple[List[List[str]], List[str], int, int, List[List[str]], str]:
    """-> (blocks before, problem block, index of the block line the report must name (first line of the paragraph /
    item / field), index of the line holding the problem, blocks after, substring of the expected message)."""
    ep = fmt == 'epytext'
    link = ('L{%s}' if ep else '`%s`') % name
    bad = 'B{unclosed' if ep else '**unclosed'
    fld = (lambda t, b: '@%s: %s' % (t, b)) if ep else (lambda t, b: ':%s: %s' % (t, b))
    clean_paras = [['Some plain text.'], ['Two lines of', 'plain text here.']]
    if raw:
        clean_paras.append([r'Matches C{\d+} digits.' if ep else r'Matches ``\d+`` digits.'])
    before = [clean_paras[variant % len(clean_paras)]]
    if variant % 3 == 2:
        before.append(clean_paras[(variant + 1) % len(clean_paras)])
    if variant % 5 == 4:
        before = []
    after: List[List[str]] = []
    clean_fields: List[str] = []
    if fmt in ('epytext', 'restructuredtext'):
        if has_param and variant % 2 == 0:
            clean_fields.append(fld('param a', 'the a.'))
        if variant % 4 == 1:
            clean_fields.append(fld('note', 'a clean note.'))
    elif fmt == 'google' and has_param and variant % 2 == 0:
        after = [['Args:', '    a: the a.']]
    elif fmt == 'numpy' and has_param and variant % 2 == 0:
        after = [['Parameters', '----------', 'a', '    the a.']]

    if problem == 'xref':
        msg = 'Cannot find link target for "%s"' % name
        if place == 'para':
            blk, first, prob = ['See %s there.' % link], 0, 0
        elif place == 'titled':
            blk, first, prob = ['See %s there.' % link], 0, 0
        elif place == 'para2':
            blk, first, prob = ['This paragraph starts here', 'and links %s there.' % link], 0, 1
        elif place == 'item':
            pre = '  ' if ep else ''
            blk = [pre + '- first item', pre + '- second item', pre + '  links %s there' % link]
            first, prob = 1, 2
            if not before:
                before = [clean_paras[0]]
        elif place == 'fieldbody':
            blk, first, prob = [fld('note', 'some note'), '    links %s there' % link], 0, 1
        else:
            raise ValueError(place)
    elif problem == 'markup':
        msg = 'bad docstring: '
        if place == 'para':
            blk, first, prob = ['Bad %s text.' % bad], 0, 0
        elif place == 'para2':
            blk, first, prob = ['This paragraph starts here', 'and has %s text.' % bad], 0, 1
        elif place == 'atline2':
            # a tokenizer warning that names its own line inside the paragraph
            blk, first, prob = ['This paragraph starts here', '@param without the colon'], 0, 1
        elif place == 'fieldbody':
            blk, first, prob = [fld('note', 'a note'), '    with %s text' % bad], 0, 1
        else:
            raise ValueError(place)
    elif problem == 'field':
        msg = "Unknown field 'bogus'"
        blk, first, prob = [fld('bogus', 'unknown field')], 0, 0
    elif problem == 'param':
        msg = 'Documented parameter "nosuchparam" does not exist'
        if fmt == 'google':
            blk, first, prob = ['Args:', '    a: the a.', '    nosuchparam: nope'], 2, 2
            after = []
        elif fmt == 'numpy':
            blk, first, prob = ['Parameters', '----------', 'a', '    the a.', 'nosuchparam', '    nope'], 4, 4
            after = []
        elif place == 'consol_list':
            blk, first, prob = [':Parameters:', '    - `a`: the a.', '    - `nosuchparam`: nope', '      more'], 2, 2
            clean_fields = [f for f in clean_fields if 'param a' not in f]
        elif place == 'consol_deflist':
            blk, first, prob = [':Parameters:', '    a', '        the a.', '    nosuchparam', '        nope'], 3, 3
            clean_fields = [f for f in clean_fields if 'param a' not in f]
        else:
            blk, first, prob = [fld('param a', 'the a.'), fld('param nosuchparam', 'nope')], 1, 1
            clean_fields = [f for f in clean_fields if 'param a' not in f]
    elif problem == 'consolidated':
        msg = 'Unable to split consolidated field "Parameters"'
        blk, first, prob = [':Parameters: a b c'], 0, 0
    elif problem == 'none':
        msg = ''
        blk, first, prob = [], 0, 0
    else:
        raise ValueError(problem)

    is_field_block = problem in ('field', 'param', 'consolidated') or place == 'fieldbody'
    if fmt in ('epytext', 'restructuredtext'):
        if is_field_block:
            # fields go last; the problem field is glued to the clean fields (one field list)
            if problem == 'param':
                pblock = clean_fields + blk
                first += len(clean_fields)
                prob += len(clean_fields)
                return before, pblock, first, prob, [], msg
            pblock = clean_fields + blk
            return before, pblock, first + len(clean_fields), prob + len(clean_fields), [], msg
        else:
            after = [clean_fields] if clean_fields else []
            return before, blk, first, prob, after, msg
    return before, blk, first, prob, after, msg


def places_for(fmt: str, problem: str) -> List[str]:
    if problem == 'xref':
        if fmt == 'restructuredtext':
            return ['para', 'para2', 'item', 'fieldbody', 'titled']
        return ['para', 'para2', 'item', 'fieldbody'] if fmt == 'epytext' else ['para', 'para2', 'item']
    if problem == 'markup':
        return ['para', 'para2', 'fieldbody', 'atline2'] if fmt == 'epytext' else ['para', 'para2']
    if problem == 'param' and fmt == 'restructuredtext':
        return ['-', 'consol_list', 'consol_deflist']
    return ['-']


def problems_for(kind: str, fmt: str = 'epytext') -> List[str]:
    out = ['xref', 'markup', 'field'] + (['param'] if kind in ('function', 'method') else [])
    if fmt == 'restructuredtext' and kind in ('function', 'method'):
        out.append('consolidated')    # ":Parameters: a b c" -- cannot be split
    if fmt in ('google', 'numpy') and kind in ('attribute', 'classattribute'):
        out.remove('field')       # napoleon reads an attribute docstring as "type: description"; a field list is not passed on
    return out


def docstring_value(layout: Dict[str, Any], before, blk, after) -> Tuple[str, int]:
    """-> (value of the literal, index in the value's lines of the first line of the problem block)."""
    ci = ' ' * layout['ci']
    content: List[Optional[str]] = []          # None = separator line
    pidx = -1
    for b in before:
        content += b + [None]
    if blk:
        pidx = len(content)
        content += blk + [None]
    for b in after:
        content += b + [None]
    while content and content[-1] is None:
        content.pop()
    seps = layout.get('seps', '')
    V: List[str] = []
    if layout['opening_text']:
        off = 0
    else:
        V.append(layout.get('first_ws', ''))
        V += layout.get('leading', [])
        off = len(V)
    for i, c in enumerate(content):
        if c is None:
            V.append(seps if (i + off) > 0 else '')
        elif i + off == 0:
            V.append(c)
        else:
            V.append(ci + c)
    if layout.get('closing_own_line', True):
        V.append(' ' * layout['code_indent'])
    return '\n'.join(V), (pidx + off if pidx >= 0 else -1)


def assemble(case: Dict[str, Any], k: int) -> Tuple[str, Dict[str, Any]]:
    kind, fmt = case['kind'], case['fmt']
    lay = case['layout']
    value = case['value']
    q = lay.get('quote', '"""')
    lit_prefix = 'r' if lay.get('raw') else ''
    out: List[str] = []
    shift = [('# moved' if i % 2 == 0 else '') for i in range(k)]
    if kind == 'module':
        out += shift
        code_indent = 0
    else:
        if case.get('moddoc', True):
            out += ['"""Clean module docstring."""', '']
        out += case.get('prelude', [])
        out += shift
        code_indent = {'class': 4, 'function': 4, 'method': 8, 'attribute': 0, 'classattribute': 4}[kind]
    def_line = 0
    if kind == 'class':
        out.append('class C:')
        def_line = len(out)
    elif kind == 'function':
        out.append('def f(a):')
        def_line = len(out)
    elif kind == 'method':
        out += ['class C:', '    """Clean class docstring."""']
        out.append('    def m(self, a):')
        def_line = len(out)
    elif kind == 'attribute':
        out.append('x = 1')
        def_line = len(out)
    elif kind == 'classattribute':
        out += ['class C:', '    """Clean class docstring."""']
        out.append('    x = 1')
        def_line = len(out)
    n0 = len(out) + 1
    vlines = value.split('\n')
    lit = (' ' * code_indent) + lit_prefix + q + value + q
    out += lit.split('\n')
    end = len(out)
    assert end - n0 + 1 == len(vlines)
    if kind in ('class',):
        out.append('    y = 2')
    elif kind == 'function':
        out.append('    return a')
    elif kind == 'method':
        out.append('        return a')
    elif kind == 'module':
        out += ['', 'Y = 2']
    src = '\n'.join(out) + '\n'
    truth = {'n0': n0, 'end': end, 'def_line': def_line,
             'first': n0 + case['pidx'] + case['first_rel'] if case['pidx'] >= 0 else None,
             'prob': n0 + case['pidx'] + case['prob_rel'] if case['pidx'] >= 0 else None}
    return src, truth


TARGET = {'module': 'mod', 'class': 'mod.C', 'function': 'mod.f', 'method': 'mod.C.m', 'attribute': 'mod.x',
          'classattribute': 'mod.C.x'}


def make_case(fmt: str, kind: str, problem: str, place: str, variant: int, layout: Dict[str, Any], k: int,
              quiet: bool = True, moddoc: bool = True, prelude: Optional[List[str]] = None) -> Dict[str, Any]:
    name = 'nosuch%d' % (variant % 7)
    has_param = kind in ('function', 'method')
    code_indent = {'module': 0, 'class': 4, 'function': 4, 'method': 8, 'attribute': 0, 'classattribute': 4}[kind]
    layout = dict(layout)
    layout['code_indent'] = code_indent
    layout['ci'] = max(0, code_indent + layout.get('ci_delta', 0))
    flat = place in ('para', 'para2', 'atline2', 'titled') or (problem in ('field', 'param', 'consolidated') and fmt in ('epytext', 'restructuredtext') and not place.startswith('consol_')) or problem == 'none'
    force_before = bool(layout.get('opening_text')) and not flat
    if fmt == 'epytext' and place == 'item' and layout.get('opening_text'):
        # epytext cannot tell the indentation of text on the opening line ("Lists must be indented")
        layout.update(opening_text=False, first_ws='', leading=[])
    before, blk, first_rel, prob_rel, after, msg = blocks_for(fmt, problem, place, variant, name, bool(layout.get('raw')), has_param)
    if place == 'titled':
        before = [['Title', '=====']]                   # the docstring opens with a section title
    if layout.get('inject'):
        # a character that str.splitlines() treats as a line boundary, inside the text BEFORE the problem
        before = [['Some plain%stext.' % layout['inject']]] + [b for b in before]
        if place == 'titled':
            before = [['Title', '====='], ['Some plain%stext.' % layout['inject']]]
    if force_before and not before:
        # a block with indented continuation lines must not sit on the opening line: cleandoc would take the
        # continuation's indentation for the margin and change the structure of the docstring
        before = [['Some plain text.']]
    value, pidx = docstring_value(layout, before, blk, after)
    case = {'fmt': fmt, 'kind': kind, 'problem': problem, 'place': place, 'variant': variant, 'layout': layout, 'k': k,
            'quiet': quiet, 'moddoc': moddoc, 'prelude': prelude or [], 'value': value, 'pidx': pidx,
            'first_rel': first_rel, 'prob_rel': prob_rel, 'msg': msg, 'target': TARGET[kind]}
    srcs, truths = [], []
    for kk in ([0] if k == 0 else [0, k]):
        s, t = assemble(case, kk)
        srcs.append(s)
        truths.append(t)
    case['sources'] = srcs
    case['truth'] = truths
    return case


def header_on_opening_line_case(fmt: str) -> Dict[str, Any]:
    """Corpus case: a google section header as the text on the opening line.  inspect.cleandoc dedents the
    continuation lines by THEIR common indent, so no indented block is left under the header, napoleon sees plain text and
    there is no parameter field: pydoctor must report NOTHING here (in particular no 'Documented parameter' warning)."""
    assert fmt == 'google'
    body = ['Args:', '        a: the a.', '        nosuchparam: nope']
    value = '\n'.join(body + ['    '])
    case = {'fmt': fmt, 'kind': 'function', 'problem': 'none', 'place': '-', 'variant': 0, 'k': 0, 'quiet': True,
            'moddoc': True, 'prelude': [], 'value': value, 'pidx': -1, 'first_rel': 0, 'prob_rel': 0, 'msg': '',
            'target': 'mod.f', 'layout': {'opening_text': True, 'code_indent': 4, 'ci': 4, 'header_on_opening_line': True}}
    src, truth = assemble(case, 0)
    case['sources'], case['truth'] = [src], [truth]
    return case


LAYOUT_BELOW = {'opening_text': False, 'first_ws': '', 'leading': [], 'ci_delta': 0, 'closing_own_line': True, 'seps': ''}
LAYOUT_OPEN = {'opening_text': True, 'ci_delta': 0, 'closing_own_line': True, 'seps': ''}


def random_layout(rng: random.Random, code_indent: int, want_excess: Optional[bool]) -> Dict[str, Any]:
    lay: Dict[str, Any] = {}
    lay['opening_text'] = rng.random() < 0.3
    lay['raw'] = rng.random() < 0.2
    lay['quote'] = '"""' if rng.random() < 0.8 else "'''"
    lay['ci_delta'] = rng.choice([0, 0, 0, 2, 4, -2, -code_indent])
    ci = max(0, code_indent + lay['ci_delta'])
    lay['closing_own_line'] = rng.random() < 0.8
    lay['seps'] = rng.choice(['', '', '', ' ' * ci, ' '])
    if not lay['opening_text']:
        lay['first_ws'] = rng.choice(['', '', '', ' ', '   ', '\t', ' ' * (ci + 3)])
        n = rng.choice([0, 0, 1, 1, 2, 3])
        fits = ['', '', ' ' * max(0, ci - 2), ' ' * ci, ' ' * (ci // 2)]
        over = [' ' * (ci + 1), ' ' * (ci + 4), '\t' if ci < 8 else ' ' * (ci + 2), ' ' * ci + '\t']
        lead = []
        for _ in range(n):
            if want_excess is False:
                lead.append(rng.choice(fits))
            else:
                lead.append(rng.choice(fits + over))
        if want_excess and n > 0 and all(len(w.expandtabs()) <= ci for w in lead):
            lead[rng.randrange(n)] = rng.choice(over)
        lay['leading'] = lead
    return lay


EPY_VOCAB = ['', '  ', 'text', '  text', '    text', 'text::', '  more::', '- item', '  - item', '  1. num', '@param a: b', '@return:',
             '@note', '  @bad field', '>>> code', '  >>> x', '====', '----', '~~~~', '=======', 'Title', 'Head', '- ::', '@a::', '- it::',
             '    lit', '::', '      deep', ' x',
             # characters str.splitlines() breaks on but that are not line breaks of the source
             'pa\x0cge', '\x0c', 'a\u2028b', 'x\x0by', '  t\x1cu', 'n\x85m', '- it\u2029em']


def oracle_epytok(c: Dict[str, Any], r: Any) -> Optional[Dict[str, Any]]:
    """Token.startline is the index of the first line of the token's block: start lines never decrease, a token other
    than a literal block starts on a non-blank line, the first token starts on the first non-blank line, and -- when no
    literal block swallows lines -- every non-blank line that follows a blank line (or is line 0) starts a token."""
    if isinstance(r, dict):
        return {'what': 'epytext._tokenize raised ' + r['exception'], 'expected': 'tokens', 'observed': r}
    lines = c['text'].split('\n')
    toks = r[1]
    starts = [z for _, z in toks]
    if starts != sorted(starts):
        return {'what': 'token start lines decrease', 'expected': sorted(starts), 'observed': starts}
    for tag, z in toks:
        if tag != 3 and not (0 <= z < len(lines) and lines[z].strip()):
            return {'what': 'a token (tag %d) starts on line %d, which is blank or outside the docstring' % (tag, z),
                    'expected': 'a non-blank line', 'observed': z}
    nonblank = [i for i, l in enumerate(lines) if l.strip()]
    if nonblank and (not starts or starts[0] != nonblank[0]):
        return {'what': 'the first token does not start on the first non-blank line', 'expected': nonblank[0], 'observed': starts[:1]}
    if not any(tag == 3 for tag, _ in toks):
        for i in nonblank:
            if (i == 0 or not lines[i - 1].strip()) and i not in starts:
                return {'what': 'line %d opens a block (it follows a blank line) but no token has that startline' % i,
                        'expected': i, 'observed': starts}
    return None


# =============================================================================== multi-module projects
class _Src:
    def __init__(self, rel: str, fmt: str, planted: List[Dict[str, Any]]):
        self.rel, self.fmt, self.planted, self.lines = rel, fmt, planted, []

    def add(self, *ls: str) -> None:
        self.lines += list(ls)

    def doc(self, code_indent: int, problem: str, place: str, variant: int, name: str, has_param: bool,
            layout: Dict[str, Any], rule: str = 'once') -> None:
        before, blk, first_rel, prob_rel, after, msg = blocks_for(self.fmt, problem, place, variant, name, False, has_param)
        lay = dict(layout, code_indent=code_indent, ci=code_indent)
        flat = place in ('para', 'para2') or (problem in ('field', 'param') and self.fmt in ('epytext', 'restructuredtext')) or problem == 'none'
        if lay.get('opening_text') and not flat and not before:
            before = [['Some plain text.']]      # see make_case: no block with indented continuation lines on the opening line
        value, pidx = docstring_value(lay, before, blk, after)
        n0 = len(self.lines) + 1
        self.lines += ((' ' * code_indent) + '"""' + value + '"""').split('\n')
        if problem != 'none':
            self.planted.append({'file': '@ROOT@/' + self.rel, 'msg': msg, 'problem': problem, 'rule': rule,
                                 'first': n0 + pidx + first_rel, 'prob': n0 + pidx + prob_rel, 'n0': n0, 'end': len(self.lines)})

    def text(self) -> str:
        return '\n'.join(self.lines) + '\n'


def build_project(fmt: str, shape: str, variant: int, layout: Dict[str, Any], k: int) -> Tuple[Dict[str, str], List[Dict[str, Any]]]:
    planted: List[Dict[str, Any]] = []
    pad = [('# moved' if i % 2 == 0 else '') for i in range(k)]
    if shape == 'reexport':
        init = _Src('pkg/__init__.py', fmt, planted)
        init.add('"""', 'The public face of the package.', '"""', 'from ._impl import helper, Thing, second as renamed',
                 'from ._other import untouched', '', '__all__ = ["helper", "Thing", "renamed", "untouched"]')
        impl = _Src('pkg/_impl.py', fmt, planted)
        impl.add(*pad)
        impl.add('"""Implementation module."""', '')
        p1 = ['xref', 'field', 'param'][variant % 3]
        impl.add('def helper(a):')
        impl.doc(4, p1, 'para2' if (p1 == 'xref' and variant % 2) else ('para' if p1 == 'xref' else '-'), variant, 'nosuchA', True, layout)
        impl.add('    return a', '')
        impl.add('def second(a):')
        impl.doc(4, 'xref', 'para', variant + 1, 'nosuchB', True, layout)
        impl.add('    return a', '')
        impl.add('class Thing:')
        impl.doc(4, ['field', 'xref'][variant % 2], '-' if variant % 2 == 0 else 'para', variant + 2, 'nosuchC', False, layout)
        impl.add('    def meth(self, a):')
        impl.doc(8, 'xref', 'para', variant + 3, 'nosuchD', True, layout)
        impl.add('        return a')
        other = _Src('pkg/_other.py', fmt, planted)
        other.add('def untouched():')
        other.doc(4, 'none', '-', variant, 'x', False, LAYOUT_BELOW)
        other.add('    return 1')
        srcs = [init, impl, other]
    elif shape == 'inherit':
        init = _Src('pkg/__init__.py', fmt, planted)
        init.add('"""A package."""')
        base = _Src('pkg/base.py', fmt, planted)
        base.add(*pad)
        base.add('"""Base module."""', '', 'class Base:')
        base.doc(4, 'none', '-', variant, 'x', False, LAYOUT_BELOW)
        base.add('    def meth(self, a):')
        base.doc(8, 'markup', 'para2' if variant % 2 else 'para', variant, 'x', True, layout)
        base.add('        return a', '')
        base.add('    def xr(self, a):')
        base.doc(8, 'xref', 'para', variant + 1, 'nosuchE', True, layout, rule='atleast')
        base.add('        return a', '')
        base.add('    def fine(self):')
        base.doc(8, 'none', '-', variant + 1, 'x', False, LAYOUT_BELOW)
        base.add('        return 1', '')
        base.add(*['# filler'] * (6 + variant % 5))
        base.add('class Sub(Base):', '    """A subclass in the same module."""', '    def meth(self, a):', '        return a + 1',
                 '    def xr(self, a):', '        return a', '    def fine(self):', '        return 2')
        other = _Src('pkg/other.py', fmt, planted)
        other.add('from .base import Base', '', 'class Other(Base):', '    """A subclass in another module."""',
                  '    def meth(self, a):', '        return a * 2', '    def xr(self, a):', '        return a', '',
                  'class Further(Other):', '    """One more level."""', '    def meth(self, a):', '        return a * 3')
        srcs = [init, base, other]
    else:
        raise ValueError(shape)
    return {s_.rel: s_.text() for s_ in srcs}, planted


def field_and_own_docstring_case(fmt: str) -> Dict[str, Any]:
    """Corpus: an attribute documented BOTH by a field of the class docstring and by a docstring of its own; the field body
    holds an unresolvable reference.  The report must name the field's line in the class docstring (known finding: it names
    own-docstring line + field offset)."""
    ep = fmt == 'epytext'
    link, fld = ('L{nosuchF}', '@ivar x: the x, see %s.') if ep else ('`nosuchF`', ':ivar x: the x, see %s.')
    lines = ['"""A module."""', '', 'class D:', '    """', '    A class.', '', '    More text.', '', '    ' + fld % link, '    """',
             '    def __init__(self):', '        self.x = 1', '        """', '        Own docstring of x.', '        """', '',
             'class E:', '    """', '    Another class.', '', '    ' + (fld % ('L{nosuchG}' if ep else '`nosuchG`')).replace(' x:', ' y:'), '    """']
    planted = [{'file': '@ROOT@/pkg/__init__.py', 'msg': 'Cannot find link target for "nosuchF"', 'problem': 'xref', 'rule': 'once',
                'first': 9, 'prob': 9, 'n0': 4, 'end': 10, 'alt_line': 14 + 4},      # own docstring content line + the field's cleaned line
               {'file': '@ROOT@/pkg/__init__.py', 'msg': 'Cannot find link target for "nosuchG"', 'problem': 'xref', 'rule': 'once',
                'first': 21, 'prob': 21, 'n0': 18, 'end': 22}]
    return {'project': True, 'fmt': fmt, 'shape': 'field_and_own_docstring', 'variant': 0, 'layout': LAYOUT_BELOW, 'k': 0, 'quiet': True,
            'projects': [{'pkg/__init__.py': '\n'.join(lines) + '\n'}], 'planted': [planted]}


def make_project_case(fmt: str, shape: str, variant: int, layout: Dict[str, Any], k: int, quiet: bool = True) -> Dict[str, Any]:
    projects, planted = [], []
    for kk in ([0] if k == 0 else [0, k]):
        f, p = build_project(fmt, shape, variant, layout, kk)
        projects.append(f)
        planted.append(p)
    return {'project': True, 'fmt': fmt, 'shape': shape, 'variant': variant, 'layout': layout, 'k': k, 'quiet': quiet,
            'projects': projects, 'planted': planted}


ROOT_LINE = re.compile(r'^(@ROOT@/[^:]*|pkg[\w.]*):(\d+|\?\?\?): (.*)$')


def project_lines(stdout: List[str]) -> List[Tuple[str, str, str]]:
    return [(m.group(1), m.group(2), m.group(3)) for m in (ROOT_LINE.match(l) for l in stdout) if m]


def line_ok(fmt: str, p: Dict[str, Any], ln: int) -> bool:
    if fmt == 'epytext':
        return ln == p['first']
    if fmt == 'restructuredtext':
        return p['first'] <= ln <= p['prob']
    return p['n0'] <= ln <= p['end']


def oracle_project(case: Dict[str, Any], obs: List[Dict[str, Any]]) -> Optional[Dict[str, Any]]:
    """Each planted problem is reported (exactly once; an xref in a docstring that several overrides inherit: at least
    once), naming the file that CONTAINS the docstring at fault and a line inside it by the docformat's rule; nothing
    else is reported; the exit status rule; shifting the definitions by k shifts the reports by k."""
    fmt = case['fmt']
    seen_lines: List[Dict[int, List[int]]] = []
    for o, planted in zip(obs, case['planted']):
        for key in ('status', 'statusW'):
            if not isinstance(o[key], int):
                return {'what': 'the run aborted: %s' % (o[key],), 'expected': 'exit status 0/2/3', 'observed': o[key]}
        pl, plW = project_lines(o['stdout']), project_lines(o['stdoutW'])
        want = 2 if o.get('parse_error_sections') else 0
        if o['status'] != want:
            return {'what': 'without --warnings-as-errors the status must be 2 exactly when something could not be parsed', 'expected': want,
                    'observed': o['status']}
        wantW = 3 if plW else want
        if o['statusW'] != wantW:
            return {'what': 'with --warnings-as-errors the status must be 3 exactly when a problem was reported (%d reported)' % len(plW),
                    'expected': wantW, 'observed': o['statusW']}
        hits: Dict[int, List[int]] = {i: [] for i in range(len(planted))}
        for path, line, msg in pl:
            cands = [i for i, p in enumerate(planted) if p['msg'] in msg]
            good = [i for i in cands if planted[i]['file'] == path and line.isdigit() and line_ok(fmt, planted[i], int(line))]
            if not good:
                near = [planted[i] for i in cands]
                return {'what': 'report %s:%s: %s names a file/line outside the docstring at fault' % (path, line, msg[:80]),
                        'expected': [[p['file'], p['first'], p['prob'], p['n0'], p['end']] for p in near] or 'no such problem is planted',
                        'observed': [path, line]}
            hits[good[0]].append(int(line))
        for i, p in enumerate(planted):
            n = len(hits[i])
            if n == 0:
                continue          # not reported: only the status rule constrains that; correspondence flags the change
            if p['rule'] == 'once' and n != 1:
                return {'what': 'the problem planted at %s:%d (%s) is reported %d times' % (p['file'], p['first'], p['msg'], n),
                        'expected': 1, 'observed': n}
        seen_lines.append(hits)
    if len(seen_lines) == 2:
        for i in seen_lines[0]:
            a, b = sorted(set(seen_lines[0][i])), sorted(set(seen_lines[1][i]))
            moved = case['k'] if case['planted'][1][i]['first'] != case['planted'][0][i]['first'] else 0
            if a and b and [x + moved for x in a] != b:
                return {'what': 'moving the definitions down by %d lines moved a report from %s to %s' % (case['k'], a, b),
                        'expected': [x + moved for x in a], 'observed': b}
    return None


# =============================================================================== the property on one run
PROBLEM_LINE = re.compile(r'^(.*?):(\d+|\?\?\?): (.*)$')


def problem_lines(stdout: List[str]) -> List[Tuple[str, str, str]]:
    out = []
    for l in stdout:
        m = PROBLEM_LINE.match(l)
        if m and m.group(1).endswith('@MOD@'):
            out.append((m.group(1), m.group(2), m.group(3)))
        elif m and (m.group(1).endswith('.py') or m.group(1) in ('mod',) or m.group(1).startswith('mod.')):
            out.append((m.group(1), m.group(2), m.group(3)))
    return out


def oracle(case: Dict[str, Any], obs: List[Dict[str, Any]]) -> Optional[Dict[str, Any]]:
    """C16 stated directly on the stdout lines / exit statuses of the real runs (sources[0] and, if k>0, the
    same module with the definition k lines lower).  Returns None or {what, expected, observed, excess}."""
    planted = case['problem'] != 'none'
    lines_seen = []
    for i, (o, t) in enumerate(zip(obs, case['truth'])):
        for key in ('status', 'statusW'):
            if not isinstance(o[key], int):
                return {'what': 'the run aborted: %s' % (o[key],), 'expected': 'exit status 0/2/3', 'observed': o[key]}
        pl = problem_lines(o['stdout'])
        plW = problem_lines(o['stdoutW'])
        # exit status rule
        parse_failed = bool(o.get('parse_error_sections'))
        want = 2 if parse_failed else 0
        if o['status'] != want:
            return {'what': 'without --warnings-as-errors the status must be 2 exactly when something could not be parsed '
                            '(parse_errors=%s), else 0' % (o.get('parse_error_sections'),), 'expected': want, 'observed': o['status']}
        wantW = 3 if plW else want
        if o['statusW'] != wantW:
            return {'what': 'with --warnings-as-errors the status must be 3 exactly when at least one problem was reported '
                            '(%d reported)' % len(plW), 'expected': wantW, 'observed': o['statusW']}
        if planted and case['problem'] in ('markup', 'consolidated') and not parse_failed and pl:
            return {'what': 'a markup error was reported but the docstring is not recorded as unparsable',
                    'expected': 'parse_errors non-empty', 'observed': o.get('parse_error_sections')}
        if not planted:
            if pl:
                return {'what': 'a problem is reported in a module without problems', 'expected': [], 'observed': pl}
            continue
        mine = [p for p in pl if case['msg'] in p[2]]
        others = [p for p in pl if case['msg'] not in p[2]]
        if case['problem'] == 'consolidated':
            # the field is then shown as-is through a @newfield: two more reports about the same field, same line rule
            also = [p for p in others if p[2] in ("Unknown field 'newfield'", "Unknown field 'parameters'")]
            others = [p for p in others if p not in also]
            for p in also:
                if p[0] != '@MOD@' or p[1] != str(t['first']):
                    return {'what': 'reported line %s of %r is not the first line of the field containing the problem' % (p[1], p[2]),
                            'expected': t['first'], 'observed': int(p[1]) if p[1].isdigit() else p[1], 'also': True,
                            'excess': (int(p[1]) - t['first']) if p[1].isdigit() else None,
                            'first': t['first'], 'prob': t['prob'], 'n0': t['n0'], 'end': t['end']}
        if others:
            return {'what': 'a problem that is not in the module is reported', 'expected': [], 'observed': others}
        if len(mine) != 1:
            # not reported at all: nothing the property constrains beyond the status rule (checked above);
            # the correspondence check flags the change of behaviour
            if not mine:
                continue
            return {'what': 'the planted problem is reported %d times' % len(mine), 'expected': 1, 'observed': mine}
        path, line, _ = mine[0]
        if path != '@MOD@':
            return {'what': 'the report does not name the file that contains the problem', 'expected': '<module path>',
                    'observed': path}
        if line == '???':
            return {'what': 'the report carries no line number', 'expected': t['first'], 'observed': '???'}
        ln = int(line)
        if case['fmt'] == 'epytext':
            ok = ln == t['first'] or (case['place'] == 'atline2' and t['first'] <= ln <= t['prob'])
            exp: Any = t['first']
        elif case['fmt'] == 'restructuredtext':
            # docutils points inside the block: anywhere from its first line to the line holding the problem
            ok = t['first'] <= ln <= t['prob']
            exp = [t['first'], t['prob']]
        else:
            ok = t['n0'] <= ln <= t['end']
            exp = [t['n0'], t['end']]
        if not ok:
            return {'what': 'reported line %d is not %s (docstring literal on lines %d-%d, %s, %s docstring of %s)'
                            % (ln, 'the first line of the block containing the problem' if case['fmt'] in ('epytext', 'restructuredtext')
                               else 'a line of the docstring at fault', t['n0'], t['end'], case['fmt'], case['kind'], case['target']),
                    'expected': exp, 'observed': ln,
                    'excess': ln - t['first'], 'first': t['first'], 'prob': t['prob'], 'n0': t['n0'], 'end': t['end']}
        lines_seen.append(ln)
    if planted and len(lines_seen) == 2 and lines_seen[1] - lines_seen[0] != case['k']:
        return {'what': 'moving the definition down by %d lines moved the reported line by %d' % (case['k'], lines_seen[1] - lines_seen[0]),
                'expected': lines_seen[0] + case['k'], 'observed': lines_seen[1]}
    return None


def oracle_doc(c: Dict[str, Any], r: Any) -> Optional[Dict[str, Any]]:
    """Unit-level statement of "the reported origin is right": line i of the docstring pydoctor stores is the
    line of the literal's value that sits on physical line docstring_lineno + i."""
    if isinstance(r, dict):
        return {'what': 'extract_docstring raised ' + r['exception'], 'expected': 'a (lineno, docstring) pair', 'observed': r}
    if c['is_end']:
        return None
    ln, cleaned = r[0], r[1]
    doc = c['doc']
    if not doc.strip():
        return None
    k = ln - c['lineno']
    got = cleaned.split('\n')
    want = aligned_lines(doc, k) if 0 <= k else None
    if want is None or got != want[:len(got)]:
        return {'what': 'docstring_lineno=%d says the stored docstring starts at line %d of the literal (opening line %d), '
                        'but its first line is not that line' % (ln, k, c['lineno']),
                'expected': want[:len(got)] if want else None, 'observed': got, 'excess': ws_excess(doc)}
    return None


def oracle_msgs(c: Dict[str, Any], r: Any) -> Optional[Dict[str, Any]]:
    """Every problem handed to System.msg (negative threshold) is counted exactly once, unless it is a repetition of a
    once-only message; what is printed does not matter."""
    if isinstance(r, dict):
        return {'what': 'System.msg raised ' + r['exception'], 'expected': 'no exception', 'observed': r}
    seen = set()
    want = 0
    shown = []
    for section, m, thresh, topthresh, once in c['calls']:
        if once:
            if (section, m) in seen:
                continue
            seen.add((section, m))
        if thresh < 0:
            want += 1
        if thresh <= c['verbosity'] <= topthresh:
            shown.append(m)
    if r[0] != want:
        return {'what': 'System.violations is %d after %d problem messages that were not once-only repetitions' % (r[0], want),
                'expected': want, 'observed': r[0]}
    if r[1] != shown:
        return {'what': 'printed messages differ from the calls visible at verbosity %d' % c['verbosity'], 'expected': shown, 'observed': r[1]}
    return None


def oracle_tail(c: Dict[str, Any], r: Any) -> Optional[Dict[str, Any]]:
    """The exit status rule on the real driver.main (system substituted): counting main's own summary of docstring
    errors as reported problems."""
    if isinstance(r, dict):
        return {'what': 'driver.main raised ' + r['exception'], 'expected': 'an exit status', 'observed': r}
    pe = {sec: names for sec, names in c['pe']}
    some = any(bool(v) for v in pe.values())
    reported = c['violations'] + ((1 + len(pe['docstring'])) if pe.get('docstring') else 0)
    want = 3 if (c['wae'] and reported > 0) else (2 if some else 0)
    if r[0] != want:
        return {'what': 'exit status with warnings_as_errors=%s, %d problems counted, parse_errors=%s' % (bool(c['wae']), reported, pe),
                'expected': want, 'observed': r[0]}
    return None


# =============================================================================== the check
class Check(PropertyCheck):
    id = 'C16'
    props_module = 'Props.C16'
    models = {'lines': 'XLines.v', 'epy': 'XEpyLines.v', 'ir': 'XLinesIR.v'}
    needs_gen = True
    gen_modules = ['gen_c16_code']
    rule = ('end-to-end: one module per (docformat x kind of docstring owner x planted problem x place x layout x offset k), '
            'distinct by construction of the generated source; non-trivial = a problem is planted and reported; '
            'unit: every text over {\\n,space,tab,a,\\x0c} up to the tier length, every msg() sequence up to length 2 over 32 calls, '
            'the report()/reportErrors/exit-status grids')
    trusted_base = [
        'Coq 8.16.1 kernel (coqc, vm_compute for witnesses/examples; no native_compute)',
        'no axioms (Print Assumptions: Closed under the global context for every theorem)',
        'extraction: ExtrOcamlBasic only; OCaml 4.13.1; coq/ocaml/driver.ml',
        'harness/c16.py generators + ground truth, harness/impl/c16_unit.py, harness/impl/c16_e2e.py',
        'Spec/CleanDoc.v (inspect.cleandoc, str.isspace/expandtabs/lstrip/split) -- validated against CPython on every run',
        'harness/gen/gen_c16_code.py: fail-closed translator of the CURRENT source of Documentable.report, docutils.get_lineno and '
        'epydoc2stan.reportErrors into the statement language of Model/LinesIR.v (Gen/LinesCode.v); primitives assumed: Python int '
        'arithmetic = Z, str.find/index/in/count/slicing = Lines.find_sub/count_nl/firstn, f-string of int/str, or/and/not/is, '
        'attribute reads of self / docutils nodes, System.msg defaults (pinned); the interpretation is also run against pydoctor',
        'modelled not verified: the line a parser attributes to a paragraph/item/field inside the cleaned docstring '
        '(epytext Token.startline, docutils node.line + get_lineno, napoleon) is observed end-to-end only; '
        'a docstring literal without \\n escapes / line continuations (value line j is physical line n0+j: checked with ast.parse on generated literals)',
    ]
    manifest = {
        'text': ('Theorems over Model/Lines.v, Model/Msg.v and Spec/CleanDoc.v, unbounded in docstring size, offsets and k: '
                 'cleandoc/line-loop alignment under the exact guard (C16_cleandoc_alignment) with the refuted witness for '
                 'whitespace-only lines longer than the margin, shift invariance of every reported line, the base+offset '
                 'arithmetic of parse errors / fields / cross-references, every msg() with negative threshold counted '
                 'exactly once unless suppressed by once, and the exit status rule. Tied to pydoctor by a correspondence '
                 'check (unit level exhaustive small domains + end-to-end generated modules run through driver.main). '
                 'C16_code_report_is_model / C16_code_get_lineno_is_model / C16_code_report_errors_is_model: the bodies of '
                 'Documentable.report, docutils.get_lineno and reportErrors are translated from the current source into a deep-embedded '
                 'language on every run and proved equal to the model for all inputs.'),
        'note': ('Trusted: Coq kernel, extraction + OCaml driver, the Python harness and its ground truth, Spec/CleanDoc.v '
                 '(validated against CPython each run). Parser-internal line attribution is an oracle observed end to end.'),
        'technique': 'Coq proof + model/implementation correspondence + generator with ground truth',
    }
    assumptions = ['CPython >= 3.8: node.lineno of a string constant is the line on which the literal opens',
                   'the docstring literal contains no \\n escape and no backslash-newline continuation',
                   'line bases are non-negative; a definition is moved down (k >= 0)']

    # ---------------------------------------------------------------------------------------------- unit cases
    def unit_cases(self) -> List[Dict[str, Any]]:
        rng = self.rng
        quick = self.tier == 'quick'
        cases: List[Dict[str, Any]] = []
        # (a) every text over a small alphabet
        alpha = ['\n', ' ', '\t', 'a', '\x0c']
        maxlen = 6 if quick else 8
        n = 0
        for L in range(0, maxlen + 1):
            for tup in itertools.product(alpha, repeat=L):
                n += 1
                cases.append({'op': 'doc', 'is_end': 1 if n % 7 == 0 else 0, 'lineno': 1 + (n % 5) * 3, 'doc': ''.join(tup)})
        self.stats['unit_doc_exhaustive_maxlen'] = maxlen
        self.stats['unit_doc_exhaustive'] = n
        # (b) random realistic and hostile docstring values
        spaces = [' ', ' ', ' ', '\t', '\x0b', '\x0c', '\r', '\x1c', '\x85', '\xa0', '\u2003', '\u2028', '\u3000', '\u200b']
        nrand = 1500 if quick else 40000
        for i in range(nrand):
            lines = []
            for _ in range(rng.randint(1, 7)):
                ind = ''.join(rng.choice(spaces if rng.random() < 0.15 else [' ']) for _ in range(rng.choice([0, 0, 2, 4, 4, 6, 8, 9])))
                body = rng.choice(['', '', 'text', 'a\tb', 'x  ', '@param a: b', '\u00e9t\u00e9', '\\n', '- item'])
                lines.append(ind + body)
            cases.append({'op': 'doc', 'is_end': 1 if rng.random() < 0.1 else 0, 'lineno': rng.randint(1, 400), 'doc': '\n'.join(lines)})
        self.stats['unit_doc_random'] = nrand
        cases.append({'op': 'doc', 'is_end': 0, 'lineno': 5, 'doc': '\n      \n  text'})
        cases.append({'op': 'isspace'})
        # (c) real literals: node.lineno is the opening line and value line j is physical line n0 + j
        for i in range(60 if quick else 1500):
            kind = rng.choice(['module'])
            lay = random_layout(rng, 0, None)
            c = make_case(rng.choice(FMTS[:2]), kind, 'xref', 'para', rng.randrange(20), lay, rng.choice([0, 3]))
            cases.append({'op': 'realdoc', 'src': c['sources'][-1], 'n0': c['truth'][-1]['n0'], 'value': c['value']})
        # (d) Documentable.report grid
        sections = ['docstring', 'resolve_identifier_xref', 'parsing', 'signature', 'docstrin', 'docstring ', '']
        for sec, ds, ln, off, im in itertools.product(sections, [0, 1, 7], [0, 3], [0, 2, 11], [0, 1]):
            thresh = rng.choice([-1, -1, 0, 1, -2])
            v = rng.choice([-2, -1, 0, 0, 1, 3])
            cases.append({'op': 'report', 'verbosity': v, 'section': sec, 'ds': ds, 'ln': ln, 'off': off, 'is_module': im,
                          'description': '/p/mod.py', 'descr': 'some problem', 'thresh': thresh})
        for ds, ln, off, im in itertools.product([0, 4], [0, 9], [0, 1, 5], [0, 1]):
            cases.append({'op': 'field', 'verbosity': 0, 'ds': ds, 'ln': ln, 'off': off, 'is_module': im,
                          'description': '/p/mod.py', 'descr': 'Unknown field'})
            cases.append({'op': 'xref', 'verbosity': 0, 'ds': ds, 'ln': ln, 'off': off, 'is_module': im,
                          'description': '/p/mod.py', 'name': 'nosuchname'})
        # (e) System.msg sequences
        callset = [[s, m, t, tt, o] for s in ('a', 'b') for m in ('m', 'n') for t in (-1, 0) for tt in (100, 1) for o in (0, 1)]
        seqs: List[List[Any]] = [[]] + [[c] for c in callset] + [[c, d] for c in callset for d in callset]
        self.stats['unit_msg_exhaustive_len<=2'] = len(seqs)
        for _ in range(600 if quick else 20000):
            seqs.append([rng.choice(callset) for _ in range(rng.randint(3, 7))])
        for i, s in enumerate(seqs):
            cases.append({'op': 'msgs', 'verbosity': [-2, -1, 0, 1, 2][i % 5], 'calls': s})
        # (f) reportErrors
        for sec, ds, ln, im, pre, errs in itertools.product(
                ['docstring', 'signature'], [0, 6], [0, 2], [0, 1], [[], ['other'], ['mod'], ['mod.f', 'z']],
                [[], [['e1', None]], [['e1', 0]], [['e1', 3], ['e2', None], ['e3', 1]], [['e1', -1]]]):
            cases.append({'op': 'reperrs', 'verbosity': rng.choice([-1, 0, 0, 2]), 'section': sec,
                          'obj': ['/p/mod.py', 'mod' if im else 'mod.f', ds, ln, im], 'pre': pre, 'errs': errs})
        # (g) driver.main exit logic
        for dse, oth, viol, wae, v in itertools.product([None, [], ['a'], ['b', 'a']], [None, [], ['x']], [0, 1, 3], [0, 1], [-2, -1, 0, 1, 2]):
            pe = []
            if oth is not None and v % 2 == 0:
                pe.append(['signature', oth])
            if dse is not None:
                pe.append(['docstring', dse])
            if oth is not None and v % 2 != 0:
                pe.append(['annotation', oth])
            cases.append({'op': 'tail', 'verbosity': v, 'wae': wae, 'violations': viol, 'pe': pe})
        for line in [None, 0, 1, 2, 7, 40]:
            cases.append({'op': 'rstreader', 'line': line})
        # (j) get_lineno on hand-built docutils nodes, field lines of the reST splitter, once=True call sites
        for node_line in (None, 0, 4):
            for anc in ([], [['a\nb `x` c', 3]], [['', None], ['p\n\nq `x`', 5]], [['zzz', 2]], [[None, 7]], [['`x` first', 1], ['u\n`x`', 9]]):
                cases.append({'op': 'getlineno', 'node_line': node_line, 'ref_raw': '`x`', 'ancestors': anc})
        cases.append({'op': 'getlineno', 'node_line': None, 'ref_raw': '', 'ancestors': [['a\nb', 3]]})
        for _ in range(150 if quick else 5000):
            ref = rng.choice(['`x`', '`x`', 'ab', '', 'b\n`x`'])
            anc = []
            for _ in range(rng.randint(0, 4)):
                raw = rng.choice([None, '', 'a\nb `x` c', '`x`', 'p\n\nq\n`x` ab', 'zzz', 'ab\n' * rng.randint(0, 3) + ref])
                anc.append([raw, rng.choice([None, None, 0, 1, 2, 7])])
            cases.append({'op': 'getlineno', 'node_line': rng.choice([None, None, None, 0, 5]), 'ref_raw': ref, 'ancestors': anc})
        rdocs = [('Text.\n\n:param a: the a\n:returns: x\n    more\n:note: n', [3, 4, 6]),
                 ('T\n\n:Parameters:\n    - `a`: the a.\n    - `b`: the b\n      more\n', [4, 5]),
                 ('T\n\n:Parameters:\n    a : int\n        the a\n    b\n        bb\n', [4, 4, 6]),
                 (':bogus: first line', [1])]
        for doc, Ls in rdocs:
            for i, L in enumerate(Ls):
                cases.append({'op': 'rstfields', 'doc': doc, 'index': i, 'L': L})
        cases.append({'op': 'oncesites'})
        # (i) epytext tokenizer: token kinds and start lines
        elen = 2 if quick else 3
        for L in range(0, elen + 1):
            for tup in itertools.product(EPY_VOCAB, repeat=L):
                cases.append({'op': 'epytok', 'text': '\n'.join(tup)})
        for _ in range(2500 if quick else 60000):
            cases.append({'op': 'epytok', 'text': '\n'.join(rng.choice(EPY_VOCAB) for _ in range(rng.randint(3, 12)))})
        self.stats['unit_epytok_exhaustive_maxlines'] = elen
        for own, modp in (('/p/pkg/_impl.py', '/p/pkg/__init__.py'), ('/p/a.py', '/p/a.py'), (None, '/p/pkg/__init__.py'), ('/p/x.py', None), (None, None)):
            cases.append({'op': 'descr', 'own_path': own, 'mod_path': modp})
        for n in (0, 1, 3):
            cases.append({'op': 'rstconsol', 'doc': 'Some text.\n\n' * n + ':Parameters: a b c\n', 'node_line': 2 * n + 1})
        # (h) attribute line from a field
        for fmt, fl in (('epytext', '@ivar x: the x'), ('restructuredtext', ':ivar x: the x')):
            for lead in (0, 1, 2):
                src = 'class C:\n    """' + '\n' * lead + ('    ' if lead else '') + 'Doc.\n\n    More.\n\n    %s\n    """\n' % fl
                cases.append({'op': 'attrline', 'fmt': fmt, 'src': src, 'cls': 'mod.C', 'attr': 'x', 'lead': lead})
        return cases

    def model_input(self, c: Dict[str, Any]) -> Optional[str]:
        op = c['op']
        if op == 'doc':
            return enc([0, c['is_end'], c['lineno'], c['doc']])
        if op == 'realdoc':
            return enc([0, 0, c['n0'], c['value']])
        if op == 'isspace':
            return enc([2, 0, 0x110000])
        if op == 'report':
            return enc([3, c['verbosity'], c['section'], c['ds'], c['ln'], c['off'], c['is_module'], c['description'], c['descr'], c['thresh']])
        if op == 'field':
            return enc([3, c['verbosity'], 'docstring', c['ds'], c['ln'], c['off'], c['is_module'], c['description'], c['descr'], -1])
        if op == 'xref':
            return enc([3, c['verbosity'], 'resolve_identifier_xref', c['ds'], c['ln'], c['off'], c['is_module'], c['description'],
                        'Cannot find link target for "%s"' % c['name'], -1])
        if op == 'msgs':
            return enc([4, c['verbosity'], c['calls']])
        if op == 'reperrs':
            errs = [[d, ([] if st is None else [st])] for d, st in c['errs']]
            return enc([5, c['verbosity'], c['section'], c['obj'], c['pre'], errs])
        if op == 'tail':
            n = 0
            for sec, names in c['pe']:
                if sec == 'docstring':
                    n = len(names)
            return enc([6, c['verbosity'], c['wae'], "these %d objects' docstrings contain syntax errors:" % n, c['violations'], c['pe']])
        if op == 'getlineno':
            anc = []
            for raw, line in c['ancestors']:
                if line:
                    nl = raw[:raw.index(c['ref_raw'])].count('\n') if (raw and c['ref_raw'] and c['ref_raw'] in raw) else 0
                    anc = [[line, nl]]
                    break
            return enc([11, c['node_line'] or 0, anc])
        if op == 'rstfields':
            return enc([12, c['L']])
        if op == 'descr':
            return enc([10, [] if c['own_path'] is None else [c['own_path']], 'pkg'])
        if op == 'rstconsol':
            return enc([9, c['node_line']])
        if op == 'rstreader':
            return enc([8, [] if c['line'] is None else [c['line']]])
        return None

    def ir_input(self, c: Dict[str, Any]) -> Optional[str]:
        """the same case for the interpreter of the code translated from the current source (Gen/LinesCode.v)"""
        op = c['op']
        if op == 'report':
            return enc([0, c['verbosity'], c['section'], c['ds'], c['ln'], c['off'], c['is_module'], c['description'], c['descr'], c['thresh']])
        if op == 'getlineno':
            chain = [[c['node_line'] or 0, c['ref_raw'] or '']] + [[line or 0, raw or ''] for raw, line in c['ancestors']]
            return enc([1, chain])
        if op == 'reperrs':
            errs = [[d, ([] if st is None else [st])] for d, st in c['errs']]
            return enc([2, c['verbosity'], c['section'], c['obj'], c['pre'], errs])
        return None

    def compare_unit(self, c: Dict[str, Any], r: Any, m: Any) -> Optional[Tuple[Any, Any]]:
        """-> (model canonical, impl canonical) when they differ."""
        op = c['op']
        if isinstance(r, dict):
            return ('no exception', r)
        if op == 'doc':
            mm, ii = [m[0], txt(m[1])], [r[0], r[1]]
        elif op == 'realdoc':
            mm, ii = [c['n0'], m[0], txt(m[1]), c['value']], r
        elif op in ('report', 'field', 'xref', 'msgs'):
            mm, ii = [m[0], [txt(x) for x in m[1]]], r
        elif op == 'reperrs':
            mm, ii = [m[0], [txt(x) for x in m[1]], sorted(txt(x) for x in m[2])], r[:3]
        elif op == 'tail':
            mm, ii = m, r
        elif op == 'getlineno':
            mm, ii = m, r
        elif op == 'rstfields':
            mm, ii = m, (r[c['index']][2] if c['index'] < len(r) else None)
        elif op == 'oncesites':
            secs = [x[1] for x in r]
            ok = r and all(isinstance(x[1], str) and x[1] != '<not a literal>' and isinstance(x[2], int) for x in r) and len(set(secs)) == len(secs)
            mm, ii = ('every once=True call site of System.msg has its own literal section and a literal threshold '
                      '(guard of C16_once_suppressed_already_counted / once_consistent)', True), (r, bool(ok))
            if ok:
                return None
            return (mm, ii)
        elif op == 'epytok':
            mm, ii = [m[0], m[1], m[2]], [1, r[1], r[2]]
        elif op == 'descr':
            mm, ii = txt(m), r
        elif op in ('rstreader', 'rstconsol'):
            mm, ii = [m[0][0] if m[0] else None, m[1]], r
        elif op == 'attrline':
            ds = 2 + c['lead']                       # the literal opens on line 2, `lead` blank lines are skipped
            mm, ii = [ds, ds + 4, ds + 4], r         # docstring_lineno + field.lineno (the field is cleaned line 4)
        else:
            return None
        return None if mm == ii else (mm, ii)

    def run_unit(self, out: List[Violation]) -> None:
        cases = self.unit_cases()
        impl = lib.run_impl_worker('c16_unit.py', cases, jobs=16, timeout=3000)
        idx = [i for i, c in enumerate(cases) if self.model_input(c) is not None]
        mouts = self.model('lines', [self.model_input(cases[i]) for i in idx])
        mod: Dict[int, Any] = {i: dec(o) for i, o in zip(idx, mouts)}
        self.evaluations += len(cases)
        iidx = [i for i, c in enumerate(cases) if self.ir_input(c) is not None]
        irouts = self.model('ir', [self.ir_input(cases[i]) for i in iidx])
        nir = 0
        for i, o in zip(iidx, irouts):
            self.count('unit_ir_leg')
            mo = dec(o)
            d = ('the interpreter is stuck on the translated code (a value of the wrong kind, a raising primitive or no fuel)', impl[i]) \
                if mo == [-998] else self.compare_unit(cases[i], impl[i], mo)
            if d is not None:
                nir += 1
                if nir <= 10:
                    out.append(Violation('correspondence', 'the interpretation of the code translated from the source (Gen/LinesCode.v) '
                                         'and pydoctor disagree (unit op %s): the translator or the statement language misrepresents '
                                         'the source' % cases[i]['op'], case=cases[i], expected=d[0], observed=d[1]))
        eidx = [i for i, c in enumerate(cases) if c['op'] == 'epytok' and not isinstance(impl[i], dict)]
        emouts = self.model('epy', [enc(impl[i][0]) for i in eidx])
        for i, o in zip(eidx, emouts):
            mod[i] = dec(o)
        ncorr = 0
        noracle = 0
        for i, (c, r) in enumerate(zip(cases, impl)):
            self.count('unit_' + c['op'])
            m = mod.get(i)
            if c['op'] == 'isspace':
                if m != r:
                    raise RuntimeError('spec validation failed: Spec.CleanDoc.isspace differs from str.isspace: %s' %
                                       sorted(set(m) ^ set(r))[:10])
                continue
            if c['op'] == 'doc' and not isinstance(r, dict):
                # spec validation: Spec.CleanDoc against CPython
                if txt(m[1]) != r[2]:
                    raise RuntimeError('spec validation failed: Spec.CleanDoc.cleandoc(%r) = %r, inspect.cleandoc = %r'
                                       % (c['doc'], txt(m[1]), r[2]))
                fit = bool(m[2])
                if bool(m[3]) != bool(c['doc'].strip()):
                    raise RuntimeError('spec validation failed: has_content(%r)' % c['doc'])
                if c['doc'].strip() and fit != (ws_excess(c['doc']) == 0):
                    raise RuntimeError('harness self-check failed: ws_excess disagrees with Spec.CleanDoc.leading_ws_fit on %r' % c['doc'])
                if c['doc'].strip() and m[4] != ws_excess(c['doc']):
                    raise RuntimeError('harness self-check failed: ws_excess(%r)=%d, Coq top_dropped-top_kept=%d'
                                       % (c['doc'], ws_excess(c['doc']), m[4]))
                self.count('unit_doc_fit' if fit else 'unit_doc_overlong_ws_line')
            d = self.compare_unit(c, r, m)
            if d is not None:
                ncorr += 1
                if ncorr <= 20:
                    out.append(Violation('correspondence', 'model and pydoctor disagree (unit op %s)' % c['op'], case=c,
                                         expected=d[0], observed=d[1]))
            if c['op'] == 'doc':
                o = oracle_doc(c, r)
                if o is not None:
                    self.count('unit_doc_oracle_failures')
                    out.append(Violation('oracle', o['what'], case=dict(c, excess=o.get('excess', 0)), expected=o['expected'],
                                         observed=o['observed']))
            elif c['op'] in ('msgs', 'tail', 'epytok'):
                o = {'msgs': oracle_msgs, 'tail': oracle_tail, 'epytok': oracle_epytok}[c['op']](c, r)
                if o is not None and noracle < 20:
                    noracle += 1
                    out.append(Violation('oracle', o['what'], case=c, expected=o['expected'], observed=o['observed']))
        for c in cases[4000:4002]:
            self.sample(c)

    # ---------------------------------------------------------------------------------------------- e2e cases
    def e2e_cases(self, n_random: int, rng: random.Random, grid: bool = True) -> List[Dict[str, Any]]:
        cases: List[Dict[str, Any]] = []
        if grid:
            v = 0
            # corpus: characters splitlines() breaks on, before the problem (epytext must not be moved by them)
            for ch in ('\x0c', '\x0b', '\u2028', '\x85', '\x1c'):
                for problem, place in (('xref', 'para'), ('field', '-'), ('markup', 'para')):
                    v += 1
                    cases.append(make_case('epytext', ['function', 'class', 'module'][v % 3], problem, place, 5 * v + 1,
                                           dict(LAYOUT_BELOW, inject=ch), k=v % 3))
            # the same for reST: docutils itself splits on the Unicode/FS-GS-RS separators (known finding), not on \f \v
            for ch in ('\x0c', '\u2028'):
                cases.append(make_case('restructuredtext', 'function', 'xref', 'para', 6, dict(LAYOUT_BELOW, inject=ch), k=1))
            # corpus: a reST docstring that opens with a section title; the reference sits in the summary paragraph
            for kind in ('function', 'class', 'method'):
                for lay in (LAYOUT_BELOW, LAYOUT_OPEN):
                    v += 1
                    cases.append(make_case('restructuredtext', kind, 'xref', 'titled', v, lay, k=v % 2))
            for fmt in FMTS:
                for kind in KINDS:
                    for problem in problems_for(kind, fmt):
                        for place in places_for(fmt, problem):
                            for lay in (LAYOUT_BELOW, LAYOUT_OPEN):
                                v += 1
                                cases.append(make_case(fmt, kind, problem, place, v, lay, k=(v % 4), quiet=True))
            # clean controls
            for fmt in FMTS:
                for kind in KINDS:
                    v += 1
                    cases.append(make_case(fmt, kind, 'none', '-', v, LAYOUT_BELOW, k=0))
            # a section header on the opening line is not a section (cleandoc): nothing may be reported
            cases.append(header_on_opening_line_case('google'))   # (numpy bodies are not indented under the header: still a section)
            # the known layout, every format
            for fmt in FMTS:
                lay = dict(LAYOUT_BELOW, leading=['      '], ci_delta=-2)
                cases.append(make_case(fmt, 'function', 'xref', 'para', 3, lay, k=2))
            self.stats['e2e_grid'] = len(cases)
        for i in range(n_random):
            fmt = rng.choice(FMTS)
            kind = rng.choice(KINDS)
            problem = rng.choice(problems_for(kind, fmt) * 6 + ['none'])
            place = rng.choice(places_for(fmt, problem)) if problem != 'none' else '-'
            code_indent = {'module': 0, 'class': 4, 'function': 4, 'method': 8, 'attribute': 0, 'classattribute': 4}[kind]
            r = rng.random()
            lay = random_layout(rng, code_indent, True if r < 0.12 else (False if r < 0.8 else None))
            prelude = rng.choice([[], [], ['import os', ''], ['def g(b):', '    """Clean."""', '    return b', ''], ['Z = 3', '"""Clean attribute docstring."""', '']])
            cases.append(make_case(fmt, kind, problem, place, rng.randrange(1000), lay, k=rng.choice([0, 1, 2, 5, 17]),
                                   quiet=rng.random() < 0.8, moddoc=rng.random() < 0.7, prelude=prelude))
        return cases

    def e2e_model_input(self, case: Dict[str, Any], idx: int, o: Dict[str, Any], wae: bool) -> Optional[str]:
        t = case['truth'][idx]
        rep = [r for r in o.get('reports', []) if r[0] == case['target']]
        probs = []
        for fullname, section, off, descr, thresh in [r[:5] for r in rep]:
            if section == 'docstring' and descr.startswith('bad docstring: '):
                probs.append([0, descr[len('bad docstring: '):], [off]])
            elif section == 'docstring':
                probs.append([1, descr, off])
            elif section == 'resolve_identifier_xref':
                probs.append([2, descr, off])
            else:
                return None
        return enc([7, -1 if case['quiet'] else 0, wae, HEADER1, '@MOD@', case['target'], case['kind'] == 'module',
                    t['def_line'], 1, t['n0'], case['value'], probs])

    def run_e2e(self, cases: List[Dict[str, Any]], out: List[Violation], record: bool = True) -> None:
        pcases = [c for c in cases if c.get('project')]
        cases = [c for c in cases if not c.get('project')]
        payload = [{'projects': c['projects'], 'fmt': c['fmt'], 'quiet': c['quiet']} for c in pcases] + \
                  [{'sources': c['sources'], 'fmt': c['fmt'], 'target': c['target'], 'quiet': c['quiet']} for c in cases]
        impl_all = lib.run_impl_worker('c16_e2e.py', payload, jobs=16, timeout=3000)
        self.run_projects(pcases, impl_all[:len(pcases)], out, record)
        impl = impl_all[len(pcases):]
        minputs: List[str] = []
        where: List[Tuple[int, int, bool]] = []
        for ci, (c, obs) in enumerate(zip(cases, impl)):
            for si, o in enumerate(obs):
                for wae in (False, True):
                    mi = self.e2e_model_input(c, si, o, wae) if isinstance(o.get('status'), int) else None
                    if mi is not None:
                        minputs.append(mi)
                        where.append((ci, si, wae))
        mouts = self.model('lines', minputs)
        by: Dict[Tuple[int, int, bool], Any] = {w: dec(m) for w, m in zip(where, mouts)}
        ncorr = 0
        for ci, (c, obs) in enumerate(zip(cases, impl)):
            if record:
                self.evaluations += len(obs)
                self.count('e2e_modules', len(obs))
                self.count('e2e_fmt_' + c['fmt'])
                self.count('e2e_kind_' + c['kind'])
                self.count('e2e_problem_' + c['problem'] + ('' if c['place'] == '-' else '_' + c['place']))
                lay = c['layout']
                self.count('e2e_layout_opening_text' if lay['opening_text'] else 'e2e_layout_leading_%d' % len(lay.get('leading', [])))
                if lay.get('raw'):
                    self.count('e2e_layout_raw')
                self.count('e2e_k_%d' % c['k'])
                if ws_excess(c['value']):
                    self.count('e2e_layout_overlong_ws_line')
            bad: Optional[Tuple[str, Any, Any]] = None
            reported = 0
            for si, o in enumerate(obs):
                t = c['truth'][si]
                if not isinstance(o.get('status'), int):
                    bad = ('the run aborted', 'exit status', [o.get('status'), o.get('statusW')])
                    break
                pl = problem_lines(o['stdout'])
                reported += len([p for p in pl if c['msg'] and c['msg'] in p[2]])
                if c['fmt'] != 'epytext' and any(o.get('xref_own_line', [])):
                    bad = ('a reference parsed by docutils carries its own line (guard of C16_get_lineno_rst)', False, True)
                    break
                if o.get('ln') != t['def_line']:
                    bad = ('linenumber of %s' % c['target'], t['def_line'], o.get('ln'))
                    break
                if o.get('desc') != '@MOD@':
                    bad = ('description of %s is not the path of its file' % c['target'], '@MOD@', o.get('desc'))
                    break
                if c['problem'] != 'none' and not [p for p in pl if c['msg'] in p[2]]:
                    bad = ('the planted problem is no longer reported', c['msg'], o['stdout'])
                    break
                for wae in (False, True):
                    m = by.get((ci, si, wae))
                    if m is None:
                        bad = ('a report in a section the model does not know', None, o.get('reports'))
                        break
                    mm = {'ds': m[0], 'doc': txt(m[1]), 'status': m[2],
                          'stdout': '\n'.join(txt(x) for x in m[4]).split('\n') if m[4] else []}
                    so = o['stdoutW'] if wae else o['stdout']
                    if c['quiet']:
                        so_c = so
                    else:
                        so_c = [l for l in so if l.startswith('@MOD@:') or l.startswith("these ") or l.startswith('    mod')]
                        mm['stdout'] = [l for l in mm['stdout'] if l.startswith('@MOD@:') or l.startswith("these ") or l.startswith('    mod')]
                    ii = {'ds': o.get('ds'), 'doc': o.get('doc'), 'status': o['statusW'] if wae else o['status'], 'stdout': so_c}
                    viol_model = m[3]
                    if mm != ii:
                        bad = ('model and pydoctor disagree on a run (source %d, -W=%s)' % (si, wae), mm, ii)
                        break
                    if viol_model != o.get('final_violations') and not wae:
                        bad = ('System.violations', viol_model, o.get('final_violations'))
                        break
                if bad:
                    break
            if bad is not None:
                ncorr += 1
                if ncorr <= 20:
                    out.append(Violation('correspondence', 'e2e: ' + bad[0], case=c, expected=bad[1], observed=bad[2]))
            orc = oracle(c, obs)
            if orc is not None:
                cc = dict(c, **{k2: orc[k2] for k2 in ('excess', 'first', 'prob', 'n0', 'end', 'also') if k2 in orc})
                out.append(Violation('oracle', orc['what'], case=cc, expected=orc['expected'], observed=orc['observed']))
                if record:
                    self.count('e2e_oracle_failures')
            if record and c['problem'] != 'none' and reported:
                self.nontrivial.add(c['sources'][0])
        if record:
            for c in cases[5:7] + cases[-2:]:
                self.sample({k: c[k] for k in ('fmt', 'kind', 'problem', 'place', 'layout', 'k', 'truth')} | {'source': c['sources'][-1]})

    def project_cases(self, rng: random.Random, n_random: int) -> List[Dict[str, Any]]:
        cases = []
        v = 0
        for fmt in FMTS:
            for shape in ('reexport', 'inherit'):
                for lay in (LAYOUT_BELOW, LAYOUT_OPEN):
                    v += 1
                    cases.append(make_project_case(fmt, shape, v, lay, k=(0 if v % 2 else 3)))
        cases.append(field_and_own_docstring_case('epytext'))
        cases.append(field_and_own_docstring_case('restructuredtext'))
        for _ in range(n_random):
            cases.append(make_project_case(rng.choice(FMTS), rng.choice(['reexport', 'inherit']), rng.randrange(1000),
                                           rng.choice([LAYOUT_BELOW, LAYOUT_OPEN]), k=rng.choice([0, 1, 4, 9]), quiet=rng.random() < 0.8))
        return cases

    def run_projects(self, cases: List[Dict[str, Any]], impl: List[Any], out: List[Violation], record: bool = True) -> None:
        minputs: List[str] = []
        where: List[Tuple[int, int, int]] = []
        for ci, (c, obs) in enumerate(zip(cases, impl)):
            for si, o in enumerate(obs):
                for ri, r in enumerate(o.get('reports', [])):
                    desc = r[5] if r[5] is not None else r[9]
                    minputs.append(enc([3, -1 if c['quiet'] else 0, r[1], r[6], r[7], r[2], r[8], desc, r[3], r[4]]))
                    where.append((ci, si, ri))
        mouts = self.model('lines', minputs)
        pred: Dict[Tuple[int, int], List[str]] = {}
        for w, m in zip(where, mouts):
            d = dec(m)
            for x in d[1]:
                pred.setdefault((w[0], w[1]), []).append(txt(x).split('\n')[0])
        ncorr = 0
        for ci, (c, obs) in enumerate(zip(cases, impl)):
            if record:
                self.evaluations += len(obs)
                self.count('project_runs', len(obs))
                self.count('project_' + c['shape'] + '_' + c['fmt'])
            bad = None
            for si, o in enumerate(obs):
                if not isinstance(o.get('status'), int):
                    bad = ('the run aborted', 'exit status', o.get('status'))
                    break
                got = ['%s:%s: %s' % p for p in project_lines(o['stdout'])]
                want = pred.get((ci, si), [])
                if sorted(got) != sorted(want):
                    bad = ('project: the reports on stdout are not what Documentable.report is modelled to print '
                           '(own source path, docstring line + offset)', sorted(want), sorted(got))
                    break
                for p in c['planted'][si]:
                    if not [g for g in got if p['msg'] in g]:
                        bad = ('project: the planted problem is no longer reported', p['msg'], got)
                        break
                if bad:
                    break
            if bad is not None:
                ncorr += 1
                if ncorr <= 10:
                    out.append(Violation('correspondence', bad[0], case=c, expected=bad[1], observed=bad[2]))
            orc = oracle_project(c, obs)
            if orc is not None:
                out.append(Violation('oracle', orc['what'], case=c, expected=orc['expected'], observed=orc['observed']))
                if record:
                    self.count('project_oracle_failures')
            elif record:
                self.nontrivial.add(json.dumps(c['projects'][0], sort_keys=True))
        if record and cases:
            self.sample({k2: cases[0][k2] for k2 in ('fmt', 'shape', 'k', 'planted')} | {'files': cases[0]['projects'][-1]})

    # ---------------------------------------------------------------------------------------------- driver hooks
    def correspondence(self) -> List[Violation]:
        out: List[Violation] = []
        self.run_unit(out)
        nrand = 120 if self.tier == "quick" else 6000
        nproj = 10 if self.tier == 'quick' else 600
        cases = self.project_cases(self.rng, nproj) + self.e2e_cases(nrand, self.rng)
        self.stats['e2e_random'] = nrand
        self.stats['project_random'] = nproj
        self.run_e2e(cases, out)
        self.exhaustive = True
        self.notes.append('exhaustive: unit domains named in `rule`; the e2e grid covers every docformat x owner kind x problem x place '
                          'x {text below, text on the opening line}; layouts/offsets beyond that are sampled')
        self.notes.append('reST: docutils/get_lineno point at the line holding the problem inside a multi-line block; the oracle accepts '
                          'any line from the first line of the block to the line of the problem')
        # prefer a generated module as the concrete failing input: when an end-to-end run already fails the property
        # (and is not a known finding), the unit-level msg()/exit-status oracle failures only repeat it
        known, _ = lib.load_known_findings(self.id)
        e2e_fail = [v for v in out if v.kind == 'oracle' and isinstance(v.case, dict) and ('sources' in v.case or 'projects' in v.case)
                    and self.classify_known(v, known) is None]
        if e2e_fail:
            out = [v for v in out if not (v.kind == 'oracle' and isinstance(v.case, dict) and v.case.get('op') in ('msgs', 'tail'))]
        return out

    def search(self, broken: List[Violation]) -> List[Violation]:
        out: List[Violation] = []
        rng = random.Random(self.seed + 1)
        cases = self.project_cases(rng, 40) + self.e2e_cases(400 if self.tier == 'quick' else 3000, rng, grid=False)
        self.run_e2e(cases, out, record=False)
        known, _ = lib.load_known_findings(self.id)
        return [v for v in out if v.kind == 'oracle' and self.classify_known(v, known) is None]

    def classify_known(self, v: Violation, known: List[dict]) -> Optional[dict]:
        """The one known class: the docstring has a leading whitespace-only line that is longer than the margin
        cleandoc computes; the reported line / docstring origin is then too large by exactly ws_excess(value)."""
        c = v.case
        if not isinstance(c, dict):
            return None
        if v.kind == 'oracle' and c.get('shape') == 'field_and_own_docstring' and isinstance(v.observed, list) and len(v.observed) == 2:
            for p in c['planted'][0]:
                if 'alt_line' in p and v.observed == [p['file'], str(p['alt_line'])] and p['msg'][:30] in v.what:
                    for k in known:
                        if k.get('match', {}).get('condition') == 'field_and_own_docstring':
                            return k
            return None
        if v.kind == 'oracle' and 'value' in c and 'sources' in c and 'reported line' in v.what:
            # subtract what the two known defects add; what remains must satisfy the property
            ws = ws_excess(c['value'])
            rst = 1 if (c['problem'] == 'consolidated' and not c.get('also')) else 0
            sep = separators_before(c) if c['fmt'] != 'epytext' else 0
            if ws + rst + sep > 0 and isinstance(v.observed, int) and isinstance(c.get('first'), int):
                adj = v.observed - ws - rst - sep
                if c['fmt'] == 'epytext':
                    ok = adj == c['first'] or (c['place'] == 'atline2' and c['first'] <= adj <= c['prob'])
                elif c['fmt'] == 'restructuredtext':
                    ok = c['first'] <= adj <= c['prob']
                else:
                    ok = c['n0'] <= adj <= c['end']
                if ok:
                    want = ('rst_consolidated_field_line_is_one_based' if rst else
                            'rst_unicode_line_separators' if sep else 'leading_ws_line_longer_than_margin')
                    for k in known:
                        if k.get('match', {}).get('condition') == want:
                            return k
            return None
        for k in known:
            m = k.get('match', {})
            if m.get('condition') != 'leading_ws_line_longer_than_margin':
                continue
            if v.kind == 'oracle' and c.get('op') == 'doc':
                ex = ws_excess(c['doc'])
                if ex > 0 and isinstance(v.observed, list):
                    # the stored docstring starts exactly ex lines before the line docstring_lineno names
                    lines = c['doc'].expandtabs().split('\n')
                    kk = next(i for i, l in enumerate(lines) if l.strip())
                    al = aligned_lines(c['doc'], kk - ex)
                    if al is not None and v.observed == al[:len(v.observed)]:
                        return k
            elif v.kind == 'oracle' and 'value' in c and 'sources' in c:
                pass
        return None

    def replay(self, data: Any) -> int:
        case = data['input']
        if isinstance(case, dict) and case.get('op'):
            r = lib.run_impl_worker('c16_unit.py', [case])[0]
            print('case     :', json.dumps(case)[:1500])
            print('pydoctor :', json.dumps(r)[:1500])
            if data.get('expected') is not None:
                print('recorded expectation:', json.dumps(data['expected'])[:800])
            if case['op'] in ('doc', 'msgs', 'tail', 'epytok'):
                o = {'doc': oracle_doc, 'msgs': oracle_msgs, 'tail': oracle_tail, 'epytok': oracle_epytok}[case['op']](case, r)
                print('property :', (o['what'] + ' expected=%s observed=%s' % (str(o['expected'])[:300], str(o['observed'])[:300])) if o
                      else 'holds on this input')
                return 1 if o else 0
            b, _ = lib.build_model(self.id + '_lines', 'XLines.v')
            mi = self.model_input(case)
            if b is not None and mi is not None:
                m = dec(lib.run_model(b, [mi])[0])
                d = self.compare_unit(case, r, m)
                print('model    :', d[0] if d else 'agrees')
                return 1 if d else 0
            return 0
        if isinstance(case, dict) and case.get('project'):
            obs = lib.run_impl_worker('c16_e2e.py', [{'projects': case['projects'], 'fmt': case['fmt'], 'quiet': case['quiet']}])[0]
            for si, (files, o, planted) in enumerate(zip(case['projects'], obs, case['planted'])):
                print('--- project (k=%d), docformat %s, shape %s' % (0 if si == 0 else case['k'], case['fmt'], case['shape']))
                for rel, src in files.items():
                    print('  ----', rel)
                    for i, l in enumerate(src.split('\n')[:-1], 1):
                        print('  %4d| %s' % (i, l))
                for p in planted:
                    print('planted : %s in %s -- block starts on line %d, problem on line %d, docstring literal lines %d-%d (%s)'
                          % (p['problem'], p['file'], p['first'], p['prob'], p['n0'], p['end'], p['msg']))
                print('stdout  :', ['%s:%s: %s' % p for p in project_lines(o['stdout'])])
                print('status  : %s ; with --warnings-as-errors: %s' % (o['status'], o['statusW']))
            orc = oracle_project(case, obs)
            print('property:', (orc['what'] + ' expected=%s observed=%s' % (orc['expected'], orc['observed'])) if orc else 'holds on this input')
            return 1 if orc else 0
        obs = lib.run_impl_worker('c16_e2e.py', [{'sources': case['sources'], 'fmt': case['fmt'], 'target': case['target'],
                                                  'quiet': case['quiet']}])[0]
        for si, (src, o, t) in enumerate(zip(case['sources'], obs, case['truth'])):
            print('--- module (k=%d), docformat %s' % (0 if si == 0 else case['k'], case['fmt']))
            for i, l in enumerate(src.split('\n')[:-1], 1):
                print('%4d| %s' % (i, l))
            print('planted : %s (%s) -- block starts on line %s, problem on line %s, docstring literal lines %d-%d'
                  % (case['problem'], case['place'], t['first'], t['prob'], t['n0'], t['end']))
            print('stdout  :', [l for l in o['stdout'] if l.startswith('@MOD@') or l.startswith('these')])
            print('status  : %s ; with --warnings-as-errors: %s' % (o['status'], o['statusW']))
        orc = oracle(case, obs)
        print('property:', (orc['what'] + ' expected=%s observed=%s' % (orc['expected'], orc['observed'])) if orc else 'holds on this input')
        return 1 if orc else 0
