"""C14 -- a displayed signature is the signature that was written."""
from __future__ import annotations
import ast, copy, inspect, itertools, json, os, sys
from typing import Any, Dict, List, Optional, Tuple
import lib
from lib import PropertyCheck, Violation, enc, dec

sys.path.insert(0, os.path.join(os.path.dirname(os.path.abspath(__file__)), 'impl'))
import c14_common as cc  # noqa: E402  (standard library only; shared with the worker)

PO, POK, VAR, KW, VKW = 0, 1, 2, 3, 4

# ------------------------------------------------------------------ rendering a parameter list as source
def render_param(p: List[Any]) -> str:
    name, kind, d, a = p
    s = {VAR: '*', VKW: '**'}.get(kind, '') + name
    if a is not None:
        s += ': ' + a
    if d is not None:
        s += (' = ' if a is not None else '=') + d
    return s


def render_params(params: List[List[Any]]) -> str:
    out = []
    n = len(params)
    for i, p in enumerate(params):
        if p[1] == KW and not any(q[1] in (VAR, KW) for q in params[:i]):
            out.append('*')
        out.append(render_param(p))
        if p[1] == PO and (i + 1 == n or params[i + 1][1] != PO):
            out.append('/')
    return ', '.join(out)


def render_def(name: str, params: List[List[Any]], ret: Optional[str], is_async: bool = False,
               decos: Tuple[str, ...] = (), indent: str = '', body: str = 'pass') -> str:
    s = ''.join('%s@%s\n' % (indent, d) for d in decos)
    s += '%s%sdef %s(%s)%s: %s\n' % (indent, 'async ' if is_async else '', name, render_params(params),
                                      '' if ret is None else ' -> ' + ret, body)
    return s


HEADER = 'import typing\nfrom typing import overload, Literal, List, Dict, Optional, Callable, Any, Tuple\n'


def overload_decos(decos: Tuple[str, ...], extra: Tuple[str, ...], pos: str, spell: str = 'overload') -> Tuple[str, ...]:
    """Decorator lines of an @overload definition. pos: where @overload stands -- 'top' (the order the typing docs
    prescribe: above @staticmethod/@classmethod and anything else), 'mid', or 'bottom' (innermost)."""
    rest = extra + decos
    if pos == 'top' or not rest:
        return (spell,) + rest
    if pos == 'mid':
        return rest[:1] + (spell,) + rest[1:]
    return rest + (spell,)


def make_case(params: List[List[Any]], ret: Optional[str], ctx: str = 'func', overloads: List[Any] = (),
              stream: str = 'gen', ov_pos: str = 'bottom', extra: Tuple[str, ...] = (), spell: str = 'overload'
              ) -> Dict[str, Any]:
    """ctx: func | async | method | amethod | static | classm | stub (overloads only, no implementation)
    extra: further decorators on every definition; ov_pos/spell: see overload_decos"""
    in_class = ctx in ('method', 'amethod', 'static', 'classm')
    ind = '    ' if in_class else ''
    src = HEADER
    if in_class:
        src += 'class C:\n'
    is_async = ctx in ('async', 'amethod')
    decos: Tuple[str, ...] = {'static': ('staticmethod',), 'classm': ('classmethod',)}.get(ctx, ())
    for ovp, ovr in overloads:
        src += render_def('f', ovp, ovr, is_async, overload_decos(decos, extra, ov_pos, spell), ind, '...')
    if ctx != 'stub':
        src += render_def('f', params, ret, is_async, extra + decos, ind)
    return {'t': 'def', 'src': src, 'q': 'C.f' if in_class else 'f', 'stream': stream,
            'layout': {'params': params, 'ret': ret}}


# ------------------------------------------------------------------ the exhaustive domain
DEF_AT = ['10', "'s1'", 'x2.y', '[3]', '-4']
ANN_AT = ['int', '"str"', 'List[A2]', "'D3'", 'a4.B']
RETS = [None, 'None', 'int', '"R"']
NAMES = ['a', 'b', 'c', 'd', 'e']


def layouts(maxn: int) -> List[List[List[Any]]]:
    """Every valid parameter layout of 0..maxn parameters: kinds in grammar order, at most one *args and one
    **kwargs, default present/absent (never on *args/**kwargs, no positional non-default after a default),
    annotation present/absent."""
    out: List[List[List[Any]]] = []

    def go(i: int, acc: List[List[Any]], minkind: int, seen_default: bool) -> None:
        out.append([list(p) for p in acc])
        if i == maxn:
            return
        for k in range(minkind, 5):
            if k in (VAR, VKW) and any(p[1] == k for p in acc):
                continue
            if k in (VAR, KW) and any(p[1] == VKW for p in acc):
                continue
            for has_d in ((False,) if k in (VAR, VKW) else (False, True)):
                if k in (PO, POK) and seen_default and not has_d:
                    continue
                for has_a in (False, True):
                    p = [NAMES[i], k, DEF_AT[i] if has_d else None, ANN_AT[i] if has_a else None]
                    go(i + 1, acc + [p], k, seen_default or (has_d and k in (PO, POK)))
    go(0, [], 0, False)
    return out


# ------------------------------------------------------------------ the random domain
DEFAULTS = ['1', '-1', '0', 'None', 'True', 'False', "'s'", '"it\'s"', "b'x'", '1.5', 'x', 'x.y.z', 'f()', 'f(1, k=2)',
            '[1, 2]', '(1, 2)', '()', '{}', "{'a': 1}", 'x[0]', '...', 'lambda: 0', 'a if b else c', 'not x',
            '1 + 2', 'x or y', "''", "'<b>&amp;</b>'", 'x < y', '[]', 'set()', '1e10', '0x10', "'a' 'b'", '2 ** 8',
            'typing.Any', '(1,)', 'lambda x, *y: (x, y)', "'#'", '-x.y', 'f(*a, **k)', 'x[1:2]', '{1, 2}']
ANNOTS = ['int', 'str', 'List[int]', 'Dict[str, int]', 'Optional["Foo"]', '"int"', '"List[int]"', '\'List["int"]\'',
          'Literal["a", "b"]', "typing.Literal['x']", 'int | None', '"int | None"', 'Callable[[int], str]',
          'Callable[..., Any]', 'None', '"None"', 'x.y', 'Tuple[int, ...]', 'tuple[()]', 'Literal["int"]',
          'List[Literal["q"]]', '"Literal[\'z\']"', 'Dict["K", "V"]', 'object', '"a.b.C"', 'List["List[\'T\']"]',
          'Optional[Callable[["A"], "B"]]', 'Literal[1, "x", None]']
BAD_ANNOTS = ['"1 +"', '"a b"', '""', '"x; y"', '" int"', '"x = 1"', 'List["1 +"]', '"List[\'(\']"', 'Dict[str, "for"]']
RET_ANNOTS = [None, None, 'None', '"None"', 'int', '"R"', 'List["X"]', 'Optional[int]', 'str | None', 'Literal["r"]']
RNAMES = ['a', 'b', 'c', 'd', 'e', 'x', 'y', 'self', 'cls', 'args', 'kwargs', 'kw', '_', '__p', 'match', 'type', 'case',
          'caf\u00e9', '\u540d', 'A1', 'long_parameter_name', 'l', 'O', 'returns', 'lambda_', '\u03bb', 'value0']
CTXS = ['func', 'func', 'func', 'async', 'method', 'amethod', 'static', 'classm']


def pick_default(rng: Any) -> str:
    return gen_default(rng) if rng.random() < 0.4 else rng.choice(DEFAULTS)


def pick_annotation(rng: Any) -> str:
    return gen_annotation(rng) if rng.random() < 0.4 else rng.choice(ANNOTS)


def random_params(rng: Any, nmin: int, nmax: int, bad: float = 0.0) -> List[List[Any]]:
    n = rng.randint(nmin, nmax)
    names = rng.sample(RNAMES, n)
    kinds = sorted(rng.choice([PO, PO, POK, POK, POK, VAR, KW, KW, KW, VKW]) for _ in range(n))
    # at most one *args / **kwargs
    seen = set()
    ks = []
    for k in kinds:
        if k in (VAR, VKW):
            if k in seen:
                k = POK if k == VAR else KW
            seen.add(k)
        ks.append(k)
    ks.sort()
    out = []
    seen_default = False
    pd = rng.random()
    pa = rng.random()
    for name, k in zip(names, ks):
        d = None
        if k in (PO, POK):
            if seen_default or rng.random() < pd * 0.6:
                d = pick_default(rng)
                seen_default = True
        elif k == KW and rng.random() < pd:
            d = pick_default(rng)
        a = None
        if rng.random() < pa:
            a = rng.choice(BAD_ANNOTS) if rng.random() < bad else pick_annotation(rng)
        out.append([name, k, d, a])
    return out


# ------------------------------------------------------------------ generated compound expressions
ENAMES = ['a', 'b', 'c', 'x', 'y', 'A', 'B', 'T']
BINOPS = [ast.Add, ast.Sub, ast.Mult, ast.Div, ast.FloorDiv, ast.Mod, ast.MatMult, ast.Pow, ast.LShift, ast.RShift, ast.BitAnd, ast.BitOr, ast.BitXor]
CMPOPS = [ast.Lt, ast.Eq, ast.NotEq, ast.In, ast.NotIn, ast.Is, ast.IsNot, ast.GtE]
L = ast.Load()

def atom(rng):
    r = rng.random()
    if r < 0.6: return ast.Name(rng.choice(ENAMES), L)
    if r < 0.75: return ast.Constant(rng.choice([0, 1, 2, 10]))
    if r < 0.85: return ast.Constant(rng.choice(['s', 'k', '']))
    if r < 0.9: return ast.Constant(None)
    if r < 0.95: return ast.Constant(rng.choice([True, 1.5, ...]))
    return ast.Attribute(ast.Name(rng.choice(ENAMES), L), 'attr', L)
def gen(rng, d):
    if d <= 0 or rng.random() < 0.15: return atom(rng)
    g = lambda: gen(rng, d - 1)
    k = rng.randrange(22)
    if k == 0: return ast.UnaryOp(rng.choice([ast.USub, ast.Not, ast.Invert, ast.UAdd])(), g())
    if k in (1, 2, 3): return ast.BinOp(g(), rng.choice(BINOPS)(), g())
    if k in (4, 5): return ast.BoolOp(rng.choice([ast.And, ast.Or])(), [g() for _ in range(rng.randint(2, 3))])
    if k == 6:
        n = rng.randint(1, 2)
        return ast.Compare(g(), [rng.choice(CMPOPS)() for _ in range(n)], [g() for _ in range(n)])
    if k == 7: return ast.IfExp(g(), g(), g())
    if k == 8:
        args = ast.arguments(posonlyargs=[], args=[ast.arg(n) for n in rng.sample(['p', 'q'], rng.randint(0, 2))], vararg=None,
                             kwonlyargs=[], kw_defaults=[], kwarg=None, defaults=[])
        return ast.Lambda(args, g())
    if k in (9, 10):
        r = rng.random()
        if r < 0.5: sl = g()
        elif r < 0.7: sl = ast.Tuple([g() for _ in range(rng.randint(1, 3))], L)
        elif r < 0.9: sl = ast.Slice(g() if rng.random() < 0.7 else None, g() if rng.random() < 0.7 else None, g() if rng.random() < 0.3 else None)
        else: sl = ast.Tuple([ast.Slice(g(), None, None), g()], L)
        return ast.Subscript(g(), sl, L)
    if k == 11: return ast.Attribute(g(), rng.choice(['c', 'real', 'attr']), L)
    if k in (12, 13):
        args = [g() for _ in range(rng.randint(0, 2))]
        if rng.random() < 0.25: args.append(ast.Starred(g(), L))
        kws = [ast.keyword('k', g())] if rng.random() < 0.3 else []
        if rng.random() < 0.2: kws.append(ast.keyword(None, g()))
        return ast.Call(g(), args, kws)
    if k == 14:
        elts = [g() for _ in range(rng.randint(0, 3))]
        if rng.random() < 0.3: elts.append(ast.Starred(g(), L))
        return ast.List(elts, L)
    if k == 15:
        elts = [g() for _ in range(rng.randint(0, 3))]
        if elts and rng.random() < 0.2: elts.insert(0, ast.Starred(g(), L))
        return ast.Tuple(elts, L)
    if k == 16:
        n = rng.randint(0, 2)
        keys = [g() for _ in range(n)]; vals = [g() for _ in range(n)]
        if rng.random() < 0.25: keys.append(None); vals.append(atom(rng))   # {**(a if b else c)} is displayed without the parentheses (C15's domain, seen once): kept out
        return ast.Dict(keys, vals)
    if k == 17: return ast.Set([g() for _ in range(rng.randint(1, 3))])
    if k == 18:
        gens = [ast.comprehension(ast.Name('i', ast.Store()), g(), [g()] if rng.random() < 0.4 else [], 0)]
        return rng.choice([lambda: ast.ListComp(g(), gens), lambda: ast.GeneratorExp(g(), gens), lambda: ast.SetComp(g(), gens),
                           lambda: ast.DictComp(g(), g(), gens)])()
    return atom(rng)
TNAMES = ['int', 'str', 'A', 'B', 'T', 'List', 'Dict', 'Optional', 'Callable', 'None_']
def gen_ann(rng, d, instr=False):
    """type-like expressions: |, subscripts, attribute, lists inside Callable, Literal with data; strings at any operand."""
    def wrap(n):
        if not instr and rng.random() < 0.25:
            return ast.Constant(ast.unparse(ast.fix_missing_locations(n)))
        return n
    if d <= 0 or rng.random() < 0.2:
        r = rng.random()
        if r < 0.7: return wrap(ast.Name(rng.choice(TNAMES), L))
        if r < 0.8: return ast.Constant(None)
        return wrap(ast.Attribute(ast.Name('m', L), rng.choice(TNAMES), L))
    g = lambda: gen_ann(rng, d - 1, instr)
    k = rng.randrange(12)
    if k in (0, 1, 2): return wrap(ast.BinOp(g(), rng.choice([ast.BitOr, ast.BitOr, ast.BitOr, ast.BitAnd, ast.Add])(), g()))
    if k in (3, 4, 5):
        sl = g() if rng.random() < 0.5 else ast.Tuple([g() for _ in range(rng.randint(1, 3))], L)
        return wrap(ast.Subscript(g(), sl, L))
    if k == 6: return wrap(ast.Subscript(ast.Name('Callable', L), ast.Tuple([ast.List([g() for _ in range(rng.randint(0, 2))], L), g()], L), L))
    if k == 7: return ast.Subscript(rng.choice([ast.Name('Literal', L), ast.Attribute(ast.Name('typing', L), 'Literal', L)]),
                                    rng.choice([ast.Constant('a|b'), ast.Tuple([ast.Constant('x'), ast.Constant(1)], L), ast.Constant('int')]), L)
    if k == 8: return wrap(ast.UnaryOp(ast.Invert(), g()))
    if k == 9: return wrap(ast.Subscript(ast.Name('Optional', L), g(), L))
    if k == 10: return wrap(gen(rng, 1))
    return wrap(ast.Name(rng.choice(TNAMES), L))


def expr_src(n: ast.AST) -> str:
    return ast.unparse(ast.fix_missing_locations(n))


MAXLEN = 60   # longer values that contain a lambda / conditional / comparison / comprehension are cut with '...' by
              # colorize_inline_pyval (maxlines=1 + astor's line wrapping at ~70 columns): a display limit, kept out


def _starred_in_slice_bound(n: ast.AST) -> bool:
    # x[a:(*b, c)] is displayed x[a:*b, c], not Python at all: same defect as tuple-in-slice-bound, kept out
    for sl in ast.walk(n):
        if isinstance(sl, ast.Slice):
            for b in (sl.lower, sl.upper, sl.step):
                if isinstance(b, ast.Tuple) and any(isinstance(e, ast.Starred) for e in b.elts):
                    return True
    return False


def gen_default(rng: Any) -> str:
    for _ in range(50):
        n = gen(rng, rng.randint(1, 3))
        if _starred_in_slice_bound(n):
            continue
        t = expr_src(n)
        if len(t) <= MAXLEN and _compiles('def f(p=%s): pass' % t):
            return t
    return 'None'


def gen_annotation(rng: Any) -> str:
    for _ in range(50):
        n = gen_ann(rng, rng.randint(1, 3))
        if _starred_in_slice_bound(n):
            continue
        if unquote(n, True) is None:
            continue      # strings that spell no expression come from BAD_ANNOTS, in simple shapes
        if naive_splice(n) is None:
            continue      # e.g. x | "not y" is displayed x|not y, not Python at all: the known unstrung-operand defect, kept out
        t = expr_src(n)
        if len(t) <= MAXLEN and _compiles('def f(p: %s): pass' % t):
            return t
    return 'int'


def _compiles(src: str) -> bool:
    import warnings
    with warnings.catch_warnings():
        warnings.simplefilter('ignore')
        try:
            compile(src, '<c14>', 'exec')
            return True
        except (SyntaxError, ValueError):
            return False


# compound shapes, run first in every tier (one definition per expression)
CORPUS_DEFAULTS = [
    '(a + b)[0]', '(args or defaults)[0]', '(-values)[i]', '(a if b else c)[0]', '(lambda: 0)[0]', '(a < b)[0]', '(not a)[0]',
    'x[a + b]', 'x[a or b]', 'x[-1]', 'x[a if b else c]', 'x[lambda: 0]', 'x[a or b:c]', 'x[a:b, c]', 'x[::2]', 'x[a, b]',
    '(a or b)[c or d]', '(a + b).c', '(a or b).c', '(-a).c', '(a if b else c).d', '(a or b)(c)', '(a + b)(c)', '(lambda x: x)(1)',
    'f(*(a or b), **(c or d))', 'f(*a, **b)', 'f(a or b, k=c if d else e)', '[*a, *(b or c)]', '(*a, b)', '[a + b, [c or d, (e, f)]]',
    '{a: [b, (c, d)], **e}', "{'k': {1: (2, 3)}}", 'not (a or b)', '-(a + b)', '(-a) ** 2', '-a ** 2', '(a ** b) ** c', 'a ** b ** c',
    'a - (b - c)', 'a / (b * c)', '(a + b) * c', 'a < b < c', '(a < b) < c', 'a and (b or c)', 'not a and b', 'not (a and b)',
    'a if b else (c if d else e)', '(a if b else c) if d else e', 'lambda x: x or y', '(lambda x: x) or y', 'a or (lambda: 0)',
    'a not in b', 'a is not b', '(a, b) + (c, d)', '~(a | b)', '(a | b) & c', 'a ^ (b | c)', 'a << (b << c)', "'%s' % (x, y)",
    '[i for i in x if (a or b)]', '(x for x in (a or b))', '{i: j for i, j in x}', '-x[0]', '(-x)[0]', '(a * b)[0]', '(a ** b)[0]',
    'a ** b[0]', '(a, b)[0]', '[a, b][0]', '{a: b}[a]', "'abc'[0]", 'a.b(c).d[e]', '(a.b or c)[0]', '(a or b)(c)(d)', '(a or b)[c][d]']
CORPUS_ANNOTS = [
    'A | None', 'A | B | None', '(A | B)[int]', 'List[A | B]', 'Optional[A | B]', 'Dict[str, A | None]', '"A | B"', 'List["A | B"]',
    '"A" | None', 'Callable[[A | B], C | None]', '"Callable[[A], B] | None"', '(A | B)', '"(A | B)[int]"', 'X["a|b"]', 'X["a|b", C]',
    '"a.b" | c', '"a[b]" | c', 'Literal["a|b"] | None', 'A[B][C] | D', '"A[B]"[C]', '~A', 'Optional["A | B"] | None',
    '(A | B)[int] | None', 'Dict[str, (A | B)[int]]', '"Dict[str, A | None]"', 'Tuple[A | B, ...]', 'x.y[A | B]', '(x or y)[A]']
# known on the unchanged tree (see known_findings/C14.json)
CORPUS_KNOWN = [(None, '"a|b" & c'), (None, '"A | B" | None'), (None, '~"a|b"'), ('x[(a, b):c]', None), ('(1,)', None)]


# ------------------------------------------------------------------ the property, stated on what is displayed
def _is_literal(v: ast.AST) -> bool:
    return (isinstance(v, ast.Name) and v.id == 'Literal') or (isinstance(v, ast.Attribute) and v.attr == 'Literal')


class _Unquote(ast.NodeTransformer):
    """String annotations read as the expression they spell (PEP 484), recursively; the arguments of
    Literal[...] are data and stay. strict: raises SyntaxError when a string does not spell one expression;
    otherwise such a string is kept."""
    def __init__(self, strict: bool) -> None:
        self.strict = strict

    def visit_Constant(self, n: ast.Constant) -> ast.AST:
        if isinstance(n.value, str):
            p = cc.parse_string(n.value)
            if p is None:
                if self.strict:
                    raise SyntaxError('not an expression')
                return n
            return self.visit(p)
        return n

    def visit_Subscript(self, n: ast.Subscript) -> ast.AST:
        v = self.visit(n.value)
        return ast.Subscript(v, n.slice if _is_literal(v) else self.visit(n.slice), n.ctx)


def unquote(node: Optional[ast.AST], strict: bool = True) -> Optional[ast.AST]:
    """strict: the fully unquoted expression, or None when some string cannot be unquoted."""
    if node is None:
        return None
    try:
        return _Unquote(strict).visit(copy.deepcopy(node))
    except SyntaxError:
        return None


class _Equiv(ast.NodeTransformer):
    """Expressions that mean the same are compared equal: {a, b} and set([a, b]) (pydoctor writes set displays
    the second way). relax_one_tuple (used only to CLASSIFY a failure, never to accept it): (x,) and (x)."""
    def __init__(self, relax: Any = ()) -> None:
        self.relax = 'one_tuple' in relax

    def visit_Set(self, n: ast.Set) -> ast.AST:
        self.generic_visit(n)
        return ast.Call(ast.Name('set', ast.Load()), [ast.List(n.elts, ast.Load())], [])

    def visit_Tuple(self, n: ast.Tuple) -> ast.AST:
        self.generic_visit(n)
        if self.relax and len(n.elts) == 1 and not isinstance(n.elts[0], ast.Starred):
            return n.elts[0]
        return n


def dump(n: Optional[ast.AST], relax: Any = ()) -> str:
    return 'absent' if n is None else ast.dump(_Equiv(relax).visit(copy.deepcopy(n)))


def all_args(a: ast.arguments) -> List[ast.arg]:
    return a.posonlyargs + a.args + ([a.vararg] if a.vararg else []) + a.kwonlyargs + ([a.kwarg] if a.kwarg else [])


# ---- used ONLY to classify a failure as one of the known findings, never to accept a display ----------------
def naive_splice(node: ast.AST) -> Optional[ast.AST]:
    """The expression one gets by writing each string annotation's content in place of the string WITHOUT
    parentheses (what pydoctor displays for an unstrung operand: its root node has no `parent`, so
    _OperatorDelimiter never parenthesises it)."""
    holes: Dict[str, str] = {}

    def text_of(n: ast.AST) -> Optional[str]:
        failed = []

        class R(ast.NodeTransformer):
            def visit_Constant(self, c: ast.Constant) -> ast.AST:
                if isinstance(c.value, str):
                    p = cc.parse_string(c.value)
                    if p is None:
                        failed.append(1)
                        return c
                    # inside the string everything is parenthesised properly (Parentage is re-run on the
                    # parent-less root of the parsed expression); only that root is not
                    q = unquote(p, True)
                    if q is None:
                        failed.append(1)
                        return c
                    t = ast.unparse(ast.fix_missing_locations(q))
                    if not (isinstance(q, (ast.UnaryOp, ast.BinOp, ast.BoolOp)) and getattr(c, '_c14_operand', False)):
                        # only the operator nodes _OperatorDelimiter handles lose them, and only as operands of
                        # such a node (a subscripted value, for instance, is parenthesised by other code)
                        t = '(' + t + ')'
                    key = '__S%d__' % len(holes)
                    holes[key] = t
                    return ast.Name(key, ast.Load())
                return c

            def visit_Subscript(self, x: ast.Subscript) -> ast.AST:
                lit = _is_literal(x.value) or (isinstance(x.value, ast.Constant) and isinstance(x.value.value, str)
                                                and _is_literal(cc.parse_string(x.value.value) or x.value))
                v = self.visit(x.value)
                return ast.Subscript(v, x.slice if lit else self.visit(x.slice), x.ctx)
        n2 = copy.deepcopy(n)

        def mark(x: ast.AST, under_new_node: bool) -> None:
            # visit_Subscript builds a NEW Subscript node (no `parent`): when the colorizer reaches it, Parentage is
            # re-run on everything below it and the parentheses there come out right
            for ch in ast.iter_child_nodes(x):
                if isinstance(ch, ast.Constant) and isinstance(x, (ast.UnaryOp, ast.BinOp, ast.BoolOp)) and not under_new_node:
                    ch._c14_operand = True
                mark(ch, under_new_node or isinstance(ch, ast.Subscript))
        mark(n2, isinstance(n2, ast.Subscript))
        out = ast.unparse(ast.fix_missing_locations(R().visit(n2)))
        return None if failed else out
    t = text_of(node)
    if t is None:
        return None
    for _ in range(len(holes) + 1):
        for k, v in holes.items():
            t = t.replace(k, v)
    try:
        return ast.parse(t, mode='eval').body
    except SyntaxError:
        return None


def naive_slice_tuple(node: ast.AST) -> ast.AST:
    """x[(a, b):c] written as pydoctor displays it, x[a, b:c] (a tuple used as a slice bound loses its parentheses)."""
    holes: Dict[str, str] = {}

    class R(ast.NodeTransformer):
        def visit_Slice(self, sl: ast.Slice) -> ast.AST:
            self.generic_visit(sl)
            for f in ('lower', 'upper', 'step'):
                b = getattr(sl, f)
                if isinstance(b, ast.Tuple) and b.elts:
                    key = '__T%d__' % len(holes)
                    holes[key] = ', '.join(ast.unparse(ast.fix_missing_locations(e)) for e in b.elts) + (',' if len(b.elts) == 1 else '')
                    setattr(sl, f, ast.Name(key, ast.Load()))
            return sl
    t = ast.unparse(ast.fix_missing_locations(R().visit(copy.deepcopy(node))))
    if not holes:
        return node
    for _ in range(len(holes) + 1):
        for k, v in holes.items():
            t = t.replace(k, v)
    try:
        return ast.parse(t, mode='eval').body
    except SyntaxError:
        return node


def relax_want(node: Optional[ast.AST], relax: Any, is_annotation: bool) -> Optional[ast.AST]:
    if node is None or not relax:
        return node
    if is_annotation and 'splice' in relax:
        sp = naive_splice(node)
        if sp is not None:
            node = sp
    if 'slice_tuple' in relax:
        node = naive_slice_tuple(node)
    return node


def pair_annotation(want: Optional[ast.AST], got: Optional[ast.AST]) -> Tuple[Optional[ast.AST], Optional[ast.AST]]:
    """What the written annotation must be displayed as, and the displayed one, made comparable: when every
    string in it can be unquoted the display must be exactly the unquoted expression; when some string cannot,
    each string is shown either unquoted or as written (compared after unquoting what can be on both sides)."""
    if want is None:
        return None, got
    s = unquote(want, True)
    if s is not None:
        return s, got
    return unquote(want, False), unquote(got, False)


def describe_args(a: ast.arguments) -> str:
    r = []
    npos = len(a.posonlyargs) + len(a.args)
    ds = [None] * (npos - len(a.defaults)) + list(a.defaults)
    un = lambda x: '' if x is None else ast.unparse(x)
    for i, x in enumerate(a.posonlyargs + a.args):
        r.append('%s:%s%s%s' % ('PO' if i < len(a.posonlyargs) else 'POK', x.arg,
                                '' if x.annotation is None else ': ' + un(x.annotation),
                                '' if ds[i] is None else ' = ' + un(ds[i])))
    if a.vararg:
        r.append('VAR:%s%s' % (a.vararg.arg, '' if a.vararg.annotation is None else ': ' + un(a.vararg.annotation)))
    for x, d in zip(a.kwonlyargs, a.kw_defaults):
        r.append('KW:%s%s%s' % (x.arg, '' if x.annotation is None else ': ' + un(x.annotation),
                                '' if d is None else ' = ' + un(d)))
    if a.kwarg:
        r.append('VKW:%s%s' % (a.kwarg.arg, '' if a.kwarg.annotation is None else ': ' + un(a.kwarg.annotation)))
    return '[' + ', '.join(r) + ']'


def compare_def(fd: Any, b: Any, line: str, relax: Any) -> Optional[str]:
    if b.name != fd.name or isinstance(b, ast.AsyncFunctionDef) != isinstance(fd, ast.AsyncFunctionDef):
        return 'displayed %r: name/async differ from the source (%s, async=%s)' % (
            line, fd.name, isinstance(fd, ast.AsyncFunctionDef))
    wa, ga = copy.deepcopy(fd.args), copy.deepcopy(b.args)
    wl, gl = all_args(wa), all_args(ga)
    for x in wl:
        x.type_comment = None
        x.annotation = relax_want(x.annotation, relax, True)
    wa.defaults = [relax_want(d, relax, False) for d in wa.defaults]
    wa.kw_defaults = [relax_want(d, relax, False) for d in wa.kw_defaults]
    if len(wl) == len(gl):
        for x, y in zip(wl, gl):
            x.annotation, y.annotation = pair_annotation(x.annotation, y.annotation)
    if dump(wa, relax) != dump(ga, relax):
        return 'displayed %r does not have the written parameters: written %s displayed %s' % (
            line, describe_args(wa), describe_args(ga))
    wr, gr = pair_annotation(relax_want(fd.returns, relax, True), b.returns)
    if isinstance(wr, ast.Constant) and wr.value is None:
        wr = None
    if dump(wr, relax) != dump(gr, relax):
        return 'displayed %r: return annotation reads %s, written (unquoted, `-> None` omitted) %s' % (
            line, 'absent' if gr is None else ast.unparse(gr), 'absent' if wr is None else ast.unparse(wr))
    return None


RELAX_FLAGS = ('one_tuple', 'splice', 'slice_tuple')
KNOWN_CLASS = {'one_tuple': 'one-element-tuple-expression', 'splice': 'unstrung-operand-not-parenthesised',
               'slice_tuple': 'tuple-in-slice-bound'}


def known_class(case: Dict[str, Any], obs: Dict[str, Any]) -> Optional[str]:
    """The known finding (known_findings/C14.json `match.class`) that alone explains an oracle failure: the smallest
    set of known renderings under which the display reads back as written; None if no such set."""
    if oracle(case, obs) is None:
        return None
    for n in (1, 2, 3):
        for fl in itertools.combinations(RELAX_FLAGS, n):
            if oracle(case, obs, relax=fl) is None:
                return KNOWN_CLASS[fl[0]]
    return None


def oracle(case: Dict[str, Any], obs: Dict[str, Any], relax: Any = ()) -> Optional[str]:
    """None = the property holds on this observation (or does not apply: not a valid definition).
    relax: names of known renderings to identify -- used only by known_class()."""
    src = case['src']
    if not _compiles(src):
        return None
    tree = ast.parse(src)
    defs = cc.find_defs(tree, case['q'])
    if not defs:
        return None
    if 'err' in obs:
        return 'pydoctor raised %s while building/displaying the function' % obs['err']
    if not obs.get('found'):
        return 'no Function documented for %s (%s)' % (case['q'], obs.get('what'))
    ovs = [d for d in defs if any(cc.is_overload_deco(x) for x in d.decorator_list)]
    prim = [d for d in defs if d not in ovs]
    # only the orders typing defines: overloads first, then at most one implementation
    if len(prim) > 1 or (prim and ovs and defs.index(prim[0]) != len(defs) - 1):
        return None
    shown = obs['shown']
    if ovs:
        want = ovs
        if len(shown) == len(ovs) + 1 and prim:
            want = ovs + prim
    else:
        want = prim
    if len(shown) != len(want):
        return 'the entry shows %d definition line(s) %r for %d written (%d overloads)' % (
            len(shown), shown, len(want), len(ovs))
    for fd, line in zip(want, shown):
        try:
            back = ast.parse(line + ' pass').body
        except (SyntaxError, ValueError) as e:
            return 'displayed definition %r is not Python: %s' % (line, e)
        if len(back) != 1 or not isinstance(back[0], (ast.FunctionDef, ast.AsyncFunctionDef)):
            return 'displayed definition %r does not read back as one def' % (line,)
        msg = compare_def(fd, back[0], line, relax)
        if msg:
            return msg
    return None


def unstring_oracle(src: str, o: Dict[str, Any]) -> Optional[str]:
    """The property on one annotation: shown unquoted; a string that spells no expression is kept."""
    if 'err' in o:
        return 'unstring_annotation(%s) raised %s' % (src, o['err'])
    node = ast.parse(src, mode='eval').body
    strict = unquote(node, True)
    got = cc.norm(o['expr'])
    if strict is not None:
        if cc.norm(cc.enc_expr(strict)) != got:
            return 'annotation %s is not shown unquoted as PEP 484 reads it' % src
        if o['reported']:
            return 'annotation %s can be unquoted but a syntax error was reported' % src
        return None
    if not o['reported']:
        return 'annotation %s contains a string that is not an expression, nothing was reported' % src
    return None     # the node kept is compared with the model (in-place partial unquoting), see Model/Sig.v `after`


# ------------------------------------------------------------------ model <-> implementation
def model_input(case: Dict[str, Any]) -> Optional[Any]:
    try:
        tree = ast.parse(case['src'])
    except (SyntaxError, ValueError):
        return None
    defs = cc.find_defs(tree, case['q'])
    if not defs:
        return None
    return [4, 'f', [cc.enc_def(d) for d in defs]]


def fill(pieces: List[Any], renders: Dict[str, str]) -> str:
    out = []
    for p in pieces:
        if isinstance(p, int):
            out.append(chr(p))
        else:
            out.append(renders.get(json.dumps(p[0]), '\u2039?\u203a'))
    return ''.join(out)


def canon_sig(s: Optional[Dict[str, Any]]) -> Any:
    if s is None:
        return []
    return [[cc.norm(s['params']), cc.norm(s['ret'])]]


class _Marker:
    def __init__(self, s: str) -> None:
        self.s = s

    def __repr__(self) -> str:
        return self.s


class Check(PropertyCheck):
    id = 'C14'
    props_module = 'Props.C14'
    models = {'sig': 'XSig.v', 'sig_ir': 'XSigIR.v'}
    needs_gen = True
    gen_modules = ['gen_c14_code']
    rule = ('every valid parameter layout of <= N parameters over {positional-only, positional-or-keyword, *args, '
            'keyword-only, **kwargs} x default present/absent x annotation present/absent (N = 3 quick, 4 thorough; '
            'return annotation cycling over none / None / int / a string), plus random longer signatures, methods, '
            'async, overloads; non-trivial = at least two parameters and (two kinds or a default or an annotation); '
            'distinct by source text')
    trusted_base = [
        'Coq 8.16.1 kernel (coqc; vm_compute for Example witnesses; no native_compute)',
        'no axioms (Print Assumptions: Closed under the global context for every theorem)',
        'extraction: ExtrOcamlBasic only; OCaml 4.13.1; coq/ocaml/driver.ml',
        'Spec/SigStr.v (inspect.Signature.__init__/__str__, the def parameter grammar, how ast.arguments stores '
        'defaults) hand-written after CPython 3.12 and validated on every run against inspect / ast.parse',
        'translator harness/gen/gen_c14_code.py (fail-closed; inlines local closures, reads x=[]/x={} + append/setitem and '
        'generators as produced sequences) and the interpreter Model/SigIR.v as the stated meaning of the Python constructs '
        'it covers; primitives: AST accessors, len/enumerate/zip/subscript, dict.get, unstring_annotation (=Model.Sig), the '
        'formatter classes as identity, inspect parameter constructor',
        'correspondence harness harness/c14.py + harness/impl/c14_sig.py (real builder via System.systemBuilder, '
        'pages.format_signature / format_function_def / format_overloads, flattened, tags stripped)',
        'modelled not verified: text of a default/annotation expression (C15); html2stan re-parse of the string (C10); '
        'decorator lines; CPython ast.parse as oracle for what a string annotation spells',
    ]
    manifest = {
        'text': ('The source of _annotations_from_function and of the parameter-building part of _handleFunctionDef is '
                 'translated on every run into the producer language of Model/SigIR.v (Gen/SigCode.v) and '
                 'C14_code_annotations_is_model / C14_code_parameters_is_model prove, for every definition the parser can '
                 'produce, that interpreting THAT code is the model (C14_code_default_alignment states the property on the '
                 'translated code); the interpretation is also run against pydoctor as a third correspondence leg. '
                 'Theorems over Model/Sig.v (pydoctor _handleFunctionDef / _annotations_from_function / unstring_annotation / '
                 'format_signature) and Spec/SigStr.v (CPython inspect.Signature, def grammar) for parameter lists of any '
                 'length: defaults are right-aligned exactly as the parser stored them and get_default never fails '
                 '(C14_default_alignment), kinds come out in Signature order so only duplicate names are rejected '
                 '(C14_kinds_order), lexing and reading the displayed text back gives the written parameters with kinds, '
                 'separators, defaults, unquoted annotations, `-> None` omitted (C14_roundtrip), unstringing '
                 '(C14_unstring) and overload bookkeeping (C14_overloads). Tied to the code by an exhaustive '
                 'model/implementation comparison over every layout of <= 3 (quick) / <= 4 (thorough) parameters and a '
                 'random stream; the displayed text is re-parsed by CPython and compared with the source AST (oracle).'),
        'note': ('Trusted: Coq kernel, extraction + OCaml driver, the Python harness, Spec/SigStr.v as validated against '
                 'inspect/ast. Expression text is opaque here (C15); HTML re-parse is C10.'),
        'technique': 'Coq proof (lists, lexer/reader round trip) + exhaustive model/implementation correspondence + CPython re-parse oracle',
    }
    assumptions = ['parameter names are identifiers other than `return` (the parser guarantees it)',
                   'the ast.arguments record comes from CPython parser: len(kw_defaults) = len(kwonlyargs), '
                   'len(defaults) <= len(posonlyargs)+len(args)']

    # -------------------------------------------------------------- cases
    def cases(self, tier: Optional[str] = None) -> List[Dict[str, Any]]:
        tier = tier or self.tier
        maxn = 3 if tier == 'quick' else 4
        out: List[Dict[str, Any]] = []
        ls = layouts(maxn)
        for i, lay in enumerate(ls):
            out.append(make_case(lay, RETS[i % len(RETS)], 'func', stream='exhaustive'))
        self.stats['layouts_max_params'] = maxn
        self.stats['layouts'] = len(ls)
        self.exhaustive = True
        # corpus: boundary cases
        corpus = [
            make_case([], None), make_case([], 'None'), make_case([], '"None"'),
            make_case([['a', PO, '1', None]], None), make_case([['a', KW, None, None]], None),
            make_case([['a', PO, None, None], ['b', PO, '1', 'int'], ['c', POK, '2', None], ['args', VAR, None, 'int'],
                       ['d', KW, None, None], ['e', KW, 'None', 'Literal["a"]'], ['kw', VKW, None, '"dict[str, \'int\']"']],
                      '"None"'),
            make_case([['self', POK, None, None], ['a', POK, None, '"1 +"']], 'List["1 +"]', 'method'),
            make_case([['self', POK, None, None], ['a', POK, None, None]], None, 'method',
                      overloads=[([['self', POK, None, None], ['a', POK, None, 'int']], 'int'),
                                 ([['self', POK, None, None], ['a', PO, None, 'str']], 'str')]),
            make_case([], None, 'stub', overloads=[([['a', PO, '1', None]], 'None'), ([['a', KW, '2', '"T"']], '"R"')]),
        ]
        ov2 = [([['a', POK, None, 'int']], 'int'), ([['a', PO, None, 'str'], ['b', KW, '1', None]], 'str')]
        front = []
        for ctx, extra in (('static', ()), ('classm', ()), ('func', ('deco',)), ('method', ('deco(1)', 'x.y')),
                           ('stub', ('deco',)), ('amethod', ('deco',))):
            for pos in ('top', 'mid', 'bottom'):
                for spell in ('overload', 'typing.overload'):
                    ps = [['a', POK, None, None]] if ctx in ('static', 'func', 'stub') else \
                        [['self', POK, None, None], ['a', POK, None, None]]
                    ovs = ov2 if ctx in ('static', 'func', 'stub') else \
                        [([['self', POK, None, None]] + p, r) for p, r in ov2]
                    front.append(make_case(ps, None, ctx, ovs, ov_pos=pos, extra=extra, spell=spell))
        # constants that compare equal but are different defaults (True == 1 == 1.0, False == 0 == 0.0), in one module
        front.append(make_case([['a', POK, 'True', None], ['b', POK, '1', None], ['c', POK, '1.0', None],
                                ['d', KW, 'False', None], ['e', KW, '0', None], ['g', KW, '0.0', 'int'], ['h', KW, '0j', None]], None))
        front.append(make_case([['a', POK, '1', 'int'], ['b', POK, 'True', 'bool'], ['c', KW, '0', None], ['d', KW, 'False', None]], 'int', 'method'))
        corpus[0:0] = front
        for e in CORPUS_DEFAULTS:
            corpus.append(make_case([['p', POK, e, None]], None))
        for e in CORPUS_ANNOTS:
            corpus.append(make_case([['p', POK, None, e]], e if len(corpus) % 3 == 0 else None))
        for d, a in CORPUS_KNOWN:
            corpus.append(make_case([['p', POK, d, a]], None))
        for c in corpus:
            c['stream'] = 'corpus'
        out[0:0] = corpus            # run first
        # random longer signatures
        nrand = 400 if tier == 'quick' else 20000
        for _ in range(nrand):
            ctx = self.rng.choice(CTXS)
            params = random_params(self.rng, 4, 10)
            ovs = []
            if self.rng.random() < 0.2:
                ovs = [(random_params(self.rng, 1, 6), self.rng.choice(RET_ANNOTS)) for _ in range(self.rng.randint(1, 3))]
                if self.rng.random() < 0.25:
                    ctx = 'stub'
            extra: Tuple[str, ...] = ()
            if self.rng.random() < 0.25:
                extra = tuple(self.rng.sample(['deco', 'deco(1)', 'x.y', 'm.wrap(k=2)'], self.rng.randint(1, 2)))
            out.append(make_case(params, self.rng.choice(RET_ANNOTS), ctx, ovs, stream='random',
                                 ov_pos=self.rng.choice(['top', 'top', 'mid', 'bottom']), extra=extra,
                                 spell=self.rng.choice(['overload', 'overload', 'typing.overload'])))
        # malformed stream: bad string annotations, duplicate names, overloads in odd orders (correspondence only
        # where the source is not a valid definition)
        nbad = 120 if tier == 'quick' else 3000
        for _ in range(nbad):
            r = self.rng.random()
            params = random_params(self.rng, 1, 6, bad=0.5)
            if r < 0.3 and len(params) >= 2:
                params[self.rng.randrange(1, len(params))][0] = params[0][0]       # duplicate name
                c = make_case(params, self.rng.choice(RET_ANNOTS), stream='malformed')
            elif r < 0.5:
                # definitions of one name in every order: overloads after the implementation, two
                # implementations, overload / implementation / overload ...
                c = make_case(params, None, stream='malformed')
                c['src'] = HEADER
                for _k in range(self.rng.randint(2, 4)):
                    c['src'] += render_def('f', random_params(self.rng, 0, 3), self.rng.choice([None, 'int']),
                                           False, ('overload',) if self.rng.random() < 0.6 else ())
                c['layout'] = None
            else:
                c = make_case(params, self.rng.choice(RET_ANNOTS + BAD_ANNOTS), self.rng.choice(CTXS), stream='malformed')
            out.append(c)
        self.stats['random'] = nrand
        self.stats['malformed'] = nbad
        return out

    # -------------------------------------------------------------- comparison of one case
    def compare(self, case: Dict[str, Any], obs: Dict[str, Any], mwire: Optional[str]) -> Optional[Violation]:
        if mwire is None:
            return None
        m = dec(mwire)
        if 'err' in obs:
            if m[0] != 0:
                return None      # both fail: model says an exception escapes, implementation raised
            return Violation('correspondence', 'pydoctor raised but Model.Sig does not: ' + obs['err'],
                             case=case, expected=m[:1], observed=obs['err'])
        if m[0] != 0:
            return Violation('correspondence', 'Model.Sig predicts an escaping exception (code %s), pydoctor returned' % m[0],
                             case=case, expected=m[0], observed=obs.get('shown'))
        if not obs.get('found'):
            return Violation('correspondence', 'no Function object for %s' % case['q'], case=case, observed=obs)
        renders: Dict[str, str] = {}
        for s in [obs['primary']] + obs['overloads']:
            if s:
                for e, t in s['renders']:
                    k = json.dumps(cc.norm(e))
                    if renders.get(k, t) != t:
                        self.count('render_conflicts')
                    renders[k] = t
        model_obs = {
            'primary': m[1], 'overloads': m[2],
            'shown': [fill(p, renders) for p in m[3]],
            'reports': m[4],
            'sigtext': fill(m[5], renders), 'ovtexts': [fill(p, renders) for p in m[6]],
            'is_async': bool(m[7]),
        }
        impl_obs = {
            'primary': canon_sig(obs['primary']),
            'overloads': [canon_sig(s)[0] for s in obs['overloads']],
            'shown': obs['shown'], 'reports': cc.norm(obs['reports']),
            'sigtext': obs['sigtext'], 'ovtexts': obs['ovtexts'], 'is_async': obs['is_async'],
        }
        for key in ('primary', 'overloads', 'reports', 'sigtext', 'ovtexts', 'shown', 'is_async'):
            if model_obs[key] != impl_obs[key]:
                return Violation('correspondence', 'Model.Sig and pydoctor disagree on `%s`' % key, case=case,
                                 expected={key: model_obs[key]}, observed={key: impl_obs[key]})
        return None

    def run_cases(self, cases: List[Dict[str, Any]], with_model: bool = True) -> Tuple[List[Any], List[Optional[str]]]:
        jobs = [{'t': 'def', 'src': c['src'], 'q': c['q']} for c in cases]
        impl = lib.run_impl_worker('c14_sig.py', jobs, jobs=16 if len(jobs) > 3000 else 8)
        mw: List[Optional[str]] = [None] * len(cases)
        if with_model:
            ins = [model_input(c) for c in cases]
            idx = [i for i, x in enumerate(ins) if x is not None]
            outs = self.model('sig', [enc(ins[i]) for i in idx])
            for i, o in zip(idx, outs):
                mw[i] = o
        return impl, mw

    def correspondence(self) -> List[Violation]:
        out: List[Violation] = []
        out.extend(self.spec_validation())
        cases = self.cases()
        impl, mw = self.run_cases(cases)
        self.evaluations += len(cases)
        ncorr = norac = 0
        nknown: Dict[str, int] = {}
        seen_src = set()
        for c, o, m in zip(cases, impl, mw):
            self.count('stream_' + c['stream'])
            lay = c.get('layout')
            if lay:
                ps = lay['params']
                self.count('nparams_%d' % len(ps)) if len(ps) <= 4 else self.count('nparams_5+')
                for p in ps:
                    self.count('kind_%d' % p[1])
                    if p[2] is not None:
                        self.count('with_default')
                    if p[3] is not None:
                        self.count('with_annotation')
                if len(ps) >= 2 and (len(set(p[1] for p in ps)) >= 2 or any(p[2] or p[3] for p in ps)) \
                        and c['src'] not in seen_src:
                    seen_src.add(c['src'])
            for r in (o.get('reports') or []):
                self.count('report_%s' % (r if isinstance(r, int) else 'other'))
            if o.get('overloads'):
                self.count('with_overloads')
            if 'err' in o:
                self.count('impl_exceptions')
            v = self.compare(c, o, m)
            if v is not None and ncorr < 20:
                ncorr += 1
                out.append(v)
            msg = oracle(c, o)
            if msg is not None:
                self.count('oracle_failures')
                kc = known_class(c, o)
                if kc is not None:
                    # explained completely by a known rendering of an expression (C15's domain)
                    self.count('oracle_failures_known_' + kc)
                    if nknown.get(kc, 0) < 1:
                        nknown[kc] = 1
                        out.append(Violation('oracle', msg, case=c, observed={'found': True, 'shown': o['shown']}))
                elif norac < 6:
                    norac += 1
                    c2 = self.shrink(c, msg) if norac <= 2 else c
                    o2 = o if c2 is c else lib.run_impl_worker('c14_sig.py', [{'t': 'def', 'src': c2['src'], 'q': c2['q']}])[0]
                    out.append(Violation('oracle', oracle(c2, o2) or msg, case=c2,
                                         observed={'found': o2.get('found'), 'shown': o2.get('shown'), 'err': o2.get('err')}))
        self.stats['distinct_nontrivial'] = len(seen_src)
        for c in cases[700:702] + cases[-130:-128] + cases[-2:]:
            self.sample({'q': c['q'], 'stream': c['stream'], 'src': c['src'][len(HEADER):]})
        out.extend(self.ir_leg(cases, impl))
        out.extend(self.unstring_check())
        out.extend(self.to_ast_check(cases))
        if self.tier == 'thorough':
            out.extend(self.vm_crosscheck(cases))
        return out

    # -------------------------------------------------------------- third leg: the translated code, interpreted
    def ir_leg(self, cases: List[Dict[str, Any]], impl: List[Any]) -> List[Violation]:
        """Gen/SigCode.v (the current source of _annotations_from_function and of the parameter-building part of
        _handleFunctionDef, translated by harness/gen/gen_c14_code.py) interpreted by Model/SigIR.v, against what the
        real code built: Function.annotations (in order) and Function.signature.parameters. Single definitions only."""
        sel, wires = [], []
        for c, o in zip(cases, impl):
            if 'err' in o or not o.get('found') or o.get('overloads') or o.get('primary') is None:
                continue
            try:
                defs = cc.find_defs(ast.parse(c['src']), c['q'])
            except (SyntaxError, ValueError):
                continue
            if len(defs) != 1 or any(isinstance(r, int) and r >= 10 for r in o.get('reports', [])):
                continue            # redefinitions / Signature() rejected the list: nothing of the list is kept
            sel.append((c, o))
            wires.append(enc(cc.enc_def(defs[0])))
        outs = self.model('sig_ir', wires)
        res: List[Violation] = []
        for (c, o), w in zip(sel, outs):
            m = dec(w)
            got = [cc.norm(o['annot_items']), cc.norm(o['primary']['params'])]
            if m != got and len(res) < 5:
                res.append(Violation('correspondence', 'the translated source (Gen/SigCode.v interpreted by Model.SigIR) and '
                                     'pydoctor disagree on Function.annotations / the parameter list: the translator '
                                     'harness/gen/gen_c14_code.py or the interpreter is wrong about this code',
                                     case=c, expected=m, observed=got))
        self.stats['ir_leg_cases'] = len(sel)
        return res

    # -------------------------------------------------------------- shrinking: drop parameters while it still fails
    def shrink(self, case: Dict[str, Any], msg: str) -> Dict[str, Any]:
        lay = case.get('layout')
        if not lay or case['stream'] == 'exhaustive' or case['src'].count('def f(') != 1:
            return case
        ctx = 'method' if case['q'] == 'C.f' else 'func'
        params, ret = lay['params'], lay['ret']
        cur = case
        progress = True
        budget = 40
        while progress and budget > 0:
            progress = False
            for i in range(len(params)):
                cand = params[:i] + params[i + 1:]
                # keep positional defaults valid
                sd = False
                ok = True
                for p in cand:
                    if p[1] in (PO, POK):
                        if p[2] is None and sd:
                            ok = False
                        sd = sd or p[2] is not None
                if not ok:
                    continue
                c2 = make_case(cand, ret, ctx, stream=case['stream'])
                budget -= 1
                try:
                    o2 = lib.run_impl_worker('c14_sig.py', [{'t': 'def', 'src': c2['src'], 'q': c2['q']}])[0]
                except lib.ImplCrash:
                    continue
                if oracle(c2, o2) is not None and known_class(c2, o2) is None:
                    params, cur, progress = cand, c2, True
                    break
        return cur

    # -------------------------------------------------------------- Spec/SigStr.v against CPython (2.4)
    def spec_validation(self) -> List[Violation]:
        n = 1500 if self.tier == 'quick' else 20000
        rng = self.rng
        cases = []
        # every kind sequence of <= 3 parameters (valid or not), then random
        for k in range(0, 4):
            for kinds in itertools.product(range(5), repeat=k):
                for dm in itertools.product((0, 1), repeat=k):
                    ps = [[NAMES[i], kinds[i], ('D%d' % i) if dm[i] and kinds[i] not in (VAR, VKW) else None,
                           ('T%d' % i) if (i + k) % 2 else None] for i in range(k)]
                    cases.append((ps, 'R' if k % 2 else None))
        for _ in range(n):
            k = rng.randint(0, 7)
            kinds = [rng.randrange(5) for _ in range(k)]
            if rng.random() < 0.6:
                kinds.sort()
            names = [rng.choice(NAMES + ['f', 'g', 'h']) for _ in range(k)] if rng.random() < 0.2 else rng.sample(RNAMES, k)
            ps = [[names[i], kinds[i], ('D%d' % i) if rng.random() < 0.5 and kinds[i] not in (VAR, VKW) else None,
                   ('T%d' % i) if rng.random() < 0.5 else None] for i in range(k)]
            cases.append((ps, rng.choice([None, 'R'])))

        def e(s: Optional[str]) -> Any:
            return cc.opt(None if s is None else [3, s])
        wires = [enc([3, [[p[0], p[1], e(p[2]), e(p[3])] for p in ps], e(ret)]) for ps, ret in cases]
        outs = self.model('sig', wires)
        bad: List[Violation] = []
        E = inspect.Parameter.empty
        for (ps, ret), w in zip(cases, outs):
            m = dec(w)
            params = [inspect.Parameter(p[0], inspect._ParameterKind(p[1]),
                                        default=E if p[2] is None else _Marker(p[2]),
                                        annotation=E if p[3] is None else _Marker(p[3])) for p in ps]
            ra = inspect.Signature.empty if ret is None else _Marker(ret)
            try:
                inspect.Signature(params, return_annotation=ra)
                err = 0
            except ValueError as ex:
                msg = str(ex)
                err = 1 if msg.startswith('wrong parameter order') else 2 if msg.startswith('non-default') else \
                    3 if msg.startswith('duplicate') else 9
            what = None
            if err != m[0]:
                what = 'Signature() validation: CPython %d, Spec.SigStr.sig_validate %d' % (err, m[0])
            text = ''.join(chr(x) if isinstance(x, int) else ''.join(map(chr, x[0][1])) for x in m[1])
            if what is None and len(set(p[0] for p in ps)) == len(ps):
                real = str(inspect.Signature(params, return_annotation=ra, __validate_parameters__=False))
                if real != text:
                    what = 'Signature.__str__: CPython %r, Spec.SigStr.sig_str %r' % (real, text)
            if what is None:
                # the reader against CPython's parser
                try:
                    fd = ast.parse('def f' + text + ': pass').body[0]
                    a = fd.args
                    npos = len(a.posonlyargs) + len(a.args)
                    ds = [None] * (npos - len(a.defaults)) + list(a.defaults)
                    back = []
                    nm = lambda x: cc.opt(None if x is None else [3, x.id])
                    for i, x in enumerate(a.posonlyargs + a.args):
                        back.append([x.arg, PO if i < len(a.posonlyargs) else POK, nm(ds[i]), nm(x.annotation)])
                    if a.vararg:
                        back.append([a.vararg.arg, VAR, [], nm(a.vararg.annotation)])
                    for x, d in zip(a.kwonlyargs, a.kw_defaults):
                        back.append([x.arg, KW, nm(d), nm(x.annotation)])
                    if a.kwarg:
                        back.append([a.kwarg.arg, VKW, [], nm(a.kwarg.annotation)])
                    want = [[cc.norm(back), cc.norm(nm(fd.returns))]]
                except SyntaxError:
                    want = []
                if m[2] != want:
                    what = 'def grammar: CPython reads %r as %s, Spec.SigStr.read_sig gives %s' % (text, want, m[2])
            if what is not None and len(bad) < 5:
                bad.append(Violation('spec-validation', 'Spec/SigStr.v disagrees with CPython (defect of the check, not of '
                                     'pydoctor): ' + what, case={'params': ps, 'ret': ret}, found_input=False))
        self.stats['spec_validation_cases'] = len(cases)
        self.evaluations += len(cases)
        return bad

    # -------------------------------------------------------------- unstring_annotation
    def unstring_exprs(self) -> List[str]:
        base = ANNOTS + BAD_ANNOTS + ['"None"', 'None', "'int'", '"\'int\'"', '"\\"\'int\'\\""', 'f("x")', 'f(k="int")',
                                      '[int, "str"]', '("a", "b")', '"a" | "b"', 'X["Y"]["Z"]', 'Literal["a"]["b"]',
                                      'x.Literal["a"]', '"Literal"["a"]', '"x.Literal"["1 +"]', 'NotLiteral["1 +"]',
                                      'Literal[List["1 +"]]', 'List[Literal["1 +"]]', '"List[Literal[\'1 +\']]"',
                                      'b"bytes"', '1', '...', 'Annotated[int, "doc"]', 'x["a":"b"]', '-"a"', '*"a",',
                                      '{"k": "v"}', 'lambda: "x"', '"int" if "a" else "b"', '"[1"', '"(x"', '"yield"',
                                      '"x := 1"', '"(x := 1)"', '"#"', '"\\n"', '"a\\nb"', '"int,"', '"*a"', '"a,b"']
        out = []
        for s in base:
            try:
                ast.parse(s, mode='eval')
                out.append(s)
            except SyntaxError:
                pass
        n = 200 if self.tier == 'quick' else 4000
        atoms = ['int', '"int"', '"1 +"', 'Literal', 'x.Literal', '"Literal"', 'List', '"x.y"', "'\"q\"'", 'None', '"None"']
        for _ in range(n):
            def g(d: int) -> str:
                r = self.rng.random()
                if d == 0 or r < 0.3:
                    return self.rng.choice(atoms)
                if r < 0.6:
                    return '%s[%s]' % (g(d - 1), g(d - 1))
                if r < 0.7:
                    return '%s[%s, %s]' % (g(d - 1), g(d - 1), g(d - 1))
                if r < 0.8:
                    return '%s | %s' % (g(d - 1), g(d - 1))
                if r < 0.9:
                    return json.dumps(g(d - 1))
                return 'f(%s, k=%s)' % (g(d - 1), g(d - 1))
            out.append(g(3))
        return out

    def unstring_check(self) -> List[Violation]:
        exprs = self.unstring_exprs()
        impl = lib.run_impl_worker('c14_sig.py', [{'t': 'unstring', 'expr': s} for s in exprs], jobs=8)
        wires = [enc([1, cc.enc_expr(ast.parse(s, mode='eval').body)]) for s in exprs]
        outs = self.model('sig', wires)
        res: List[Violation] = []
        for s, o, w in zip(exprs, impl, outs):
            m = dec(w)
            got = ['err', o['err']] if 'err' in o else [o['reported'], cc.norm(o['expr'])]
            self.count('unstring_reported' if got[0] == 1 else 'unstring_ok')
            if got != m and len(res) < 5:
                res.append(Violation('correspondence', 'Model.Sig.unstring_annotation and astutils.unstring_annotation disagree',
                                     case={'t': 'unstring', 'expr': s}, expected=m, observed=got))
            # the property on one annotation: shown unquoted (or kept when it cannot be)
            msg = unstring_oracle(s, o)
            if msg and len(res) < 10:
                res.append(Violation('oracle', msg, case={'t': 'unstring', 'expr': s}, observed=o))
        self.stats['unstring_cases'] = len(exprs)
        self.evaluations += len(exprs)
        return res

    # -------------------------------------------------------------- Spec: how the parser stores defaults
    def to_ast_check(self, cases: List[Dict[str, Any]]) -> List[Violation]:
        sel = [c for c in cases if c.get('layout') and c['stream'] in ('exhaustive', 'random', 'corpus')
               and c['src'].count('def f(') == 1 and 'overload' not in c['src'][len(HEADER):]]
        if self.tier == 'quick':
            sel = sel[:1500] + sel[-200:]

        def e(s: Optional[str]) -> Any:
            return cc.opt(None if s is None else cc.enc_expr(ast.parse(s, mode='eval').body))
        wires, reals = [], []
        for c in sel:
            ps = c['layout']['params']
            sp = lambda p: [p[0], e(p[3]), e(p[2])]
            var = [p for p in ps if p[1] == VAR]
            vkw = [p for p in ps if p[1] == VKW]
            src = [[sp(p) for p in ps if p[1] == PO], [sp(p) for p in ps if p[1] == POK],
                   cc.opt([var[0][0], e(var[0][3])] if var else None), [sp(p) for p in ps if p[1] == KW],
                   cc.opt([vkw[0][0], e(vkw[0][3])] if vkw else None), e(c['layout']['ret'])]
            wires.append(enc([2, src]))
            fd = cc.find_defs(ast.parse(c['src']), c['q'])[0]
            reals.append([cc.norm([cc.enc_expr(d) for d in fd.args.defaults]),
                          cc.norm([cc.opt(None if d is None else cc.enc_expr(d)) for d in fd.args.kw_defaults])])
        outs = self.model('sig', wires)
        res = []
        for c, w, r in zip(sel, outs, reals):
            m = dec(w)
            if [m[0], m[1]] != r or m[3] != 1:
                if len(res) < 3:
                    res.append(Violation('spec-validation', 'Spec.SigStr.src_defaults/src_kw_defaults disagree with what ast.parse '
                                         'stores (defect of the check)', case=c, expected=r, observed=m[:2], found_input=False))
        self.stats['to_ast_cases'] = len(sel)
        return res

    def vm_crosscheck(self, cases: List[Dict[str, Any]]) -> List[Violation]:
        sel = [c for c in cases[::max(1, len(cases) // 150)]][:150]
        ins = [model_input(c) for c in sel]
        wires = [enc(x) for x in ins if x is not None]
        a = self.model('sig', wires)
        b = lib.run_model_vm('Model.Sig', wires)
        self.stats['vm_crosschecked'] = len(wires)
        if [dec(x) for x in a] != [dec(x) for x in b]:
            return [Violation('correspondence', 'extracted OCaml and vm_compute disagree on Model.Sig.run', found_input=False)]
        return []

    # -------------------------------------------------------------- search / known / replay
    def search(self, broken: List[Violation]) -> List[Violation]:
        cases = []
        for b in broken:
            if isinstance(b.case, dict) and b.case.get('t') == 'def':
                cases.append(b.case)
        if self.tier == 'quick':
            self.rng.seed(self.seed + 1)
            cases += self.cases('thorough')[:]
            cases = cases[:len(layouts(4)) + 3000]
        else:
            self.rng.seed(self.seed + 1)
            cases += self.cases('thorough')
        impl, _ = self.run_cases(cases, with_model=False)
        out = []
        for c, o in zip(cases, impl):
            msg = oracle(c, o)
            if msg:
                if known_class(c, o) is not None:
                    continue     # a known rendering; reported by correspondence()
                out.append(Violation('oracle', msg, case=self.shrink(c, msg) if len(out) < 2 else c,
                                     observed={'found': o.get('found'), 'shown': o.get('shown'), 'err': o.get('err')}))
                if len(out) >= 5:
                    break
        return out

    def classify_known(self, v: Violation, known: List[dict]) -> Optional[dict]:
        """A known finding is recognised only when the displayed definitions read back exactly as the written ones
        once that rendering of an expression is identified -- everything else about the signature must be right."""
        if v.kind != 'oracle' or not isinstance(v.case, dict) or v.case.get('t') != 'def':
            return None
        obs = v.observed
        if not isinstance(obs, dict) or not obs.get('found') or obs.get('shown') is None:
            return None
        kc = known_class(v.case, obs)
        if kc is None:
            return None
        for k in known:
            if k.get('match', {}).get('class') == kc:
                return k
        return None

    def replay(self, data: Any) -> int:
        case = data['input']
        if not isinstance(case, dict) or case.get('t') not in ('def', 'unstring'):
            print('nothing to replay: %s' % data.get('what'))
            return 1
        if case['t'] == 'unstring':
            o = lib.run_impl_worker('c14_sig.py', [case])[0]
            msg = unstring_oracle(case['expr'], o)
            print('annotation :', case['expr'])
            print('pydoctor   :', o)
            print('property   :', msg or 'holds')
            return 1 if msg else 0
        o = lib.run_impl_worker('c14_sig.py', [{'t': 'def', 'src': case['src'], 'q': case['q']}])[0]
        msg = oracle(case, o)
        print('source:\n' + case['src'])
        print('displayed by pydoctor for %s: %s' % (case['q'], o.get('shown', o)))
        print('reports:', o.get('reports'))
        print('property:', msg or 'holds on this input (displayed definitions read back as the written ones)')
        rc = 1 if msg else 0
        if data.get('kind') == 'correspondence':
            b, out = lib.build_model(self.id + '_sig', self.models['sig'])
            mi = model_input(case)
            if b is not None and mi is not None:
                self.binaries['sig'] = b
                v = self.compare(case, o, self.model('sig', [enc(mi)])[0])
                if v is not None:
                    print('model/implementation:', v.what)
                    print('  Model.Sig :', json.dumps(v.expected)[:1500])
                    print('  pydoctor  :', json.dumps(v.observed)[:1500])
                    rc = 1
                else:
                    print('model/implementation: agree on this input')
        return rc
