"""C20 -- options mean the same on the command line and in a config file; what is written quoted is read back.

Correspondence (model vs /repo, same inputs):
  quote    : Model.Quote (is_quoted alternatives, unquote_str) vs _configparser.is_quoted / unquote_str / the two regexes
  ini/toml : Model.IniValue / Model.TomlValue on the tokeniser's view vs IniConfigParser.parse / TomlConfigParser.parse
  validate : Model.Validator vs ValidatorParser.parse
  ns       : Model.Options.pydoctor_parse_args vs options.parse_args() in a scratch cwd holding the files
Spec validation (Spec vs the running CPython): py_str_literal_eval, py_list_literal_eval, py_repr, dq_quote*.
Oracle (the property, on the real code only):
  * what a quoting function wrote into an INI value is read back as the same text (Options.from_args);
  * for every option of the live parser x values x {pyproject.toml, setup.cfg, pydoctor.ini}:
    Options.from_args(file) == Options.from_args(cli equivalent), command line overrides, repeated options
    accumulate in order, an unknown key gives exactly one warning and changes nothing.
"""
from __future__ import annotations
import itertools
import json
import re
from typing import Any, Dict, List, Optional, Tuple
import lib
from lib import PropertyCheck, Violation, enc, dec, txt

ALPHA = ['a', "'", '"', '\\', '\n', ' ', '#', '[', ']', '=']
EXTRA = ['\r', '\t', '\0', '\x7f', '\x85', '\u2028', '\xe9', '\ud800', '\U0001F600', 'x', 'u', 'U', 'N', '{', '}',
         '0', '1', '7', '8', '9', 'f', 'G', '%', '\x0c', ',', 'n']
SECTIONS = ['tool.pydoctor', 'tool:pydoctor', 'pydoctor']
WORKER = 'c20_options.py'


# ----------------------------------------------------------------------------- quoting functions (mirror Spec/PyStrLit.v)
def dq_quote(s: str) -> str:
    return '"' + ''.join({'\\': '\\\\', '"': '\\"', '\n': '\\n'}.get(c, c) for c in s) + '"'


def dq_quote_full(s: str) -> str:
    out = []
    for c in s:
        o = ord(c)
        if c == '\\':
            out.append('\\\\')
        elif c == '"':
            out.append('\\"')
        elif c == '\n':
            out.append('\\n')
        elif c == '\r':
            out.append('\\r')
        elif o == 0:
            out.append('\\x00')
        elif 0xD800 <= o <= 0xDFFF:
            out.append('\\u%04x' % o)
        else:
            out.append(c)
    return '"' + ''.join(out) + '"'


def strings_upto(alpha: List[str], n: int) -> List[str]:
    out = []
    for k in range(n + 1):
        for t in itertools.product(alpha, repeat=k):
            out.append(''.join(t))
    return out


def near_misses(q: str) -> List[str]:
    """texts close to a quoted form q"""
    out = [q[:-1], q[1:], q + q[-1], q + ' ', q + '\n', ' ' + q, q + '\n\n', q[:-1] + '\\' + q[-1], q[0] + q, q + 'a']
    other = '"' if q[0] == "'" else "'"
    out.append(other + q[1:])
    out.append(q[:-1] + other)
    out.append(q[0] * 2 + q + q[0] * 2)          # triple-quoted
    out.append(q[0] * 2 + q[:-1] + '\n' + q[0] * 3)
    return out


# ----------------------------------------------------------------------------- file writers
def toml_str(s: str) -> str:
    out = []
    for c in s:
        o = ord(c)
        if c == '\\':
            out.append('\\\\')
        elif c == '"':
            out.append('\\"')
        elif c == '\n':
            out.append('\\n')
        elif c == '\r':
            out.append('\\r')
        elif c == '\t':
            out.append('\\t')
        elif o < 0x20 or o == 0x7f:
            out.append('\\u%04x' % o)
        else:
            out.append(c)
    return '"' + ''.join(out) + '"'


def toml_value(v: Any) -> str:
    if isinstance(v, bool):
        return 'true' if v else 'false'
    if isinstance(v, int):
        return str(v)
    if isinstance(v, str):
        return toml_str(v)
    if isinstance(v, list):
        return '[' + ', '.join(toml_value(x) for x in v) + ']'
    raise TypeError(v)


def plain_safe(v: str) -> bool:
    """may be written without quotes in an INI file (the guard of C20_unquoted_identity_syntactic + configparser's strip)"""
    return (v != '' and v == v.strip() and v[0] not in '\'"' and not (v[0] == '[' and v[-1] == ']')
            and '\n' not in v and '\r' not in v and all(c.isprintable() for c in v))


def ini_escape(v: str) -> str:
    return v.replace('%', '%%')          # configparser's BasicInterpolation: %% is a literal %


def triple_safe(v: str) -> bool:
    """a text with real newlines that can be written as a triple-quoted value over several (indented) lines of an INI
    file and come back unchanged: configparser strips every continuation line and drops comment lines"""
    lines = v.split('\n')
    return (len(lines) >= 2 and all(l != '' and l == l.strip() and l[0] not in '#;' for l in lines)
            and all(c.isalnum() or c in ' #=[]:/.-_,;' for l in lines for c in l))


def ini_str(v: str, style: str) -> str:
    """style: 'plain' (falls back to repr when not safe) | 'repr' | 'dq' | 'triple' / 'triple2' (multi-line, falls back to repr)"""
    if style in ('triple', 'triple2') and triple_safe(v):
        q3 = "'''" if style == 'triple' else '"""'
        return q3 + ini_escape(v).replace('\n', '\n    ') + q3
    if style == 'plain' and plain_safe(v):
        return ini_escape(v)
    if style == 'dq':
        return ini_escape(dq_quote_full(v))
    return ini_escape(repr(v))


def ini_value_text(v: Any, style: str) -> str:
    if isinstance(v, bool):
        return 'true' if v else 'false'
    if isinstance(v, int):
        return str(v)
    if isinstance(v, str):
        return ini_str(v, style)
    if isinstance(v, list):
        # one item per continuation line -- but a line that starts with # or ; is a COMMENT for configparser (full-line
        # comment prefixes; inline comments are off in IniConfigParser's ConfigParser()), so such items need the list form
        if style == 'plain' and len(v) >= 1 and all(plain_safe(x) and x[0] not in '#;' for x in v):
            return ''.join('\n    ' + ini_escape(x) for x in v)
        return '[' + ', '.join(ini_escape(repr(x)) for x in v) + ']'
    raise TypeError(v)


FORMATS = {
    # name -> (file name, section header, kind)
    'pyproject.toml': ('pyproject.toml', '[tool.pydoctor]', 'toml'),
    'setup.cfg': ('setup.cfg', '[tool:pydoctor]', 'ini'),
    'pydoctor.ini': ('pydoctor.ini', '[pydoctor]', 'ini'),
    'pydoctor.ini;': ('pydoctor.ini', '; ini\n[pydoctor]', 'ini'),     # the same, certainly not valid TOML
}


def file_text(fmt: str, items: List[Tuple[str, Any]], style: str = 'plain') -> str:
    fname, header, kind = FORMATS[fmt]
    lines = [header]
    for k, v in items:
        if kind == 'toml':
            lines.append('%s = %s' % (k, toml_value(v)))
        else:
            lines.append('%s = %s' % (k, ini_value_text(v, style)))
    return '\n'.join(lines) + '\n'


# ----------------------------------------------------------------------------- option table of the live parser
def _split_top(s: str, sep: str = ';') -> List[str]:
    out, depth, cur = [], 0, ''
    for ch in s:
        if ch == '[' or ch == '(':
            depth += 1
        elif ch == ']' or ch == ')':
            depth -= 1
        if ch == sep and depth == 0:
            out.append(cur)
            cur = ''
        else:
            cur += ch
    if cur.strip():
        out.append(cur)
    return out


def _coq_text(s: str) -> str:
    s = s.strip()
    assert s.startswith('[') and s.endswith(']'), s
    return ''.join(chr(int(n)) for n in re.findall(r'\d+', s))


def _coq_texts(s: str) -> List[str]:
    s = s.strip()
    assert s.startswith('[') and s.endswith(']'), s
    return [_coq_text(x) for x in _split_top(s[1:-1])]


def load_table() -> List[dict]:
    """Reads Gen/TablesC20.v (regenerated from /repo at the start of the run) -- the same table the theorems use."""
    src = (lib.THEORIES / 'Gen' / 'TablesC20.v').read_text()
    src = re.sub(r'\(\*.*?\*\)', '', src, flags=re.S)
    src = src[src.index('Definition option_table'):]
    src = src[:src.index('\n].')]
    rows = []
    for m in re.finditer(r'\{\|(.*?)\|\}', src, flags=re.S):
        f = {}
        for part in _split_top(m.group(1)):
            k, v = part.split(':=', 1)
            f[k.strip()] = v.strip()
        rows.append({
            'dest': _coq_text(f['o_dest']), 'strings': _coq_texts(f['o_strings']), 'kind': f['o_kind'],
            'type': f['o_type'], 'choices': _coq_texts(f['o_choices']), 'default': f['o_default'],
            'keys': _coq_texts(f['o_keys']), 'is_config_file': f['o_is_config_file'] == 'true'})
    if len(rows) < 10:
        raise RuntimeError('could not read the option table back from Gen/TablesC20.v')
    return rows


STR_VALUES = ['x', 'a b', '\xe9t\xe9', ' lead', 'trail ', '', '#x', 'a=b', '[x', 'x]', 'a;b', '[x]', '[', "it's", 'say "hi"',
              'a\\b', 'a\\nb', '"q"', "'q'", '-x', '--verbose', 'a\nb', 'true', '1', 'None', '${x}', 'a,b', 'C:\\dir\\n',
              '1.10', 'a%b', "'", '"""', 'tab\there']
INT_VALUES = ['0', '5', '3', '-3', '007', 'x', '1.5', '+2']
PRIVACY_VALUES = ['HIDDEN:a', 'public:b*', ' private : c ', 'bogus:x', 'a:b:c', 'nocolon', 'PRIVATE:m.*']
PATH_VALUES = ['src', './src', '/abs/dir', '../up', 'a b']
CLASS_VALUES = {'systemclass': ['pydoctor.model.System', 'pydoctor.zopeinterface.ZopeInterfaceSystem', 'nodot',
                                'no.such.Module', 'pydoctor.model.Class'],
                'htmlwriter': ['pydoctor.templatewriter.TemplateWriter', 'pydoctor.templatewriter.IWriter', 'nodot',
                               'pydoctor.model.System']}
URL_VALUES = ['https://github.com/x/y', 'https://sourceforge.net/p/x', 'http://bitbucket.org/x/y', 'git://x']
FLAG_WORDS = ['true', 'false', 'yes', 'no', 'on', 'off', '1', '0', 'True', 'FALSE', 'maybe', '2']
COUNT_WORDS = ['0', '1', '2', '3', 'true', 'false', 'yes']


def values_for(o: dict, tier: str) -> List[Any]:
    """representative and adversarial values of one option, as Python values (str / list of str)"""
    d, k = o['dest'], o['kind']
    if k == 'KStore':
        if o['type'] == 'TyInt':
            return INT_VALUES if tier == 'thorough' else INT_VALUES[:6]
        if o['choices']:
            return o['choices'] + ['bogus', o['choices'][0].upper()]
        if d in CLASS_VALUES:
            return CLASS_VALUES[d]
        if d == 'projectbasedirectory':
            return PATH_VALUES
        if d == 'htmlsourcebase':
            return URL_VALUES
        vals = STR_VALUES if tier == 'thorough' or d in ('projectname', 'htmloutput') else STR_VALUES[:14]
        return vals
    if k == 'KAppend':
        if d == 'privacy':
            base = PRIVACY_VALUES
        elif d in ('templatedir', 'packages'):
            base = PATH_VALUES
        else:
            base = ['x', 'a b', 'http://h/objects.inv', "it's", 'a,b', '', 'a\\b', '#c', '[x]']
        out: List[Any] = [[], [base[0]], base[:2], [base[1], base[0]], [base[0], base[0]], base[:4], base[0]]
        if tier == 'thorough':
            out += [[b] for b in base[1:]] + [base]
        return out
    return []


class Check(PropertyCheck):
    id = 'C20'
    props_module = 'Props.C20'
    models = {'quote': 'XQuote.v'}
    needs_gen = True
    gen_modules = ['gen_c20', 'gen_c20_code']
    rule = ('quote: every text of length <= N over {a \' " \\ LF space # [ ] =} raw and in every quoted form + near-misses '
            '(non-trivial = contains a quote or backslash); options: every option of the live parser x its value set x '
            '{pyproject.toml, setup.cfg, pydoctor.ini} (non-trivial = the value is not the default); distinct by construction')
    trusted_base = [
        'Coq 8.16.1 kernel (coqc; vm_compute for table facts and witnesses; no native_compute)',
        'no axioms (Print Assumptions: Closed under the global context for every theorem)',
        'translator A harness/gen/gen_c20.py (option table, both regexes via re._parser, section names) -- fail-closed',
        'translator harness/gen/gen_c20_code.py: the bodies of is_quoted, unquote_str and the item loop of IniConfigParser.parse, '
        'statement by statement into the language of Model/IniIR.v (fail-closed); primitives of that language (stated in '
        'IniIR.v): regex membership, ast.literal_eval = Spec.PyListLit/PyStrLit, one-character str methods, the two '
        'comprehension shapes, isinstance, class-based except matching; exception messages are not translated; the two '
        'loop headers and the read_string prologue are pinned shapes; AST normalisation before translation: inlining of '
        'same-module / same-class helpers, try/except/else via a fresh flag, bare R.match(x) in boolean position',
        'extraction: ExtrOcamlBasic only; OCaml 4.13.1; coq/ocaml/driver.ml',
        'correspondence harness harness/c20.py + harness/impl/c20_options.py',
        'specs of external behaviour, validated against the running CPython on the same enumerations: '
        'Spec/PyStrLit.v (string literals, repr), Spec/PyListLit.v (list displays of strings/ints)',
        'modelled not verified (oracles, exercised end to end): configargparse (Model/Merge.v is its contract for '
        'exact option strings, --opt=value tokens, no positionals), argparse, toml.load, configparser tokenisation, '
        'str.lower beyond ASCII, int() beyond [+-]digits, the typed container conversions of Options.from_namespace',
    ]
    manifest = {
        'text': ('The source of is_quoted, unquote_str and the item loop of IniConfigParser.parse is translated on every run into a '
                 'deep-embedded language and proved equal to the hand model for all inputs (C20_code_*_is_model), so the '
                 'theorems below are about the code as it is now. Theorems (unbounded): _QUOTED_STR_REGEX as regenerated from the source is exactly the recogniser '
                 'q(\\\\.|[^q\\\\])*q (C20_quoted_regex_is_recogniser); repr(s) and the double-quote quoting function are '
                 'recognised and unquote_str returns s for every Python str (C20_quote_roundtrip), also through '
                 'IniConfigParser\'s decision tree (C20_ini_quoted_roundtrip); accepted-but-not-a-literal classes stated '
                 'exactly (C20_is_quoted_sound_partial); plain values verbatim (C20_unquoted_identity); unknown-key filter '
                 '(C20_validator); file = command line, override, accumulation under the stated configargparse contract, '
                 'and through the whole modelled pipeline for every option of the regenerated table '
                 '(C20_file_equals_cli, C20_pipeline_*); section lookup. Tie: exhaustive model/implementation comparison '
                 'on all texts <= 4 (quick) / <= 5 (thorough) over the quoting alphabet, every option x value set x three '
                 'file formats end to end against Options.from_args.'),
        'note': ('Trusted: Coq kernel, extraction + OCaml driver, the Python harness, translator gen_c20.py. Third-party '
                 'configargparse/argparse/toml/configparser are oracles with a stated contract, exercised end to end. '
                 'Known finding: an INI-named file that happens to be valid TOML is read with TOML semantics.'),
        'technique': 'Coq proof (regex derivatives, induction on texts) + exhaustive and end-to-end correspondence',
    }
    assumptions = ['command lines use exact option strings (argparse abbreviations and combined short flags such as -vv are '
                   'outside the merge model; configargparse does not see them as "already on the command line")',
                   'INI values are written with %% for a literal % (configparser interpolation)',
                   '`config`, `help`, `version` are not settable from a file (configargparse passes --help=true: exit 2)']


    # ------------------------------------------------------------------ corpus: fixed cases, run first
    def stage_corpus(self, out: List[Violation]) -> None:
        """Deterministic end-to-end cases (independent of the seed), one group per class of past failure."""
        cases: List[dict] = []
        ini_fmts = ('setup.cfg', 'pydoctor.ini;')
        # (1) a text with a real newline, written triple-quoted over several lines (the syntax IniConfigParser documents)
        texts = ['My Project\nAPI reference', 'a\nb\nc', 'one two\nthree = four']
        for o in self.table:
            if o['kind'] not in ('KStore', 'KAppend') or o['type'] != 'TyStr' or o['choices'] or o['is_config_file'] \
                    or o['dest'] in CLASS_VALUES or not o['keys']:
                continue
            opt = [x for x in o['strings'] if x.startswith('--')][0]
            for ti, t in enumerate(texts if o['dest'] in ('projectname', 'intersphinx', 'htmlsubjects') else texts[:1]):
                for fmt in ini_fmts:
                    for st in ('triple', 'triple2'):
                        cases.append({'k': 'e2e_option', 'opt': o['dest'], 'key': o['keys'][0], 'fmt': fmt, 'style': st,
                                      'value': t, 'cli': ['%s=%s' % (opt, t)], 'override': None,
                                      'text': '%s\n%s = %s\n' % (FORMATS[fmt][1], o['keys'][0], ini_str(t, st))})
            # closing quotes on a line of their own: the text ends with a newline
            if o['dest'] == 'projectname':
                for fmt in ini_fmts:
                    cases.append({'k': 'e2e_option', 'opt': o['dest'], 'key': o['keys'][0], 'fmt': fmt, 'style': 'triple',
                                  'value': 'a\nb\n', 'cli': ['%s=a\nb\n' % opt], 'override': None,
                                  'text': "%s\n%s = '''a\n    b\n    '''\n" % (FORMATS[fmt][1], o['keys'][0])})
        # (2) repeatable options in the one-value-per-line style with ONE, two and three values
        for o in self.table:
            if o['kind'] != 'KAppend':
                continue
            opt = o['strings'][0]
            items = ['HIDDEN:a', 'PUBLIC:b.*', 'PRIVATE:c'] if o['dest'] == 'privacy' else \
                ['https://docs.python.org/3/objects.inv', 'second item', 'third']
            for n in (1, 2, 3):
                for fmt in ini_fmts + ('pydoctor.ini',):
                    for key in o['keys'][:1] if n > 1 else o['keys']:
                        cases.append({'k': 'e2e_option', 'opt': o['dest'], 'key': key, 'fmt': fmt, 'style': 'plain',
                                      'value': items[:n], 'cli': ['%s=%s' % (opt, x) for x in items[:n]], 'override': None,
                                      'text': '%s\n%s =%s\n' % (FORMATS[fmt][1], key, ''.join('\n    ' + x for x in items[:n]))})
        # (3) items that would read as comment lines in the one-per-line style are written as a list display
        for o in self.table:
            if o['kind'] != 'KAppend' or o['dest'] == 'privacy':
                continue
            opt = o['strings'][0]
            for items in (['#c'], ['a', ';b'], ['# x', 'y']):
                for fmt in ini_fmts:
                    txt_ = file_text(fmt, [(o['keys'][0], items)], 'plain')
                    assert '\n    #' not in txt_ and '\n    ;' not in txt_, txt_
                    cases.append({'k': 'e2e_option', 'opt': o['dest'], 'key': o['keys'][0], 'fmt': fmt, 'style': 'plain',
                                  'value': items, 'cli': ['%s=%s' % (opt, x) for x in items], 'override': None, 'text': txt_})
        payloads = [self.e2e_payload(dict(c, k='e2e')) for c in cases]
        impl = lib.run_impl_worker(WORKER, payloads, jobs=8, timeout=3000)
        self.evaluations += 2 * len(cases)
        for c, p, r in zip(cases, payloads, impl):
            fails = self.judge_e2e(c, r)
            fr = r['runs'][0]
            if fr['opts'] is not None and isinstance(c['value'], str) and c['opt'] == 'projectname' \
                    and fr['opts']['projectname'] != c['value']:
                fails.append('read back %r, written %r' % (fr['opts']['projectname'], c['value']))
            if fails:
                fname = FORMATS[c['fmt']][0]
                out.append(Violation('oracle', ('corpus, option %s, %s (%s): ' % (c['opt'], c['fmt'], c['style']))
                                     + '; '.join(fails)[:700], case=dict(c),
                                     observed={'file_text': p['files'][fname], 'file_run': _brief(fr),
                                               'cli_run': _brief(r['nofile_runs'][0])}))
        self.stats['corpus_cases'] = len(cases)
        self.sample({'stage': 'corpus', 'file': payloads[0]['files'], 'cli': cases[0]['cli']})

    # ------------------------------------------------------------------ stage 0: several config files at once; histories
    MF_FILES = {
        'pyproject.toml': [
            ('[build-system]\nrequires = ["setuptools"]\n\n[tool.pydoctor]\n'
             'project-name = "Demo"  # shown at the top of every page\n'
             "html-output = 'build\\tmp\\apidocs'\n"
             'privacy = [\n  "HIDDEN:demo.test",   # the tests\n  "PRIVATE:demo.impl",\n]\n',
             [('projectname', ['--project-name=Demo']), ('htmloutput', ['--html-output=build\\tmp\\apidocs']),
              ('privacy', ['--privacy=HIDDEN:demo.test', '--privacy=PRIVATE:demo.impl'])]),
            ('[tool.pydoctor]\ndocformat = "google" # the format\n'
             "project-url = 'C:\\new\\table'\n"
             'intersphinx = ["http://a/objects.inv",\n"http://b/objects.inv"]\n'
             'verbose = 2\nwarnings-as-errors = true # yes\n',
             [('docformat', ['--docformat=google']), ('projecturl', ['--project-url=C:\\new\\table']),
              ('intersphinx', ['--intersphinx=http://a/objects.inv', '--intersphinx=http://b/objects.inv']),
              ('verbosity', ['--verbose', '--verbose']), ('warnings_as_errors', ['--warnings-as-errors'])]),
        ],
        'setup.cfg': [
            ('[metadata]\nname = demo\n\n[tool:pydoctor]\ndocformat = restructuredtext\n',
             [('docformat', ['--docformat=restructuredtext'])]),
            ('[tool:pydoctor]\n; a comment\nproject-name = From Setup\nprivacy =\n    HIDDEN:s.test\nquiet = 1\n',
             [('projectname', ['--project-name=From Setup']), ('privacy', ['--privacy=HIDDEN:s.test']),
              ('quietness', ['--quiet'])]),
        ],
        'pydoctor.ini': [
            ('; ini\n[pydoctor]\ntheme = readthedocs\nproject-version = 1.2.3\n',
             [('theme', ['--theme=readthedocs']), ('projectversion', ['--project-version=1.2.3'])]),
            ('[pydoctor]\nproject-name = From Ini\nhtml-output = out dir\n',
             [('projectname', ['--project-name=From Ini']), ('htmloutput', ['--html-output=out dir'])]),
        ],
    }
    DOCUMENTED = ['pydoctor.ini', 'pyproject.toml', 'setup.cfg']     # docs/source/help.rst: ini > pyproject > setup.cfg
    AS_CODED = ['pydoctor.ini', 'setup.cfg', 'pyproject.toml']       # reversed(DEFAULT_CONFIG_FILES)

    def mf_dirs(self) -> List[dict]:
        out = []
        names = ['pyproject.toml', 'setup.cfg', 'pydoctor.ini']
        for pick in itertools.product([None, 0, 1], repeat=3):
            if all(x is None for x in pick):
                continue
            files, sets = {}, {}
            for n, x in zip(names, pick):
                if x is not None:
                    files[n] = self.MF_FILES[n][x][0]
                    sets[n] = self.MF_FILES[n][x][1]

            def merged(order: List[str]) -> List[str]:
                seen, cli = set(), []
                for n in order:
                    for dest, args in sets.get(n, []):
                        if dest not in seen:
                            seen.add(dest)
                            cli += args
                return cli
            out.append({'k': 'e2e_multifile', 'pick': list(pick), 'files': files, 'cli': merged(self.DOCUMENTED),
                        'cli_as_coded': merged(self.AS_CODED)})
        return out

    @staticmethod
    def outcome_key(o: dict) -> Any:
        return [o['exit'], bool(o['exc']), o['opts'], o['warnings']]

    def stage_multifile(self, out: List[Violation]) -> None:
        dirs = self.mf_dirs()
        payload = [{'k': 'e2e', 'isolate': True, 'files': d['files'], 'runs': [[]],
                    'nofile_runs': [d['cli'], d['cli_as_coded']]} for d in dirs]
        # histories: every ordered pair of a fixed set of directories, and some longer ones, each in ONE process
        base = [d for d in dirs if sum(x is not None for x in d['pick']) == 1] + \
               [d for d in dirs if d['pick'] in ([0, 0, None], [1, 1, 1], [0, None, 0])]
        seqs = [[a, b] for a in base for b in base if a is not b]
        for _ in range(20 if self.tier == 'quick' else 400):
            seqs.append([self.rng.choice(dirs) for _ in range(self.rng.randint(3, 5))])
        payload += [{'k': 'seq', 'fn': 'e2e', 'steps': [{'files': d['files'], 'argv': []} for d in sq]} for sq in seqs]
        # the pipeline model on the same directories (raw namespace)
        payload += [{'k': 'ns', 'isolate': True, 'files': d['files'], 'runs': [[]], 'nofile_runs': []} for d in dirs]
        impl = lib.run_impl_worker(WORKER, payload, jobs=8, timeout=3000)
        self.evaluations += len(dirs) * 4 + sum(len(sq) for sq in seqs)
        alone: Dict[str, Any] = {}
        for d, r in zip(dirs, impl):
            alone[json.dumps(d['pick'])] = self.outcome_key(r['runs'][0])
            f = self.same_outcome(r['runs'][0], r['nofile_runs'][0])
            if f:
                cc = {'k': 'e2e_multifile', 'pick': d['pick']}
                if not self.same_outcome(r['runs'][0], r['nofile_runs'][1]) and 'setup.cfg' in d['files'] \
                        and 'pyproject.toml' in d['files']:
                    cc['class'] = 'setup_cfg_overrides_pyproject_toml'
                out.append(Violation('oracle', 'several config files %s vs the command line built with the documented precedence: %s'
                                     % (sorted(d['files']), f), case=cc,
                                     observed={'files': d['files'], 'cli': d['cli'], 'file_run': _brief(r['runs'][0]),
                                               'cli_run': _brief(r['nofile_runs'][0])}))
        nseq_bad = 0
        for sq, r in zip(seqs, impl[len(dirs):len(dirs) + len(seqs)]):
            for i, (d, o) in enumerate(zip(sq, r['steps'])):
                if self.outcome_key(o) != alone[json.dumps(d['pick'])]:
                    nseq_bad += 1
                    if nseq_bad <= 10:
                        out.append(Violation('oracle', 'history dependence: the options read from directory %s differ when %d other '
                                             'director%s parsed before it in the same process'
                                             % (sorted(d['files']), i, 'y was' if i == 1 else 'ies were'),
                                             case={'k': 'e2e_history', 'picks': [x['pick'] for x in sq[:i + 1]]},
                                             observed={'in_sequence': _brief(o), 'files_before': [sorted(x['files']) for x in sq[:i]],
                                                       'files': d['files']}))
                    break
        mod_in = []
        ns_impl = impl[len(dirs) + len(seqs):]
        for d, r in zip(dirs, ns_impl):
            fv = []
            for name in self.AS_CODED:
                if name in d['files']:
                    v = r['views'][name]
                    fv.append([[v['toml']] if v['toml'] is not None else [], [v['ini']] if v['ini'] is not None else []])
            mod_in.append(enc([8, fv, []]))
        for d, r, m in zip(dirs, ns_impl, self.model('quote', mod_in)):
            mm = dec(m)
            got = r['runs'][0]
            if mm[0] != 0:
                continue
            want = dict((txt(k), _nsval(v)) for k, v in mm[1])
            g = dict(got['opts'] or {})
            g.pop('sourcepath', None)
            g = dict((k, ('sentinel' if isinstance(v, list) and v[:1] == ['object'] else v)) for k, v in g.items())
            if g != want:
                out.append(Violation('correspondence', 'Model.Options.pydoctor_parse_args and options.parse_args disagree on a '
                                     'directory with several config files', case={'k': 'ns', 'isolate': True, 'files': d['files'],
                                                                                  'runs': [[]], 'nofile_runs': []},
                                     expected=want, observed=_brief(got, full=True)))
        self.stats['multifile_dirs'] = len(dirs)
        self.stats['history_sequences'] = len(seqs)
        self.sample({'stage': 'multifile', 'files': dirs[-1]['files'], 'cli': dirs[-1]['cli']})

    # ------------------------------------------------------------------ stage 1: quoting
    def quote_texts(self) -> Tuple[List[str], List[str]]:
        """(all texts to compare model/impl on, the subjects s whose quoted forms are in there)"""
        n_raw = 4 if self.tier == 'quick' else 5
        n_q = 3 if self.tier == 'quick' else 4
        subjects = strings_upto(ALPHA, n_q)
        self.stats['quote_alphabet'] = ''.join(ALPHA)
        self.stats['quote_raw_len'] = n_raw
        self.stats['quote_quoted_len'] = n_q
        nrand = 1500 if self.tier == 'quick' else 50000
        pool = ALPHA + EXTRA
        for _ in range(nrand):
            k = self.rng.randint(1, 8)
            subjects.append(''.join(self.rng.choice(pool) for _ in range(k)))
        self.stats['quote_random_subjects'] = nrand
        texts = set(strings_upto(ALPHA, n_raw))
        nm_budget = 4000 if self.tier == 'quick' else 30000
        for i, s in enumerate(subjects):
            forms = [repr(s), dq_quote(s), dq_quote_full(s)]
            texts.update(forms)
            if i < nm_budget:
                texts.add("'''" + s + "'''")
                texts.add('"""' + s + '"""')
                for f in forms[:2]:
                    texts.update(near_misses(f))
        # escapes the quoting functions never emit
        for e in ['\\x4', '\\x4g', '\\xAf', '\\u12', '\\u12aF', '\\U0010ffff', '\\U00110000', '\\U0000004', '\\N{DASH}',
                  '\\N{EM DASH}', '\\N', '\\1', '\\18', '\\777', '\\0', '\\8', '\\a\\b\\f\\v', '\\z', '\\\n', '\\\r', '\\\r\n',
                  '\\x', '\\u', '\\U', '\\', '\\\\', "\\'", '\\"', 'a\rb', 'a\r\nb', '\\ud800', '\\xe9\xe9']:
            for q in ("'", '"', "'''", '"""'):
                texts.add(q + e + q)
                texts.add(q + 'a' + e + 'b' + q)
        return sorted(texts), subjects

    def stage_quote(self, out: List[Violation]) -> None:
        texts, subjects = self.quote_texts()
        cases = [{'k': 'quote', 't': t, 'triple': True} for t in texts]
        extra = [{'k': 'quote', 't': t, 'triple': False} for t in texts[::7]]
        cases += extra
        impl = lib.run_impl_worker(WORKER, cases, jobs=16)
        mod = self.model('quote', [enc([0, c['t'], c['triple']]) for c in cases])
        self.evaluations += len(cases)
        idx: Dict[str, Any] = {}
        nt = 0
        for c, r, m in zip(cases, impl, mod):
            mm = dec(m)
            t = c['t']
            if c['triple']:
                idx[t] = r
            if any(ch in t for ch in '\'"\\'):
                nt += 1
            self.count('quote_accept_%d%d%d' % (r['dq'], r['sq'], r['tre']))
            want = {'dq': bool(mm[0]), 'sq': bool(mm[1]), 'tre': bool(mm[2]), 'isq': bool(mm[4])}
            got = {k: r[k] for k in want}
            if bool(mm[3]) != (bool(mm[0]) or bool(mm[1])):
                out.append(Violation('correspondence', 'model: quoted_re disagrees with its own recogniser', case=c))
            if want != got:
                out.append(Violation('correspondence', 'Model.Quote.is_quoted and _configparser.is_quoted / the regexes disagree',
                                     case=c, expected=want, observed=got))
                continue
            tag, val = mm[5][0], txt(mm[5][1])
            self.count('quote_unq_tag_%d' % tag)
            if tag == 2:
                continue
            if tag == 0 and r['unq'] != [0, val] or tag == 1 and r['unq'][0] != 1:
                out.append(Violation('correspondence', 'Model.Quote.unquote_str and _configparser.unquote_str disagree',
                                     case=c, expected=[tag, val], observed=r['unq']))
        # third leg: the TRANSLATED code (Gen/IniCode.v) interpreted by the extracted Model/IniIR.v, on a sample
        sub = cases[::5]
        irs = self.model('quote', [enc([11, c['t'], c['triple']]) for c in sub])
        imp = impl[::5]
        self.evaluations += len(sub)
        for c, r, m in zip(sub, imp, irs):
            mm = dec(m)
            ok = mm[0][0] == 0 and bool(mm[0][1]) == r['isq']
            u = mm[1]
            if u[0] == 0:
                ok = ok and r['unq'] == [0, txt(u[1])]
            elif u[0] == 1:
                ok = ok and r['unq'][0] == 1
            elif u[0] == 3:
                ok = False
            if not ok:
                out.append(Violation('correspondence', 'the translated code of is_quoted / unquote_str (Gen/IniCode.v) interpreted by '
                                     'Model/IniIR.v disagrees with the implementation', case=c, expected=mm,
                                     observed={'isq': r['isq'], 'unq': r['unq']}))
        self.stats['quote_ir_leg'] = len(sub)
        self.stats['quote_texts'] = len(texts)
        self.stats['quote_nontrivial'] = nt
        # the property itself on the real functions: what a quoting function wrote is read back
        bad = 0
        for s in subjects:
            for name, f in (('repr', repr), ('dq_quote_full', dq_quote_full)):
                r = idx[f(s)]
                if not r['isq'] or r['unq'] != [0, s]:
                    bad += 1
                    if bad <= 20:
                        out.append(Violation('oracle', 'unquote_str(%s(s)) is not s: written quoted, read back differently'
                                             % name, case={'k': 'quote_oracle', 's': s, 'fn': name},
                                             observed={'quoted': f(s), 'is_quoted': r['isq'], 'unquote_str': r['unq']}))
        self.stats['quote_oracle_subjects'] = len(subjects)
        for s in subjects[1000:1003]:
            self.sample({'stage': 'quote', 's': s, 'repr': repr(s), 'dq': dq_quote_full(s)})
        self.spec_validation(texts, subjects, out)

    def spec_validation(self, texts: List[str], subjects: List[str], out: List[Violation]) -> None:
        """Spec/PyStrLit.v and Spec/PyListLit.v against the running CPython (DESIGN.md 2.4)."""
        lit_texts = [t for t in texts if t[:1] in ('"', "'")]
        step = 1 if self.tier == 'thorough' or len(lit_texts) < 60000 else 2
        lit_texts = lit_texts[::step]
        lists = []
        for i in range(0, min(len(subjects), 3000 if self.tier == 'quick' else 40000), 3):
            items = subjects[i:i + 3]
            lists.append('[' + ', '.join(repr(x) for x in items) + ']')
            lists.append('[' + ',\n  '.join(dq_quote_full(x) for x in items) + ',]')
        lists += ['[]', '[ ]', '[,]', "['a',,]", '[1, 2]', "['a', 1, -3, 0]", '[007]', '[1_0]', '[1.5]', "['a' 'b']",
                  "['a'", "['a',", "[x]", "[None]", "[['a']]", "[('a',)]", "['a'] ", "['a']\n", "['a']x", "[-0]",
                  "['\\x1']", '["a\nb"]', "['''a\nb''']", "[ 'a' , 'b' ]", "['a'#c\n]", '[\n"x"\n]', "[1,]", "[+1]"]
        reprs = subjects[::3] if self.tier == 'quick' else subjects
        cases = [{'k': 'pyspec', 't': t} for t in lit_texts] + [{'k': 'pyspec', 't': t} for t in lists] + \
                [{'k': 'pyspec', 't': t} for t in reprs]
        impl = lib.run_impl_worker(WORKER, cases, jobs=16)
        n1, n2 = len(lit_texts), len(lit_texts) + len(lists)
        mod_in = [enc([2, c['t']]) for c in cases[:n1]] + [enc([3, c['t']]) for c in cases[n1:n2]] + \
                 [enc([1, c['t'], r['printable']]) for c, r in zip(cases[n2:], impl[n2:])]
        mod = self.model('quote', mod_in)
        self.evaluations += len(cases)
        unsup = 0
        for i, (c, r, m) in enumerate(zip(cases, impl, mod)):
            mm = dec(m)
            if i < n1:
                tag, val = mm[0], txt(mm[1])
                if tag == 2:
                    unsup += 1
                    continue
                if (tag == 0 and r['lit'] != [0, val]) or (tag == 1 and r['lit'][0] != 1):
                    out.append(Violation('correspondence', 'spec validation: Spec.PyStrLit.py_str_literal_eval differs from '
                                         'ast.literal_eval (defect of the verification, not of pydoctor)', case=c,
                                         expected=[tag, val], observed=r['lit'], found_input=False))
            elif i < n2:
                tag, val = mm[0], [txt(x) for x in mm[1]]
                if tag == 2:
                    unsup += 1
                    continue
                if (tag == 0 and r['list'] != [0, val]) or (tag == 1 and r['list'][0] != 1):
                    out.append(Violation('correspondence', 'spec validation: Spec.PyListLit.py_list_literal_eval differs from '
                                         'ast.literal_eval (defect of the verification, not of pydoctor)', case=c,
                                         expected=[tag, val], observed=r['list'], found_input=False))
            else:
                s = c['t']
                got = [txt(mm[0]), txt(mm[1]), txt(mm[2])]
                want = [r['repr'], dq_quote(s), dq_quote_full(s)]
                if got != want:
                    out.append(Violation('correspondence', 'spec validation: Spec.PyStrLit.py_repr / dq_quote differ from '
                                         'repr() / the harness writers (defect of the verification)', case=c,
                                         expected=got, observed=want, found_input=False))
        self.stats['spec_validation_cases'] = len(cases)
        self.stats['spec_validation_undecided_by_spec'] = unsup

    # ------------------------------------------------------------------ stage 2: the two file parsers, the validator
    def stage_parsers(self, out: List[Violation]) -> None:
        n = 3 if self.tier == 'quick' else 4
        vals = strings_upto(ALPHA, n)
        pool = ['x', 'a b', "'q'", '"q"', "['a', 'b']", '[x]', '[1, 2]', 'a\nb', "'a\\nb'", "'''t\nu'''", '', "'\\x1'", '[]',
                "['a',\n 'b']", 'a\n\nb', '"a" "b"', '\nx', '\nx\ny', "'''a\nb\n'''", '"""t u\nv"""', '\n\'q\'', "[('a',)]", "['a' 'b']", '"""x"""', "'it''s'", '[ ]', '1', 'true']
        cases: List[dict] = []
        for v in vals:
            cases.append({'k': 'ini', 'text': '[pydoctor]\nkey = ' + v.replace('\n', '\n    ') + '\n'})
        nrand = 400 if self.tier == 'quick' else 20000
        secs = ['tool:pydoctor', 'pydoctor', 'tool.pydoctor', 'other', 'PYDOCTOR', 'DEFAULT', 'metadata']
        for _ in range(nrand):
            lines = []
            for sname in self.rng.sample(secs, self.rng.randint(1, 4)):
                lines.append('[%s]' % sname)
                for kk in self.rng.sample(['k1', 'k2', 'K3', 'privacy', 'project-name'], self.rng.randint(0, 3)):
                    v = self.rng.choice(pool + vals[:200])
                    lines.append('%s %s %s' % (kk, self.rng.choice('=:'), v.replace('\n', '\n    ')))
            cases.append({'k': 'ini', 'text': '\n'.join(lines) + '\n'})
        n_ini = len(cases)
        # TOML documents
        def tv() -> Any:
            r = self.rng.random()
            if r < 0.45:
                return self.rng.choice(pool + ['\xe9', 'a"b', 'a\\b'])
            if r < 0.6:
                return self.rng.choice([0, 0, 1, -1, self.rng.randint(-3, 1000)])
            if r < 0.7:
                return self.rng.random() < 0.5
            if r < 0.9:
                return [self.rng.choice(pool[:6]) for _ in range(self.rng.randint(0, 3))]
            if r < 0.95:
                return [self.rng.randint(0, 9) for _ in range(self.rng.randint(1, 3))]
            return 1.5

        def table() -> Dict[str, Any]:
            return dict((k, tv()) for k in self.rng.sample(['project-name', 'privacy', 'verbose', 'k1', 'k2'],
                                                           self.rng.randint(0, 3)))

        def toml_doc(d: Dict[str, Any], prefix: str = '') -> str:
            lines = []
            for k, v in d.items():
                if not isinstance(v, dict):
                    key = k if re.fullmatch(r'[A-Za-z0-9_-]+', k) else toml_str(k)
                    lines.append('%s = %s' % (key, toml_value(v) if not isinstance(v, float) else repr(v)))
            for k, v in d.items():
                if isinstance(v, dict):
                    key = k if re.fullmatch(r'[A-Za-z0-9_-]+', k) else toml_str(k)
                    lines.append('[%s%s]' % (prefix, key))
                    lines.append(toml_doc(v, prefix + key + '.'))
            return '\n'.join(lines)
        ntoml = 400 if self.tier == 'quick' else 20000
        for _ in range(ntoml):
            doc: Dict[str, Any] = {}
            r = self.rng.random()
            if r < 0.15:
                doc['x'] = 1
            tool: Dict[str, Any] = {}
            if self.rng.random() < 0.7:
                choice = self.rng.random()
                if choice < 0.7:
                    tool['pydoctor'] = table()
                elif choice < 0.8:
                    tool['pydoctor'] = self.rng.choice([5, 'str', [], True])
                if self.rng.random() < 0.3:
                    tool['other'] = {'a': 1}
                if self.rng.random() < 0.9:
                    doc['tool'] = tool
                else:
                    doc['tool'] = self.rng.choice([5, 'str', 0, ''])
            if self.rng.random() < 0.3:
                doc['tool:pydoctor'] = table()
            if self.rng.random() < 0.4:
                doc['pydoctor'] = table() if self.rng.random() < 0.85 else self.rng.choice([3, 'v', []])
            cases.append({'k': 'toml', 'text': toml_doc(doc) + '\n'})
        n_toml = len(cases)
        # validator
        tab = self.table
        known = [k for o in tab for k in o['keys']]
        unknown = ['not-found', 'projectname', 'Project-Name', '', 'verbose ', '-v', 'no-such-option', 'add_package', 'v', 'q', 'W',
                   'c', 'V', 'h', '-W', '---verbose', 'verbose-', 'VERBOSE', 'sourcepath', 'verbosity']
        for _ in range(300 if self.tier == 'quick' else 10000):
            keys = self.rng.sample(known, self.rng.randint(0, 4)) + self.rng.sample(unknown, self.rng.randint(0, 3))
            self.rng.shuffle(keys)
            cases.append({'k': 'validate', 'data': [[k, self.rng.choice(['v', '', ['a', 'b'], [], 'true'])] for k in keys]})
        impl = lib.run_impl_worker(WORKER, cases, jobs=16)
        self.evaluations += len(cases)

        def cval(v: Any) -> Any:
            return [0, v] if isinstance(v, str) else [1, list(v)]

        def de_cval(x: Any) -> Any:
            return txt(x[1]) if x[0] == 0 else [txt(i) for i in x[1]]

        def de_pres(mm: Any) -> Any:
            if mm[0] == 0:
                return {'ok': [[txt(k), de_cval(v)] for k, v in mm[1]]}
            return {'err': True} if mm[0] == 1 else None
        mod_in = []
        skip = set()
        for i, (c, r) in enumerate(zip(cases, impl)):
            if i < n_ini:
                if r['view'] is None:
                    skip.add(i)
                    mod_in.append(enc([9, 'x']))
                else:
                    mod_in.append(enc([5, r['view']]))
            elif i < n_toml:
                if r['view'] is None:
                    skip.add(i)
                    mod_in.append(enc([9, 'x']))
                else:
                    mod_in.append(enc([6, r['view']]))
            else:
                mod_in.append(enc([7, [[k, cval(v)] for k, v in c['data']]]))
        mod = self.model('quote', mod_in)
        ir_idx = [i for i in range(n_ini) if i not in skip]
        ir_out = self.model('quote', [enc([10, impl[i]['view']]) for i in ir_idx])
        for i, m in zip(ir_idx, ir_out):
            mm = dec(m)
            if mm[0] == 2:
                continue
            got = impl[i]['parse']
            want = de_pres(mm) if mm[0] in (0, 1) else None
            if want is None or not (('ok' in want and got.get('ok') == want['ok']) or ('err' in want and 'err' in got)):
                out.append(Violation('correspondence', 'the translated code of IniConfigParser.parse (Gen/IniCode.v) interpreted by '
                                     'Model/IniIR.v disagrees with the implementation', case=cases[i], expected=want or 'stuck',
                                     observed=got))
        self.stats['parser_ir_leg'] = len(ir_idx)
        for i, (c, r, m) in enumerate(zip(cases, impl, mod)):
            if i in skip:
                self.count('parser_tokeniser_rejected_' + c['k'])
                continue
            mm = dec(m)
            if i < n_toml:
                want = de_pres(mm)
                if want is None:
                    self.count('parser_model_undecided_' + c['k'])
                    continue
                got = r['parse']
                self.count('parser_%s_%s' % (c['k'], 'ok' if 'ok' in got else 'err'))
                same = ('ok' in want and got.get('ok') == want['ok']) or ('err' in want and 'err' in got)
                if not same:
                    out.append(Violation('correspondence', 'Model.%s and %s.parse disagree' % (
                        ('IniValue', 'IniConfigParser') if c['k'] == 'ini' else ('TomlValue', 'TomlConfigParser')),
                        case=c, expected=want, observed=got))
            else:
                want_d = [[txt(k), de_cval(v)] for k, v in mm[0]]
                want_w = ['No such config option: %r' % txt(k) for k in mm[1]]
                if 'ok' not in r or r['ok'] != want_d or r['warnings'] != want_w:
                    out.append(Violation('correspondence', 'Model.Validator and ValidatorParser.parse disagree',
                                         case=c, expected=[want_d, want_w], observed=r))
                # the property on the real code: known keys kept in order with their values, one warning per unknown key, no exception
                keys = [k for k, _ in c['data']]
                if 'err' in r:
                    out.append(Violation('oracle', 'ValidatorParser raised on an unknown key: ' + r['err'], case=c, observed=r))
                else:
                    exp = [[k, v] for k, v in c['data'] if k in known]
                    expw = ['No such config option: %r' % k for k in keys if k not in known]
                    if r['ok'] != exp or r['warnings'] != expw:
                        out.append(Violation('oracle', 'unknown-key filter: expected the known entries in order and one warning '
                                             'per unknown key', case=c, expected=[exp, expw], observed=r))
        self.stats['parser_cases'] = {'ini': n_ini, 'toml': n_toml - n_ini, 'validate': len(cases) - n_toml}
        self.sample({'stage': 'ini', 'text': cases[n_ini - 1]['text']})
        self.sample({'stage': 'toml', 'text': cases[n_toml - 1]['text']})

    # ------------------------------------------------------------------ stage 3: every option, end to end
    def option_cases(self) -> List[dict]:
        """One case = one (option, value, format, quoting style): the file text, the command line that should mean the same."""
        out: List[dict] = []
        how: Dict[str, str] = {}
        for o in self.table:
            d, kind = o['dest'], o['kind']
            if not o['keys']:
                how[d] = 'no config key'
                continue
            if o['is_config_file'] or kind in ('KHelp', 'KVersion'):
                how[d] = 'not settable from a file (excluded, see assumptions)'
                continue
            key = o['keys'][0]
            opt = o['strings'][-1] if o['strings'][-1].startswith('--') else o['strings'][0]
            long_opts = [s for s in o['strings'] if s.startswith('--')]
            if kind in ('KStoreTrue', 'KStoreFalse', 'KCount'):
                words = FLAG_WORDS if kind != 'KCount' else COUNT_WORDS
                how[d] = 'flag: file word vs bare flag / absence / repeated flag; attribute-wise on Options'
                for w in words:
                    lw = w.lower()
                    if lw in ('true', 'yes', 'on', '1'):
                        cli = [long_opts[0]]
                    elif lw in ('false', 'no', 'off', '0'):
                        cli = []
                    elif kind == 'KCount' and w.isdigit():
                        cli = [long_opts[0]] * int(w)
                    else:
                        cli = None                      # no command line equivalent: only "no crash / clean exit" is observed
                    for fmt in FORMATS:
                        vals: List[Any] = [w]
                        if FORMATS[fmt][2] == 'toml':
                            vals = [w]
                            if w in ('true', 'false'):
                                vals.append(w == 'true')
                            if w.isdigit():
                                vals.append(int(w))
                        for v in vals:
                            out.append({'opt': d, 'key': key, 'fmt': fmt, 'style': 'plain', 'value': v, 'cli': cli,
                                        'override': [long_opts[0]]})
                continue
            how[d] = ('value: --opt=value; attribute-wise on Options (paths relative to the scratch cwd, classes by '
                      'qualified name, privacy as (enum name, pattern))')
            for vi, v in enumerate(values_for(o, self.tier)):
                if isinstance(v, list):
                    cli = ['%s=%s' % (opt, x) for x in v]
                    ov = ['%s=%s' % (opt, 'OVR:x' if d == 'privacy' else 'ovr')]
                else:
                    cli = ['%s=%s' % (opt, v)]
                    ov = ['%s=%s' % (opt, (o['choices'][-1] if o['choices'] else ('9' if o['type'] == 'TyInt' else
                                           (CLASS_VALUES[d][0] if d in CLASS_VALUES else 'ovr'))))]
                if o['type'] == 'TyInt' and isinstance(v, str) and re.fullmatch(r'-?(0|[1-9][0-9]*)', v):
                    # TOML integers as people write them: pyval-repr-maxlines = 0
                    out.append({'opt': d, 'key': key, 'fmt': 'pyproject.toml', 'style': 'plain', 'value': int(v), 'cli': cli,
                                'override': ov, 'skip_override': True})
                for fmt in FORMATS:
                    styles = ['plain'] if FORMATS[fmt][2] == 'toml' else ['plain', 'repr', 'dq']
                    for st in styles:
                        if st != 'plain' and (o['type'] == 'TyInt' or o['choices']) and self.tier == 'quick':
                            continue
                        if isinstance(v, list) and st == 'dq':
                            continue
                        out.append({'opt': d, 'key': key, 'fmt': fmt, 'style': st, 'value': v, 'cli': cli, 'override': ov,
                                    'skip_override': self.tier == 'quick' and (vi >= 2 or st != 'plain')})
                # alternative key spellings and delimiters, once per option
            v0 = values_for(o, self.tier)[0]
            for k2 in o['keys'][1:]:
                for fmt in ('pyproject.toml', 'setup.cfg'):
                    out.append({'opt': d, 'key': k2, 'fmt': fmt, 'style': 'plain', 'value': v0,
                                'cli': ['%s=%s' % (opt, x) for x in v0] if isinstance(v0, list) else ['%s=%s' % (opt, v0)],
                                'override': None})
        self.stats['options_compared_how'] = how
        return out

    def e2e_payload(self, c: dict) -> dict:
        fname = FORMATS[c['fmt']][0]
        text = c.get('text') or file_text(c['fmt'], [(c['key'], c['value'])] + c.get('more', []), c['style'])
        runs = [[]]
        nofile = [c['cli'] if c['cli'] is not None else []]
        if c.get('override') and not c.get('skip_override'):
            runs.append(list(c['override']))
            nofile.append(list(c['override']))
        if c.get('positional'):
            runs.append(['src'])
            nofile.append(['src'] + (c['cli'] or []))
        return {'k': c.get('k', 'e2e'), 'files': {fname: text}, 'runs': runs, 'nofile_runs': nofile}

    @staticmethod
    def same_outcome(a: dict, b: dict) -> Optional[str]:
        if a['exc'] or b['exc']:
            if a['exc'] and b['exc']:
                return None
            return 'one side raised %s' % (a['exc'] or b['exc'])
        if (a['opts'] is None) != (b['opts'] is None):
            return 'one side exits (%s: %s), the other does not' % (
                'file' if a['opts'] is None else 'command line', (a if a['opts'] is None else b)['stderr'][-160:].strip())
        if a['opts'] is None:
            return None if a['exit'] == b['exit'] else 'exit codes differ: %r vs %r' % (a['exit'], b['exit'])
        diff = {k: [a['opts'][k], b['opts'].get(k)] for k in a['opts'] if a['opts'][k] != b['opts'].get(k)}
        if diff:
            return 'effective options differ (file, command line): %s' % json.dumps(diff)[:300]
        if a['warnings'] != b['warnings']:
            return 'warnings differ: %r vs %r' % (a['warnings'], b['warnings'])
        return None

    def judge_e2e(self, c: dict, r: dict) -> List[str]:
        """the property on one end-to-end observation; returns the failures"""
        fails = []
        if c['cli'] is not None:
            f = self.same_outcome(r['runs'][0], r['nofile_runs'][0])
            if f:
                fails.append('file vs command line: ' + f)
        else:
            if r['runs'][0]['exc']:
                pass        # a value with no command-line equivalent (e.g. verbose = yes): nothing to compare
        for i in range(1, len(r['runs'])):
            f = self.same_outcome(r['runs'][i], r['nofile_runs'][i])
            if f:
                what = 'command line override' if c.get('override') and i == 1 else 'with a positional argument'
                fails.append(what + ': ' + f)
        return fails

    @staticmethod
    def toml_misread(c: dict, r: dict) -> bool:
        """the third-party toml library itself returned another string than the one written (valid TOML text)"""
        fname = FORMATS[c['fmt']][0]
        view = r['views'][fname]['toml']
        if view is None or FORMATS[c['fmt']][2] != 'toml' or not isinstance(c['value'], str):
            return False
        try:
            sect = dict((k, v) for k, v in dict((k, v) for k, v in view)['tool'][1])['pydoctor'][1]
            got = dict((k, v) for k, v in sect)[c['key']]
        except Exception:
            return False
        return got[0] == 0 and got[1] != c['value']

    def stage_options(self, out: List[Violation]) -> None:
        cases = self.option_cases()
        # twins: for INI-named files that may be valid TOML, the same file made certainly-not-TOML
        payloads = [self.e2e_payload(c) for c in cases]
        impl = lib.run_impl_worker(WORKER, payloads, jobs=16, timeout=3000)
        self.evaluations += sum(len(p['runs']) + len(p['nofile_runs']) for p in payloads)
        by_key: Dict[str, Tuple[dict, dict]] = {}
        for c, r in zip(cases, impl):
            by_key[json.dumps([c['opt'], c['key'], c['fmt'], c['style'], c['value']])] = (c, r)
        nt = 0
        nviol = 0
        nclass: Dict[bool, int] = {}
        for ci, (c, r) in enumerate(zip(cases, impl)):
            self.count('e2e_fmt_' + c['fmt'])
            self.count('e2e_kind_' + ('exit' if r['runs'][0]['opts'] is None else 'ok'))
            nt += 1
            fails = self.judge_e2e(c, r)
            if not fails:
                continue
            cc = dict(c)
            cc['k'] = 'e2e_option'
            fname = FORMATS[c['fmt']][0]
            toml_valid = r['views'][fname]['toml'] is not None
            if c['fmt'] == 'pydoctor.ini' and toml_valid:
                twin = by_key.get(json.dumps([c['opt'], c['key'], 'pydoctor.ini;', c['style'], c['value']]))
                if twin is not None and not self.judge_e2e(twin[0], twin[1]):
                    cc['class'] = 'ini_file_read_as_toml'
            elif self.toml_misread(c, r):
                cc['class'] = 'toml_library_misreads_string'
            nviol += 1
            nclass['class' in cc] = nclass.get('class' in cc, 0) + 1
            # violations of a class listed in known_findings must not use up the room of the others
            if nclass['class' in cc] <= (12 if 'class' in cc else 40):
                out.append(Violation('oracle', 'option %s, %s: %s' % (c['opt'], c['fmt'], '; '.join(fails))[:900], case=cc,
                                     observed={'file_text': payloads[ci]['files'][fname],
                                               'file_run': _brief(r['runs'][0]), 'cli_run': _brief(r['nofile_runs'][0])}))
        self.stats['e2e_option_cases'] = len(cases)
        self.stats['e2e_option_failures_seen'] = nviol
        self.nt_options = nt
        for c in cases[5:7]:
            self.sample({'stage': 'e2e', 'opt': c['opt'], 'fmt': c['fmt'], 'style': c['style'], 'value': c['value'],
                         'file': self.e2e_payload(c)['files'], 'cli': c['cli']})

    # ------------------------------------------------------------------ stage 4: unknown keys, accumulation, quoting end to end
    def stage_scenarios(self, out: List[Violation]) -> None:
        cases: List[dict] = []
        # (a) quoting end to end: strings written quoted into an INI value, read back through Options.from_args
        n = 2 if self.tier == 'quick' else 3
        subj = strings_upto(ALPHA, n) + ['a%b', 'C:\\dir', '\xe9\\', 'tab\there', "it's \"x\"", 'a#b', '1.10', 'true']
        if self.tier == 'thorough':
            subj += [''.join(self.rng.choice(ALPHA + ['%', '\t', '\xe9']) for _ in range(self.rng.randint(4, 8))) for _ in range(1500)]
        subj += ['a\na', 'a a\na', 'a=a\n[a]\na#', 'x\ny\nz']
        for s in subj:
            for fmt in ('setup.cfg', 'pydoctor.ini', 'pydoctor.ini;'):
                for st in ('repr', 'dq') + (('triple', 'triple2') if triple_safe(s) and fmt != 'pydoctor.ini' else ()):
                    cases.append({'k': 'e2e_quote', 'opt': 'projectname', 'key': 'project-name', 'fmt': fmt, 'style': st,
                                  'value': s, 'cli': ['--project-name=' + s], 'override': None})
        n_quote = len(cases)
        # (b) unknown keys
        for fmt in FORMATS:
            for uk, uv in (('no-such-option', 'x'), ('projectname', 'y'), ('verbosity', '3'), ('sourcepath', 'z'), ('v', '1'),
                           ('q', '1')):
                cases.append({'k': 'e2e_unknown', 'opt': 'projectname', 'key': 'project-name', 'fmt': fmt, 'style': 'plain',
                              'value': 'Known', 'more': [(uk, uv)], 'cli': ['--project-name=Known'], 'unknown': uk,
                              'override': None})
        n_unknown = len(cases)
        # (c) a positional argument next to file options; file-then-command-line for different options
        for fmt in FORMATS:
            cases.append({'k': 'e2e_option', 'opt': 'privacy', 'key': 'privacy', 'fmt': fmt, 'style': 'plain',
                          'value': ['HIDDEN:a', 'PUBLIC:b'], 'cli': ['--privacy=HIDDEN:a', '--privacy=PUBLIC:b'],
                          'override': ['--intersphinx=http://x/objects.inv', '--privacy=PRIVATE:z'], 'positional': True})
        # (c') the command line overrides the file also when the option is spelled another way argparse accepts
        #      (combined short flags, unambiguous abbreviations); each has an exact-spelling twin
        n_before_spelling = len(cases)
        for key, val, cli, spelled, exact in (
                ('verbose', 1, ['--verbose'], ['-vv'], ['--verbose', '--verbose']),
                ('quiet', 1, ['--quiet'], ['-qq'], ['--quiet', '--quiet']),
                ('privacy', ['HIDDEN:a'], ['--privacy=HIDDEN:a'], ['--priv=PRIVATE:z'], ['--privacy=PRIVATE:z']),
                ('intersphinx', ['http://u/o.inv'], ['--intersphinx=http://u/o.inv'], ['--intersp=http://v/o.inv'],
                 ['--intersphinx=http://v/o.inv']),
                ('project-name', 'fromfile', ['--project-name=fromfile'], ['--project-n=cli'], ['--project-name=cli'])):
            for fmt in ('pyproject.toml', 'setup.cfg'):
                for sp, ov in (('spelled', spelled), ('exact', exact)):
                    cases.append({'k': 'e2e_spelling', 'opt': key, 'key': key, 'fmt': fmt, 'style': 'plain', 'value': val,
                                  'cli': cli, 'override': ov, 'spelling': sp})
        payloads = [self.e2e_payload(dict(c, k='e2e')) for c in cases]
        # (d) repeated options accumulate in order: raw namespace of parse_args
        acc = []
        for o in self.table:
            if o['kind'] != 'KAppend':
                continue
            opt = o['strings'][0]
            vals = ['HIDDEN:a', 'PUBLIC:b', 'PRIVATE:c', 'HIDDEN:a'] if o['dest'] == 'privacy' else ['p', 'q', 'r', 'p']
            for fmt in ('pyproject.toml', 'setup.cfg', 'pydoctor.ini;'):
                acc.append({'k': 'ns_accumulate', 'opt': o['dest'], 'key': o['keys'][0], 'fmt': fmt, 'style': 'plain',
                            'value': vals, 'cli': ['%s=%s' % (opt, v) for v in vals]})
        payloads += [{'k': 'ns', 'files': {FORMATS[c['fmt']][0]: file_text(c['fmt'], [(c['key'], c['value'])], 'plain')},
                      'runs': [[]], 'nofile_runs': [c['cli'], c['cli'][:1]]} for c in acc]
        impl = lib.run_impl_worker(WORKER, payloads, jobs=16, timeout=3000)
        self.evaluations += sum(len(p['runs']) + len(p['nofile_runs']) for p in payloads)
        twins: Dict[str, bool] = {}
        for c, r in zip(cases, impl):
            if c['fmt'] == 'pydoctor.ini;':
                twins[json.dumps([c['k'], c['style'], c['value'], c.get('unknown')])] = not self.judge_e2e(c, r)
        for i, (c, r) in enumerate(zip(cases, impl)):
            fails = self.judge_e2e(c, r)
            fr = r['runs'][0]
            if i < n_quote:
                self.count('e2e_quote_' + c['fmt'])
                if fr['opts'] is not None and fr['opts']['projectname'] != c['value']:
                    fails.append('read back %r, written %r' % (fr['opts']['projectname'], c['value']))
            elif i < n_unknown:
                expw = "No such config option: %r" % c['unknown']
                if fr['opts'] is None:
                    fails.append('an unknown key aborted the run: ' + fr['stderr'][-200:])
                elif fr['warnings'].count(expw) != 1:
                    fails.append('expected exactly one warning %r, got %r' % (expw, fr['warnings']))
                # the comparison with the command line is made without the warning
                fails = [f for f in fails if 'warnings differ' not in f]
            if not fails:
                continue
            cc = dict(c)
            fname = FORMATS[c['fmt']][0]
            if c['k'] == 'e2e_spelling' and c['spelling'] == 'spelled':
                twin_c, twin_r = cases[i + 1], impl[i + 1]
                if twin_c['spelling'] == 'exact' and not self.judge_e2e(twin_c, twin_r):
                    cc['class'] = 'cli_spelling_not_seen_by_configargparse'
            if c['fmt'] == 'pydoctor.ini' and r['views'][fname]['toml'] is not None and \
                    twins.get(json.dumps([c['k'], c['style'], c['value'], c.get('unknown')])):
                cc['class'] = 'ini_file_read_as_toml'
            out.append(Violation('oracle', ('%s %s (%s): ' % (c['k'], c['fmt'], c['style'])) + '; '.join(fails)[:800], case=cc,
                                 observed={'file_text': payloads[i]['files'][fname], 'file_run': _brief(fr),
                                           'cli_run': _brief(r['nofile_runs'][0])}))
        for c, r in zip(acc, impl[len(cases):]):
            got_file = (r['runs'][0]['opts'] or {}).get(c['opt'])
            got_cli = (r['nofile_runs'][0]['opts'] or {}).get(c['opt'])
            if got_file != c['value'] or got_cli != c['value']:
                out.append(Violation('oracle', 'repeated option %s does not accumulate in order (%s): file %r, command line %r, '
                                     'written %r' % (c['opt'], c['fmt'], got_file, got_cli, c['value']), case=dict(c),
                                     observed={'file': got_file, 'cli': got_cli}))
        self.stats['e2e_quote_subjects'] = len(subj)
        self.stats['e2e_scenarios'] = len(payloads)

    # ------------------------------------------------------------------ stage 5: the pipeline model vs options.parse_args
    def stage_ns(self, out: List[Violation]) -> None:
        cases: List[dict] = []
        tab = [o for o in self.table if o['keys'] and not o['is_config_file'] and o['kind'] not in ('KHelp', 'KVersion')]
        nrand = 250 if self.tier == 'quick' else 6000
        for _ in range(nrand):
            files: Dict[str, str] = {}
            for fmt in self.rng.sample(['pyproject.toml', 'setup.cfg', 'pydoctor.ini;'], self.rng.choice([1, 1, 1, 2, 3])):
                items = []
                for o in self.rng.sample(tab, self.rng.randint(1, 4)):
                    items.append((self.rng.choice(o['keys']), self.ns_value(o)))
                if self.rng.random() < 0.2:
                    items.append((self.rng.choice(['nope', 'projectname']), 'v'))
                files[FORMATS[fmt][0]] = file_text(fmt, items, self.rng.choice(['plain', 'repr']))
            cli = []
            for o in self.rng.sample(tab, self.rng.randint(0, 3)):
                s = self.rng.choice(o['strings'])
                if o['kind'] in ('KStore', 'KAppend'):
                    v = self.ns_value(o)
                    for x in (v if isinstance(v, list) else [v]):
                        cli.append('%s=%s' % (s, x))
                else:
                    cli += [s] * self.rng.choice([1, 1, 2])
            cases.append({'k': 'ns', 'files': files, 'runs': [cli], 'nofile_runs': []})
        impl = lib.run_impl_worker(WORKER, cases, jobs=16, timeout=3000)
        self.evaluations += len(cases)
        order = ['pydoctor.ini', 'setup.cfg', 'pyproject.toml']      # configargparse: reversed(DEFAULT_CONFIG_FILES)
        mod_in = []
        for c, r in zip(cases, impl):
            fv = []
            for name in order:
                if name in c['files']:
                    v = r['views'][name]
                    fv.append([[v['toml']] if v['toml'] is not None else [], [v['ini']] if v['ini'] is not None else []])
            toks = []
            for a in c['runs'][0]:
                if '=' in a:
                    n, v = a.split('=', 1)
                    toks.append([n, v])
                else:
                    toks.append([a])
            mod_in.append(enc([8, fv, toks]))
        mod = self.model('quote', mod_in)
        for c, r, m in zip(cases, impl, mod):
            mm = dec(m)
            got = r['runs'][0]
            self.count('ns_model_tag_%d' % mm[0])
            if mm[0] == 3:
                continue
            if mm[0] == 0:
                want = dict((txt(k), _nsval(v)) for k, v in mm[1])
                wwarn = ['No such config option: %r' % txt(k) for k in mm[2]]
                g = dict(got['opts'] or {})
                g.pop('sourcepath', None)
                g = dict((k, ('sentinel' if isinstance(v, list) and v[:1] == ['object'] else v)) for k, v in g.items())
                ok = got['opts'] is not None and g == want and got['warnings'] == wwarn
            elif mm[0] == 1:
                ok = got['opts'] is None and got['exit'] == mm[1] and not got['exc']
            else:
                ok = bool(got['exc'])
            if not ok:
                out.append(Violation('correspondence', 'Model.Options.pydoctor_parse_args and options.parse_args disagree',
                                     case=c, expected=(want if mm[0] == 0 else mm), observed=_brief(got, full=True)))
        self.stats['ns_cases'] = len(cases)

    def ns_value(self, o: dict) -> Any:
        k = o['kind']
        if k == 'KStore':
            if o['type'] == 'TyInt':
                return self.rng.choice(['0', '5', '12', '-3', 'x'])
            if o['choices']:
                return self.rng.choice(o['choices'] + ['bogus'])
            return self.rng.choice(['x', 'a b', "it's", 'a\\b', 'v,w', '1'])
        if k == 'KAppend':
            return [self.rng.choice(['p', 'q', 'HIDDEN:a', 'a b']) for _ in range(self.rng.randint(0, 3))]
        if k == 'KCount':
            return self.rng.choice(['0', '1', '2', 'true', 'false', 'no', 'x'])
        return self.rng.choice(['true', 'false', 'yes', 'off', '1', '0', 'maybe'])

    # ------------------------------------------------------------------ driver hooks
    def correspondence(self) -> List[Violation]:
        self.table = load_table()
        self.stats['options_in_table'] = len(self.table)
        out: List[Violation] = []
        self.stage_corpus(out)
        self.stage_multifile(out)
        self.stage_quote(out)
        self.stage_parsers(out)
        self.stage_options(out)
        self.stage_scenarios(out)
        self.stage_ns(out)
        self.exhaustive = True
        self.stats['distinct_nontrivial'] = self.stats.get('quote_nontrivial', 0) + getattr(self, 'nt_options', 0)
        return out

    def search(self, broken: List[Violation]) -> List[Violation]:
        """A proof or the correspondence broke and the oracle stages of this tier found nothing: widen them."""
        if self.tier == 'quick':
            self.tier = 'thorough'
            self.table = load_table()
            out: List[Violation] = []
            for stage in (self.stage_corpus, self.stage_multifile, self.stage_scenarios, self.stage_options, self.stage_quote, self.stage_parsers):
                try:
                    stage(out)
                except RuntimeError as e:          # the model may be the thing that is broken
                    self.notes.append('search stage failed: %s' % str(e)[:200])
                found = [v for v in out if v.kind == 'oracle']
                if found:
                    return found
        return []

    def classify_known(self, v: Violation, known: List[dict]) -> Optional[dict]:
        c = v.case if isinstance(v.case, dict) else {}
        for k in known:
            m = k.get('match', {})
            if m and all(c.get(a) == b for a, b in m.items()):
                return k
        return None

    def replay(self, data: Any) -> int:
        case = data['input']
        if not isinstance(case, dict):
            print('no concrete input was recorded:', data.get('what'))
            return 1
        self.table = load_table()
        k = case.get('k')
        if k == 'quote_oracle':
            f = repr if case['fn'] == 'repr' else dq_quote_full
            r = lib.run_impl_worker(WORKER, [{'k': 'quote', 't': f(case['s']), 'triple': True}])[0]
            print('text     : %r' % case['s'])
            print('quoted   : %s' % f(case['s']))
            print('observed : is_quoted=%r unquote_str=%r' % (r['isq'], r['unq']))
            print('property : unquote_str(quoted) must be the text')
            return 0 if (r['isq'] and r['unq'] == [0, case['s']]) else 1
        if k in ('e2e_option', 'e2e_quote', 'e2e_unknown', 'e2e_spelling'):
            p = self.e2e_payload(dict(case, k='e2e'))
            r = lib.run_impl_worker(WORKER, [p])[0]
            fails = self.judge_e2e(case, r)
            fr = r['runs'][0]
            if k == 'e2e_quote' and fr['opts'] is not None and fr['opts']['projectname'] != case['value']:
                fails.append('read back %r, written %r' % (fr['opts']['projectname'], case['value']))
            if k == 'e2e_unknown':
                expw = "No such config option: %r" % case['unknown']
                if fr['opts'] is None:
                    fails.append('an unknown key aborted the run: ' + fr['stderr'][-200:])
                elif fr['warnings'].count(expw) != 1:
                    fails.append('expected exactly one warning %r, got %r' % (expw, fr['warnings']))
                fails = [f for f in fails if 'warnings differ' not in f]
            print('files    :', json.dumps(p['files']))
            print('file run : argv=%r -> %s' % (p['runs'][0], json.dumps(_brief(fr))))
            print('cli run  : argv=%r -> %s' % (p['nofile_runs'][0], json.dumps(_brief(r['nofile_runs'][0]))))
            print('property : both must give the same effective Options' + (': ' + '; '.join(fails) if fails else ' -- holds'))
            return 1 if fails else 0
        if k == 'ns_accumulate':
            p = {'k': 'ns', 'files': {FORMATS[case['fmt']][0]: file_text(case['fmt'], [(case['key'], case['value'])], 'plain')},
                 'runs': [[]], 'nofile_runs': [case['cli']]}
            r = lib.run_impl_worker(WORKER, [p])[0]
            a = (r['runs'][0]['opts'] or {}).get(case['opt'])
            b = (r['nofile_runs'][0]['opts'] or {}).get(case['opt'])
            print('written %r; file gives %r; command line gives %r' % (case['value'], a, b))
            return 0 if a == case['value'] == b else 1
        if k in ('e2e_multifile', 'e2e_history'):
            dirs = dict((json.dumps(d['pick']), d) for d in self.mf_dirs())
            if k == 'e2e_multifile':
                d = dirs[json.dumps(case['pick'])]
                r = lib.run_impl_worker(WORKER, [{'k': 'e2e', 'isolate': True, 'files': d['files'], 'runs': [[]],
                                                  'nofile_runs': [d['cli']]}])[0]
                f = self.same_outcome(r['runs'][0], r['nofile_runs'][0])
                print('files    :', json.dumps(d['files']))
                print('cli      :', d['cli'], '(documented precedence: pydoctor.ini > pyproject.toml > setup.cfg)')
                print('file run :', json.dumps(_brief(r['runs'][0], full=True))[:1500])
                print('property : same effective Options' + (': ' + f if f else ' -- holds'))
                return 1 if f else 0
            sq = [dirs[json.dumps(p)] for p in case['picks']]
            r = lib.run_impl_worker(WORKER, [{'k': 'seq', 'fn': 'e2e', 'steps': [{'files': d['files'], 'argv': []} for d in sq]},
                                             {'k': 'e2e', 'isolate': True, 'files': sq[-1]['files'], 'runs': [[]], 'nofile_runs': []}])
            a, b = self.outcome_key(r[0]['steps'][-1]), self.outcome_key(r[1]['runs'][0])
            print('directories parsed one after the other in one process:', [sorted(d['files']) for d in sq])
            print('last one, in sequence:', json.dumps(_brief(r[0]['steps'][-1], full=True))[:1200])
            print('last one, alone      :', json.dumps(_brief(r[1]['runs'][0], full=True))[:1200])
            print('property : the two must be equal' + (' -- holds' if a == b else ' -- VIOLATED'))
            return 0 if a == b else 1
        if k == 'validate':
            r = lib.run_impl_worker(WORKER, [case])[0]
            known = [x for o in self.table for x in o['keys']]
            exp = [[a, b] for a, b in case['data'] if a in known]
            expw = ['No such config option: %r' % a for a, _ in case['data'] if a not in known]
            print('data     :', json.dumps(case['data']))
            print('observed :', json.dumps(r))
            print('property : known entries kept in order %s, one warning per unknown key %s, no exception'
                  % (json.dumps(exp), json.dumps(expw)))
            return 0 if ('ok' in r and r['ok'] == exp and r['warnings'] == expw) else 1
        if k in ('quote', 'pyspec', 'ini', 'toml', 'ns'):
            r = lib.run_impl_worker(WORKER, [case])[0]
            exp = data.get('expected')
            print('case     :', json.dumps(case)[:1500])
            print('observed :', json.dumps(r)[:3000])
            print('expected (model, as recorded):', json.dumps(exp)[:3000])
            same = False
            if k == 'quote' and isinstance(exp, dict):
                same = all(r.get(a) == b for a, b in exp.items())
            elif k == 'quote' and isinstance(exp, list):
                same = (exp[0] == 0 and r['unq'] == [0, exp[1]]) or (exp[0] == 1 and r['unq'][0] == 1)
            elif k in ('ini', 'toml') and isinstance(exp, dict):
                same = ('ok' in exp and r['parse'].get('ok') == exp['ok']) or ('err' in exp and 'err' in r['parse'])
            elif k == 'ns' and isinstance(exp, dict):
                g = dict((r['runs'][0]['opts'] or {}))
                g.pop('sourcepath', None)
                g = dict((a, ('sentinel' if isinstance(b, list) and b[:1] == ['object'] else b)) for a, b in g.items())
                same = g == exp
            print('the implementation now %s the recorded model output' % ('matches' if same else 'differs from'))
            return 0 if same else 1
        print('unknown replay case', case)
        return 2


def _nsval(v: Any) -> Any:
    tag = v[0]
    if tag == 0:
        return None
    if tag == 1:
        return txt(v[1])
    if tag == 2:
        return v[1]
    if tag == 3:
        return bool(v[1])
    if tag == 4:
        return [txt(x) for x in v[1]]
    return 'sentinel'


def _brief(o: dict, full: bool = False) -> dict:
    if o['opts'] is None:
        return {'exit': o['exit'], 'exc': o['exc'], 'stderr': o['stderr'][-300:]}
    if full:
        return {'opts': o['opts'], 'warnings': o['warnings']}
    keep = ('projectname', 'privacy', 'verbosity', 'intersphinx')
    return {'opts(some)': {k: o['opts'].get(k) for k in keep if k in o['opts']}, 'warnings': o['warnings']}
