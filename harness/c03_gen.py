"""Seeded generator of MiniPy packages for C03 (see c03_minipy.py for the JSON form).

A generated module carries  {"name", "body", "sub": bool}  where `sub` says the generator kept the module inside the
agreed subset (the oracle pydoctor-vs-CPython is applied to it); with probability `p_out` a statement deliberately
leaves the subset (alias, def-then-assign, annotation without value, binding in an else/finally suite or an untaken
if, `x = property(f)`, dotted decorators ...): those modules are used for the model/implementation correspondence only.

The generator keeps a per-scope environment so that the programs import without error: names used on right-hand
sides, as bases and in augmented assignments are bound with a suitable value at that point."""
from __future__ import annotations
import random
from typing import Any, Dict, List, Optional, Tuple

BUILTIN_EXC = ['Exception', 'ValueError', 'KeyError', 'OSError', 'RuntimeError', 'BaseException', 'LookupError',
               'Warning', 'DeprecationWarning', 'StopIteration', 'ArithmeticError', 'TypeError', 'IOError', 'EOFError']
NEW_EXC = ['ExceptionGroup', 'BaseExceptionGroup', 'EncodingWarning']
FN = ['f0', 'f1', 'f2', 'g0']
CN = ['K0', 'K1', 'K2', 'E0']
VN = ['v0', 'v1', 'v2', 'X0', 'X1', 'CONST_A', '_p0', 'Mixed_1']
MN = ['m0', 'm1', 'm2', '__init__', 'run']
AN = ['a0', 'a1', 'b0', 'A0']
AUX = ['_i0', '_i1']
WORDS = ['alpha', 'beta', 'gamma', 'returns', 'the', 'value', 'of', 'x', 'Note', 'café', '中']


class Scope:
    def __init__(self, kind: str, parent: Optional['Scope'] = None):
        self.kind = kind                      # 'module' | 'class'
        self.parent = parent
        self.env: Dict[str, Any] = {}         # name -> ('fun', wrap) | ('class', exc) | ('data', pyvalue|None) | ('aux',)
        self.props_defined: set = set()
        self.selfnames: set = set()


class Gen:
    def __init__(self, rng: random.Random, p_out: float = 0.0, max_depth: int = 3, budget: int = 25, prev: Any = None):
        self.rng = rng
        self.p_out = p_out
        self.max_depth = max_depth
        self.budget = budget
        self.sub = True
        self.imp_n = 0
        self.prev = prev or []            # [(module full name, {class name: exc})] of the modules generated before
        self.pending: List[str] = []      # names of the classes whose body is being generated (not usable as bases inside)

    # ---------------------------------------------------------------- helpers
    def out(self) -> bool:
        """leave the subset here?"""
        if self.p_out and self.rng.random() < self.p_out:
            self.sub = False
            return True
        return False

    def docstring(self) -> str:
        r = self.rng
        n = r.randint(0, 3)
        if n == 0 and r.random() < 0.3:
            return r.choice(['', ' ', '\n', 'x'])
        lines = []
        for _ in range(r.randint(1, 4)):
            lines.append(' ' * r.choice([0, 0, 2, 4, 4, 8]) + ' '.join(r.choice(WORDS) for _ in range(r.randint(0, 4))))
        s = '\n'.join(lines)
        if r.random() < 0.3:
            s = '\n' + s
        if r.random() < 0.3:
            s = s + '\n' + ' ' * r.choice([0, 4])
        if r.random() < 0.1:
            s = s.replace(' ', '\t', 1)
        return s

    def expr_str(self) -> Any:
        return [5, self.docstring(), self.rng.randint(0, 1)]

    def atom(self) -> Any:
        r = self.rng
        return r.choice([lambda: r.randint(-3, 40), lambda: r.random() < 0.5, lambda: r.choice(['', 'a', 'bc', 'd e']),
                         lambda: r.choice([1.5, 0.0, 2.25]), lambda: None, lambda: r.choice([b'', b'ab']),
                         lambda: r.randint(0, 1)])()

    def pyvalue(self, d: int = 0) -> Any:
        r = self.rng
        k = r.random()
        if d >= 2 or k < 0.45:
            return self.atom()
        n = r.choice([0, 1, 1, 2, 3])
        uniform = r.random() < 0.6
        proto = self.atom()

        def elem() -> Any:
            if uniform and r.random() < 0.9:
                while True:
                    x = self.atom()
                    if type(x) is type(proto):
                        return x
            return self.pyvalue(d + 1) if r.random() < 0.3 else self.atom()
        if k < 0.65:
            return [elem() for _ in range(n)]
        if k < 0.8:
            return tuple(elem() for _ in range(n))
        if k < 0.9:
            xs: List[Any] = []
            for _ in range(n):
                x = elem()
                if isinstance(x, (list, dict, set)):
                    x = None
                if isinstance(x, tuple):
                    try:
                        hash(x)
                    except TypeError:
                        x = 0
                if not any(x == y for y in xs):
                    xs.append(x)
            return ('set', xs)
        ks: List[Any] = []
        vs: List[Any] = []
        for _ in range(n):
            x = self.atom()
            if not any(x == y for y in ks):
                ks.append(x)
                vs.append(elem())
        return ('dict', ks, vs)

    def encode_value(self, v: Any) -> Any:
        if isinstance(v, bool):
            return [1, v]
        if isinstance(v, int):
            return [0, v]
        if isinstance(v, str):
            return [2, v]
        if isinstance(v, bytes):
            return [3, v.decode('latin-1')]
        if isinstance(v, float):
            return [4, repr(v)]
        if v is None:
            return [5]
        if isinstance(v, list):
            return [6] + [self.encode_value(x) for x in v]
        if isinstance(v, tuple) and v and v[0] == 'set' and len(v) == 2 and isinstance(v[1], list):
            return [8] + [self.encode_value(x) for x in v[1]]
        if isinstance(v, tuple) and v and v[0] == 'dict' and len(v) == 3:
            return [9, [self.encode_value(x) for x in v[1]], [self.encode_value(x) for x in v[2]]]
        if isinstance(v, tuple):
            return [7] + [self.encode_value(x) for x in v]
        raise TypeError(v)

    def pick(self, pool: List[str], other: List[str]) -> str:
        return self.rng.choice(other if self.rng.random() < 0.2 else pool)

    # ---------------------------------------------------------------- function bodies (never executed)
    def fun_body(self, sc: Scope, depth: int, method: bool) -> List[Any]:
        r = self.rng
        body: List[Any] = []
        if r.random() < 0.6:
            body.append(self.expr_str())
        for _ in range(r.randint(0, 3 if method else 1)):
            if self.budget <= 0:
                break
            self.budget -= 1
            k = r.random()
            if method and k < 0.45:
                a = self.pick(AN, MN + VN)
                if sc.props_defined and r.random() < 0.3:
                    a = r.choice(sorted(sc.props_defined))        # self.p = ... for a property p (setter call)
                sc.selfnames.add(a)
                if r.random() < 0.25:
                    body.append([3, [2, a], r.choice(['int', 'str', 'object']), [self.rhs_any()] if r.random() < 0.7 else None])
                else:
                    body.append([2, [[2, a]] + ([[2, self.pick(AN, VN)]] if r.random() < 0.1 else []), self.rhs_any()])
                if r.random() < 0.4:
                    body.append(self.expr_str())
            elif k < 0.6:
                body.append([0, r.choice(FN + MN), [], r.random() < 0.2, [self.expr_str()] if r.random() < 0.5 else []])
            elif k < 0.68:
                body.append([1, r.choice(CN), [], [self.expr_str(), [2, [[0, 'v0']], [0, [0, 1]]]]])
            elif k < 0.85 and depth < self.max_depth:
                inner = self.fun_body(sc, depth + 1, method)
                c = r.randint(0, 5)
                if c == 0:
                    body.append([6, r.choice([0, 1, 2]), inner, self.fun_body(sc, depth + 1, method) if r.random() < 0.3 else [], r.randint(0, 3)])
                elif c == 1:
                    body.append([7, inner, [], self.fun_body(sc, depth + 1, method) if r.random() < 0.3 else [], []])
                elif c == 2:
                    body.append([8, inner, r.randint(0, 1)])
                elif c == 3:
                    body.append([9, '_j', inner, []])
                else:
                    body.append([10, inner, []])
            else:
                body.append([12, r.choice(['pass', 'return None', 'x = 1', "len('')"])])
        return body

    def rhs_any(self) -> Any:
        r = self.rng
        k = r.random()
        if k < 0.6:
            return [0, self.encode_value(self.pyvalue())]
        if k < 0.75:
            return [3, r.choice(["(len('ab') + 1)", '1 + 2', "'a' * 2", '[i for i in ()]', 'max(1, 2)'])]
        if k < 0.9:
            return [2, r.choice(['dict', 'list', 'object']), []]
        return [1, r.choice(['zz', 'a0', 'v0'])]

    # ---------------------------------------------------------------- module / class bodies (executed)
    def nonbinding(self, n: int) -> List[Any]:
        r = self.rng
        return [r.choice([[12, 'pass'], [12, "len('')"], self.expr_str()]) for _ in range(n)]

    def stmts(self, sc: Scope, depth: int, n: int, flow: bool = False) -> List[Any]:
        body: List[Any] = []
        for _ in range(n):
            if self.budget <= 0:
                break
            self.budget -= 1
            body.extend(self.stmt(sc, depth))
        return body

    def other_suite(self, sc: Scope, depth: int) -> List[Any]:
        """an else/finally/except suite or an untaken body: nothing binding inside the subset"""
        r = self.rng
        if r.random() < 0.6:
            return []
        if self.out():
            saved = dict(sc.env)
            res = self.stmts(sc, depth + 1, r.randint(1, 2))
            sc.env = saved                       # the generator does not rely on these bindings
            return res
        return self.nonbinding(r.randint(1, 2))

    def stmt(self, sc: Scope, depth: int) -> List[Any]:
        r = self.rng
        in_class = sc.kind == 'class'
        k = r.random()
        env = sc.env
        if k < 0.22:                                                    # def
            name = self.pick(MN if in_class else FN, VN + CN + FN)
            decos: List[Any] = []
            wrap = 0
            odd = False
            if in_class and r.random() < 0.5:
                wrap = r.choice([1, 2, 3])
                decos.append([0, [['staticmethod'], ['classmethod'], ['property']][wrap - 1]])
            if r.random() < 0.15:
                decos.insert(r.randint(0, len(decos)), r.choice([[0, ['deco']], [1, ['decof']]]))
            if self.out():
                extra = r.choice([[0, ['staticmethod']], [0, ['classmethod']], [0, ['property']]])
                decos.insert(0, extra)
                odd = True
            if name in sc.selfnames and wrap == 3:
                pass                        # property after `self.name = ..`: the property supersedes the ivar (fine)
            asy = r.random() < 0.2 and wrap != 3
            body = self.fun_body(sc, depth + 1, in_class and wrap in (0, 3))
            env[name] = ('fun', 9 if odd else wrap)
            if wrap == 3:
                sc.props_defined.add(name)
            else:
                sc.props_defined.discard(name)
            out = [[0, name, decos, asy, body]]
            if wrap != 3 and r.random() < 0.15:
                out.append(self.expr_str())      # a string statement right after a function / method
            if wrap == 3 and r.random() < 0.15:
                out.append(self.expr_str())      # a string statement right after a property: nobody's docstring
            return out
        if k < 0.36 and depth < self.max_depth:                          # class
            name = self.pick(CN, FN + VN)
            bases: List[str] = []
            exc = False
            q = r.random()
            local = [n for n, v in env.items() if v[0] == 'class' and n != name]
            cands: List[Tuple[str, bool]] = [(n, env[n][1]) for n in local if n not in self.pending]
            top = sc
            hidden: set = set()
            while top.parent is not None:                       # names Python would see in the module globals from a nested class body
                top = top.parent
                if top.parent is not None:
                    hidden |= set(top.env) | top.selfnames
            if top is not sc:
                cands += [(n, v[1]) for n, v in top.env.items() if v[0] == 'class' and n not in env and n not in hidden
                          and n not in sc.selfnames and n != name and n not in self.pending]
            for src in (env, top.env) if top is not sc else (env,):
                for n, v in src.items():
                    if v[0] == 'auxclass' and (src is env or (n not in env and n not in hidden)):
                        cands.append((n, v[1]))
                    if v[0] == 'auxmod' and v[1] and (src is env or (n not in env and n not in hidden)):
                        cn = r.choice(sorted(v[1]))
                        cands.append((n + '.' + cn, v[1][cn]))
            if q < 0.25:
                bases = [r.choice(BUILTIN_EXC)]
                exc = True
            elif q < 0.28:
                bases = [r.choice(NEW_EXC)]
                exc = True
            elif q < 0.60 and cands:
                b, bexc = r.choice(cands)
                bases = [b]
                exc = bexc
                if r.random() < 0.2 and not exc:
                    bases.append(r.choice(BUILTIN_EXC))
                    exc = True
            elif q < 0.65:
                bases = ['object']
            inner = Scope('class', sc)
            body = []
            if r.random() < 0.5:
                body.append(self.expr_str())
            self.pending.append(name)
            body += self.stmts(inner, depth + 1, r.randint(0, 4))
            self.pending.pop()
            if r.random() < 0.45:
                nm2 = r.choice(AN + ['z0', 'z1'])
                if not (nm2 in inner.env and inner.env[nm2][0] in ('fun', 'class')):
                    body.append([2, [[0, nm2]], [0, self.encode_value(self.atom())]])      # the body ENDS with an undocumented assignment
                    inner.env[nm2] = ('data', None)
            env[name] = ('class', exc)
            cdecos = [r.choice([[0, ['deco']], [1, ['decof']]])] if r.random() < 0.15 else []
            res_c: List[Any] = [[1, name, bases, body, cdecos]]
            if r.random() < 0.3:
                res_c.append(self.expr_str())          # a string statement right after the class: nobody's docstring
            return res_c
        if k < 0.58:                                                     # assignment
            pool = AN + VN if in_class else VN
            n_t = 1 if r.random() < 0.85 else 2
            targets = []
            for _ in range(n_t):
                name = self.pick(pool, FN + CN + MN)
                if name in env and env[name][0] in ('fun', 'class') and not self.out():
                    name = r.choice(pool)
                    if name in env and env[name][0] in ('fun', 'class'):
                        continue
                targets.append(name)
            if not targets:
                return [[12, 'pass']]
            q = r.random()
            pv: Any = None
            if in_class and q < 0.12:
                funs = [n for n, v in env.items() if v[0] == 'fun' and v[1] in (0, 1, 2)]     # also re-wrapping a static/class method
                if funs:
                    x = r.choice(funs)
                    w = r.choice(['staticmethod', 'classmethod'])
                    env[x] = ('fun', 1 if w == 'staticmethod' else 2)
                    return [[2, [[0, x]], [2, w, [x]]]]
            if q < 0.05 and self.out():
                bound = [n for n in env] or ['len']
                y = r.choice(bound)
                rhs = [1, y]
            elif q < 0.08 and in_class and self.out():
                funs = [n for n, v in env.items() if v[0] == 'fun']
                rhs = [2, 'property', [r.choice(funs)]] if funs else [3, '1 + 2']
            elif q < 0.75:
                pv = self.pyvalue()
                rhs = [0, self.encode_value(pv)]
            elif q < 0.88:
                rhs = [3, r.choice(["(len('ab') + 1)", '1 + 2', "'a' * 2", '[i for i in ()]', 'max(1, 2)'])]
            else:
                rhs = [2, r.choice(['dict', 'list', 'object']), []]
            res: List[Any]
            if r.random() < 0.12 and rhs[0] == 0:
                a, b = r.sample(pool, 2)
                if any(x in env and env[x][0] in ('fun', 'class') for x in (a, b)) or any(x in env for x in (a, b)):
                    a, b = 'tu0', 'tu1'
                env[a] = env[b] = ('data', None)
                res = [[2, [[1, [a, b]]], [0, [7, self.encode_value(self.atom()), self.encode_value(self.atom())]]]]
            elif r.random() < 0.2:
                name = targets[0]
                ann = type(pv).__name__ if (rhs[0] == 0 and not isinstance(pv, tuple) and pv is not None) else 'object'
                if isinstance(pv, tuple):
                    ann = 'object'
                if r.random() < 0.15 and self.out():
                    return [[3, [0, name], 'int', None]]
                env[name] = ('data', pv if rhs[0] == 0 else None)
                res = [[3, [0, name], ann, [rhs]]]
            else:
                for name in targets:
                    env[name] = ('data', pv if rhs[0] == 0 else None)
                res = [[2, [[0, n] for n in targets], rhs]]
            if r.random() < 0.35:
                res.append(self.expr_str())
            return res
        if k < 0.63:                                                     # augmented assignment
            ints = [n for n, v in env.items() if v[0] == 'data' and type(v[1]) in (int, float)]
            if ints:
                x = r.choice(ints)
                env[x] = ('data', None)
                return [[4, [0, x], [0, [0, r.randint(1, 5)]]]] + ([self.expr_str()] if r.random() < 0.3 else [])
            return [[12, 'pass']]
        if k < 0.70:
            return [self.expr_str()]
        if k < 0.90 and depth < self.max_depth:                          # compound statements
            res_b = self.compound(sc, depth)
            if r.random() < 0.2:
                res_b.append(self.expr_str())    # a string statement right after a block
            return res_b
        if k < 0.94:
            self.imp_n += 1
            nm = 'imp_%d' % self.imp_n
            if self.prev and r.random() < 0.7:
                modname, classes = r.choice(self.prev)
                pkgname, short = modname.rsplit('.', 1)
                if classes and r.random() < 0.6:
                    cn = r.choice(sorted(classes))
                    env[nm] = ('auxclass', classes[cn])
                    return [[11, [nm], 'from %s import %s as %s' % (modname, cn, nm), None, [[modname, cn]]]]
                env[nm] = ('auxmod', dict(classes))
                how = r.choice(['import %s as %s' % (modname, nm), 'from %s import %s as %s' % (pkgname, short, nm)])
                return [[11, [nm], how, None, [[modname, None]]]]
            env[nm] = ('aux',)
            return [[11, [nm], r.choice(['import os as %s', 'from os import path as %s', 'import sys as %s']) % nm, None, [None]]]
        return [[12, r.choice(['pass', "len('')", '...'])]]

    def compound(self, sc: Scope, depth: int) -> List[Any]:
        r = self.rng
        env = sc.env
        c = r.randint(0, 6)

        if c == 0:
            body = self.stmts(sc, depth + 1, r.randint(1, 3))
            return [[6, 1, body, self.other_suite(sc, depth), r.randint(0, 3)]]
        if c == 1:                                                   # untaken if
            return [[6, 2, self.other_suite(sc, depth), self.other_suite(sc, depth), r.randint(0, 3)]]
        if c == 2:                                                   # __main__ block: anything, never documented
            saved, sub, selfn, props = dict(env), self.sub, set(sc.selfnames), set(sc.props_defined)
            g = Gen(r, 0.0, self.max_depth, min(self.budget, 4))
            body = g.stmts(Scope(sc.kind), depth + 1, r.randint(1, 3))
            self.budget -= 2
            sc.env, self.sub = saved, sub
            return [[6, 0, body, self.other_suite(sc, depth), 0]]
        if c == 3:
            body = self.stmts(sc, depth + 1, r.randint(1, 3))
            return [[7, body, self.other_suite(sc, depth), self.other_suite(sc, depth), self.other_suite(sc, depth)]]
        if c == 4:
            return [[8, self.stmts(sc, depth + 1, r.randint(1, 3)), r.randint(0, 1)]]
        if c == 5:
            t = r.choice(AUX)
            if self.out():
                t = r.choice(FN + VN)
            if t in env and not env[t][0].startswith('aux'):
                self.sub = False
            env[t] = ('aux',)
            return [[9, t, self.stmts(sc, depth + 1, r.randint(1, 3)), self.other_suite(sc, depth)]]
        return [[10, self.stmts(sc, depth + 1, r.randint(1, 3)), self.other_suite(sc, depth)]]

    def module(self, n_stmts: int) -> Tuple[List[Any], Scope]:
        sc = Scope('module')
        body: List[Any] = []
        if self.rng.random() < 0.6:
            body.append(self.expr_str())
        body.append([0, 'deco', [], False, [[12, 'return f']], 'f'])
        body.append([0, 'decof', [], False, [[12, 'return deco']], ''])
        sc.env['deco'] = sc.env['decof'] = ('fun', 0)
        body += self.stmts(sc, 0, n_stmts)
        return body, sc


def random_package(rng: random.Random, pkg: str, p_out: float, n_mods: int, size: int, max_depth: int = 3) -> Dict[str, Any]:
    mods = []
    prev: List[Any] = []
    for i in range(n_mods):
        g = Gen(rng, p_out if rng.random() < 0.5 else 0.0, max_depth, size, prev=list(prev))
        body, sc = g.module(rng.randint(2, max(2, size // 2)))
        name = '__init__' if i == 0 else 'sub%d' % (i - 1)
        mods.append({'name': name, 'body': body, 'sub': g.sub, 'corr': True})
        if i > 0:          # later modules may import the classes this one finally binds at module level
            prev.append((pkg + '.' + name, {n: v[1] for n, v in sc.env.items() if v[0] == 'class'}))
    return {'pkg': pkg, 'mods': mods}
