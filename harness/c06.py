"""C06 -- the result does not depend on the order in which modules are analysed."""
from __future__ import annotations
import json, random, time
from typing import Any, Dict, List, Optional, Tuple
import lib
from lib import PropertyCheck, Violation, dec
import c06_lib as P

WORKER = 'c06_project.py'


# ------------------------------------------------------------------ the property, stated on dumps of the REAL tool
def class_identity(d: Any) -> Dict[str, str]:
    """A class is identified by its docstring when it has one (generated docstrings are unique), else by its short
    name: in projects with import cycles only the hierarchy is claimed, not where a class ends up."""
    return {k: (v[2] if v[2] else k.rsplit('.', 1)[-1]) for k, v in d['objects'].items()}


def hierarchy(d: Any) -> Dict[str, Any]:
    ident = class_identity(d)

    def sh(x: Optional[str]) -> Optional[str]:
        return None if x is None else ident.get(x, 'EXT:' + x.rsplit('.', 1)[-1])
    out: Dict[str, Any] = {}
    for k, v in d['objects'].items():
        if v[0] == 'Class':
            out.setdefault(sh(k), []).append([[sh(b) for b in v[5]], [sh(m) for m in v[6]]])
    for k in out:
        out[k].sort(key=json.dumps)
    return out


def oracle(case: Any, orders: List[List[int]], dumps: List[Any]) -> Optional[Dict[str, Any]]:
    """C06 on one project: what is documented is the same under every schedule; with import cycles at least the
    class hierarchy (resolved bases, linearisation) is."""
    cyc = P.cycle_modules(case) or (case.get('raw') and case.get('cyclic'))     # raw projects carry source text only
    ref = dumps[0]
    for o, d in zip(orders[1:], dumps[1:]):
        if 'exc' in ref or 'exc' in d:
            if ref.get('exc') != d.get('exc'):
                return {'what': 'the run aborts under one schedule and not under the other: %r / %r'
                        % (ref.get('exc'), d.get('exc')), 'orders': [orders[0], o], 'diffs': [], 'cyclic': bool(cyc)}
            continue
        if not cyc:
            df = P.diff(ref['objects'], d['objects'])
        else:
            df = P.diff(hierarchy(ref), hierarchy(d))
        if df:
            return {'what': ('documented objects differ' if not cyc else 'class hierarchy differs (project has an import cycle)')
                    + ' between two processing orders: ' + '; '.join(df[:3])[:700],
                    'orders': [orders[0], o], 'diffs': df[:20], 'cyclic': bool(cyc)}
        # the same objects: then what a name means in the final state (expandName, resolveName, link_to, xref) must be the same
        qs = case.get('queries') or []
        if not cyc and qs and ref.get('answers') is not None and d.get('answers') is not None and ref['answers'] != d['answers']:
            ad = [[q, a, b] for q, a, b in zip(qs, ref['answers'], d['answers']) if a != b]
            return {'what': 'the documented objects are the same but name lookups in the final state (expandName, resolveName, link_to, '
                            'xref, find_object) differ between two processing orders: '
                            + '; '.join('%s in %s: %s / %s' % (q[1], q[0], a, b) for q, a, b in ad[:3])[:700],
                    'orders': [orders[0], o], 'diffs': [], 'cyclic': False, 'answer_diffs': ad[:20]}
    if 'exc' in ref:
        return {'what': 'the run aborts: %s' % ref['exc'], 'orders': [orders[0], orders[0]], 'diffs': [], 'cyclic': bool(cyc)}
    return None


# ------------------------------------------------------------------ known findings: which class a violation is in
def final_key(case: Any, fn: List[str], rx: Dict[Tuple[int, str], Any], mi: int, name: str) -> str:
    """Where the object defined as `name` in module mi is documented: under its (single) re-exporter if it has one."""
    r = rx.get((mi, name))
    return fn[r['R']] + '.' + r['n'] if r else fn[mi] + '.' + name


def class_keys(case: Any, fn: List[str], rx: Dict[Tuple[int, str], Any], mi: int) -> List[Tuple[Any, str]]:
    """(class statement, key under which that class is finally documented) for the classes of module mi.  A name defined
    several times in a module: System.handleDuplicate renames each superseded definition to '<name> <k>' (k = 0 for the
    first one, 1 for the next, ...) and leaves it in the module; only the last definition keeps the name (and is the one a
    re-export moves)."""
    stmts = case['mods'][mi]['stmts']
    defs: Dict[str, List[int]] = {}
    for i, st in enumerate(stmts):
        if st[0] in ('class', 'def', 'var'):
            defs.setdefault(st[1], []).append(i)
    out = []
    for i, st in enumerate(stmts):
        if st[0] != 'class':
            continue
        occ = defs[st[1]]
        j = occ.index(i)
        key = final_key(case, fn, rx, mi, st[1]) if j == len(occ) - 1 else '%s.%s %d' % (fn[mi], st[1], j)
        out.append((st, key))
    return out


def stale_reference_classes(case: Any) -> List[Tuple[str, int]]:
    """(final key of the class, base position) of classes whose base expression starts with a name that the module
    binds by `from D import x` / `from D import *` where (D, x) is re-exported by another module."""
    fn = P.fullnames(case)
    rx = {(r['D'], r['x']): r for r in P.reexports(case)}
    out = []
    for mi, m in enumerate(case['mods']):
        for st, key in class_keys(case, fn, rx, mi):
            for pos, b in enumerate(st[3]):
                how, ent = P.denote(case, fn, mi, b)
                if how and ent and ent[0] == 'def' and (ent[1], ent[2]) in rx and rx[(ent[1], ent[2])]['R'] != mi:
                    if how in ('from:%d' % ent[1], 'star:%d' % ent[1]):
                        out.append((key, pos))       # incl. the renamed, superseded duplicate of such a class
                        continue
                # ... or reaches it through SOME module's import of it from the defining module under the old name
                # (e.g. `import R` + `class V(R.x)` where R, besides re-exporting x as n, also does `from D import x`)
                if any(P.via_of(case, fn, mi, b, r)[0] in ('chain-from-D', 'chain-star-D') for r in rx.values()):
                    out.append((key, pos))
    return out


def stale_query(case: Any, fn: List[str], rx: Dict[Tuple[int, str], Any], scope: str, ident: str) -> bool:
    """the first component of `ident`, looked up from `scope`, is a name that the module of the scope binds by
    `from D import x` / `from D import *` where (D, x) is re-exported by another module"""
    mi = P.module_of_scope(fn, scope)
    if mi is None:
        return False
    how, ent = P.denote(case, fn, mi, ident.split('.')[0])
    if how and ent and ent[0] == 'def' and (ent[1], ent[2]) in rx and rx[(ent[1], ent[2])]['R'] != mi \
            and how in ('from:%d' % ent[1], 'star:%d' % ent[1]):
        return True
    return any(P.via_of(case, fn, mi, ident, r)[0] in ('chain-from-D', 'chain-star-D') for r in rx.values())


def alias_assignment_classes(case: Any) -> List[Tuple[str, int]]:
    """(final key of the class, base position) of classes whose base expression starts with a name that the module binds
    by an assignment `name = dotted.name` (expanded at visit time)."""
    fn = P.fullnames(case)
    rx = {(r['D'], r['x']): r for r in P.reexports(case)}
    out = []
    for mi, m in enumerate(case['mods']):
        al = {st[1] for st in m['stmts'] if st[0] == 'alias' and '.' in st[2]}
        for st, key in class_keys(case, fn, rx, mi):
            for pos, b in enumerate(st[3]):
                if b.split('.')[0] in al:
                    out.append((key, pos))
    return out


def moved_classes(case: Any) -> List[str]:
    """final keys of the classes that a re-export moves"""
    fn = P.fullnames(case)
    out = []
    for r in P.reexports(case):
        if P.defs_of(case['mods'][r['D']])[r['x']][0] == 'class':
            out.append(fn[r['R']] + '.' + r['n'])
    return out


def multi_reexported(case: Any) -> bool:
    rx = P.reexports(case)
    keys = [(r['D'], r['x']) for r in rx]
    return len(keys) != len(set(keys))


def features(case: Any) -> Dict[str, Any]:
    cyc = P.cycle_modules(case)
    rx = P.reexports(case)
    return {
        'import_cycle': bool(cyc),
        'name_bound_twice_in_cycle_module': any(P.twice_bound(case['mods'][i]) for i in cyc),
        'reexport_in_cycle': any(r['R'] in cyc or r['D'] in cyc for r in rx),
        'star_import_in_cycle': any(st[0] == 'star' for i in cyc for st in case['mods'][i]['stmts']),
        'stale_defining_module_reference': bool(stale_reference_classes(case)),
    }


def root_causes(case: Any, orders: List[List[int]], dumps: List[Any]) -> Optional[List[Tuple[str, int]]]:
    """(class key, base position) where the resolved base objects of two dumps differ; None when the dumps differ in
    anything else than bases / baseobjects / mro of classes that exist in both."""
    a, b = dumps[0], dumps[1]
    if 'exc' in a or 'exc' in b:
        return None
    if set(a['objects']) != set(b['objects']):
        return None
    out = []
    for k in a['objects']:
        x, y = a['objects'][k], b['objects'][k]
        if x[:4] != y[:4]:
            return None
        if x[0] == 'Class':
            # a base differs when the object it finally resolves to differs, or (both unresolved) the expanded name shown
            for pos, (p, q) in enumerate(zip(zip(x[4], x[5]), zip(y[4], y[5]))):
                if p != q:
                    out.append((k, pos))
    return out


def within_registry_theorem(case: Any) -> bool:
    """The hypotheses of C06_registry_order_free, read off the case: distinct qualified names, no re-exporting import."""
    fn = P.fullnames(case)
    keys = list(fn)
    for mi, m in enumerate(case['mods']):
        allm = P.module_all(m) or []
        for st in m['stmts']:
            if st[0] in ('class', 'def', 'var'):
                keys.append(fn[mi] + '.' + st[1])
                if st[0] == 'class':
                    keys.extend(fn[mi] + '.' + st[1] + '.' + mem[1] for mem in st[4])
            elif st[0] == 'from':
                if any((a if a else o) in allm for o, a in st[3]):
                    return False
            elif st[0] == 'star' and allm:
                return False
    return len(keys) == len(set(keys))


def plain_import_rebinding(case: Any, observed: Any) -> bool:
    """Every difference between the two dumps is an attribute Class.name present under one order only, in a class whose
    base is written through a name that the module binds with a plain `import` statement (which does not trigger the
    analysis of the imported module), and `name` is re-bound in that class."""
    import ast
    dumps = (observed or {}).get('dumps', [])
    if len(dumps) != 2 or any('exc' in d for d in dumps):
        return False
    a, b = dumps
    fn = P.fullnames(case)
    keys = set(a) ^ set(b)
    if not keys or any(a[k] != b[k] for k in set(a) & set(b)):
        return False
    for k in keys:
        mi = P.module_of_scope(fn, k)
        rest = k[len(fn[mi]) + 1:].split('.') if mi is not None else []
        if len(rest) != 2 or (a.get(k) or b.get(k))[0] != 'Attribute':
            return False
        tree = ast.parse(P.render(case['mods'][mi]))
        plain = set()
        for node in tree.body:
            if isinstance(node, ast.Import):
                for al in node.names:
                    plain.add(al.asname if al.asname else al.name.split('.')[0])
        cl = [n for n in tree.body if isinstance(n, ast.ClassDef) and n.name == rest[0]]
        if not cl:
            return False
        roots = set()
        for bexp in cl[0].bases:
            while isinstance(bexp, ast.Attribute):
                bexp = bexp.value
            if isinstance(bexp, ast.Name):
                roots.add(bexp.id)
        if not (roots & plain):
            return False
    return True


def class_scope_cases() -> List[Any]:
    """Oracle-only projects (imports inside class bodies and nested classes are outside the model): a NESTED class whose
    base expression starts with a name that only an ENCLOSING CLASS body binds, by an import that does not analyse the
    imported module on demand (plain `import`), or by a from-import of a module that is still being analysed (import
    cycle).  Under the orders that reach the nested class before the module of its base, the base is unresolved at visit
    time and only the second base-resolution pass can find it; what it finds must be what the other orders found at
    visit time (lookup from the enclosing class, not from the module).  Variations: how the name is bound (plain import
    with / without `as`, of a root module or of a sub-module of a package, from-import in a cycle), nesting depth of the
    class under the binding class, a DIFFERENT binding of the same name at module level (decoy), position of the
    defining module among its siblings (name sorting before / after the user), a consumer module that inherits through
    the nested class."""
    out: List[Any] = []

    def mod(name: str, src: str, parent: Optional[int] = None, pkg: bool = False) -> Any:
        return {'name': name, 'parent': parent, 'pkg': pkg, 'doc': None, 'stmts': [], 'src': src}

    BASES = ('class Root:\n    "root of %(m)s"\n    def handle(self):\n        "doc of %(m)s.Root.handle"\n'
             'class Base(Root):\n    "base of %(m)s"\n')

    def user(binder: str, expr: str, depth: int, decoy: Optional[str], extra_base: Optional[str] = None) -> str:
        L = []
        if decoy:
            L.append(decoy)
        L.append('class Registry:')
        L.append('    "registry"')
        L.append('    ' + binder)
        ind = '    '
        for d in range(depth - 1):
            L.append(ind + 'class Group%d:' % d)
            L.append(ind + '    "group %d"' % d)
            ind += '    '
        bs = [expr] + ([extra_base] if extra_base else [])
        L.append(ind + 'class Default(%s):' % ', '.join(bs))
        L.append(ind + '    "default handler"')
        L.append(ind + '    def extra(self):')
        L.append(ind + '        "doc of Default.extra"')
        return '\n'.join(L) + '\n'

    def consumer(uname: str, depth: int) -> str:
        path = 'Registry.' + ''.join('Group%d.' % d for d in range(depth - 1)) + 'Default'
        return 'from %s import Registry\nclass Sub(%s):\n    "sub"\n' % (uname, path)

    # (label, defining module name, user module name, binder statement, base expression)
    forms = [
        ('import-as', 'handlers', 'app', 'import handlers as h', 'h.Base'),
        ('import', 'handlers', 'app', 'import handlers', 'handlers.Base'),
        ('import-as-user-sorts-last', 'handlers', 'zapp', 'import handlers as h', 'h.Base'),
    ]
    for label, dname, uname, binder, expr in forms:
        for depth in (1, 2):
            for decoy in (None, 'import decoy as %s' % expr.split('.')[0]):
                if decoy and depth == 2:
                    continue
                mods = [mod(uname, user(binder, expr, depth, decoy)), mod(dname, BASES % {'m': dname}),
                        mod('extra', consumer(uname, depth))]
                if decoy:
                    mods.append(mod('decoy', BASES % {'m': 'decoy'}))
                out.append({'mods': mods, 'queries': [], 'raw': True, 'class_scope': True,
                            'label': 'raw/class-scope-%s-depth%d%s' % (label, depth, '-decoy' if decoy else '')})
    # the base lives in a sub-module of a package
    for label, binder, expr in (('pkg-import-as', 'import pkg.handlers as h', 'h.Base'),
                                ('pkg-import', 'import pkg.handlers', 'pkg.handlers.Base')):
        for depth in (1, 2):
            mods = [mod('app', user(binder, expr, depth, None)), mod('pkg', '', pkg=True),
                    mod('handlers', BASES % {'m': 'pkg.handlers'}, parent=1), mod('extra', consumer('app', depth))]
            out.append({'mods': mods, 'queries': [], 'raw': True, 'class_scope': True,
                        'label': 'raw/class-scope-%s-depth%d' % (label, depth)})
    # two bases, one bound in the class body and one at module level
    mods = [mod('app', 'import mixins\n' + user('import handlers as h', 'h.Base', 1, None, 'mixins.Mixin')),
            mod('handlers', BASES % {'m': 'handlers'}), mod('mixins', 'class Mixin:\n    "mixin"\n'),
            mod('extra', consumer('app', 1))]
    out.append({'mods': mods, 'queries': [], 'raw': True, 'class_scope': True, 'label': 'raw/class-scope-two-bases'})
    # from-import in the class body of a module on an import cycle (the class hierarchy is what is claimed)
    for depth in (1, 2):
        mods = [mod('app', user('from handlers import Base', 'Base', depth, None)),
                mod('handlers', 'from app import Registry\n' + BASES % {'m': 'handlers'} + 'def make() -> Registry:\n    "factory"\n'),
                mod('extra', consumer('app', depth))]
        out.append({'mods': mods, 'queries': [], 'raw': True, 'class_scope': True, 'cyclic': True,
                    'label': 'raw/class-scope-from-in-cycle-depth%d' % depth})
    return out


def gen_random(rng: random.Random) -> Any:
    """random project in which every object has at most one re-exporter (the quantifier of C06/C07)"""
    while True:
        r = rng.random()
        c = P.random_project(rng, allow_cycles=r < 0.45, allow_dups=r < 0.8)
        if not multi_reexported(c):
            return c


class Check(PropertyCheck):
    id = 'C06'
    props_module = 'Props.C06'
    models = {'project': 'XProject.v'}
    needs_gen = True
    gen_modules = ['gen_c06_code']
    want_doclinks = False
    rule = ('projects = corpus + the re-export matrix {package, sibling} x {plain, renamed, star} x {consumer from D, from R, both, '
            'module alias, star import of D, star import of R} + every project of N flat modules with <= 1 import each (from / star / import-module, before or after '
            'the class, used as base or not) + seeded random projects (packages, every import form, acyclic inheritance, __all__ '
            're-exports, duplicates, cycles); each under ALL reachable schedules when there are <= 24, else 24 sampled; '
            'non-trivial = at least two modules, a cross-module base and at least two schedules; distinct by JSON text')
    trusted_base = [
        'Coq 8.16.1 kernel (vm_compute for the _refuted witnesses and Examples; no native_compute); no axioms',
        'extraction: ExtrOcamlBasic only; OCaml 4.13.1; coq/ocaml/driver.ml',
        'translator harness/gen/gen_c06_code.py (bodies of ModuleVistor._getCurrentModuleExports / _handleReExport and Documentable.reparent / '
        '_handle_reparenting_pre / _post -> Gen/ReexportCode.v, fail-closed) and the meaning Model/ReexportIR.v gives to its primitives '
        '(self.builder.current, isinstance on the class tag, .all / .parent / .name / .contents.get, resolveName and fullName = the model\'s '
        'resolve_name and full_name, dict updates as association-list updates, `del` of a missing key not modelled; report / msg dropped)',
        'harness/c06.py, harness/c06_lib.py (generators, static analyses: import graph, re-exports, Python binding of a dotted name), '
        'harness/impl/c06_project.py (real System built with SystemBuilder.addModuleString, system.unprocessed_modules permuted)',
        'modelled not verified (sampled by the correspondence check only): nested classes and imports inside class bodies, Class.find '
        '(inherited lookup inside expandName, _maybeAttribute), duplicate module names, unparsable modules, the C3 linearisation itself '
        '(a function of the resolved bases; C05), docstring rendering caches',
    ]
    assumptions = ['the schedule is a permutation of the project\'s modules; every module parses',
                   'theorems: one binding per name per scope and distinct qualified names (C06_registry_order_free), see Props/C06.v']
    manifest = {
        'text': ('Model/Project.v: the module work-list machine (explicit frame stack = Python\'s call stack of processModule -> '
                 'getProcessedModule) with the registry, per-scope alias maps, visit-time base resolution, __all__ re-exports '
                 '(reparent) and the second base-resolution pass. PROVED for ALL projects and ALL schedules: (1) the final registry is '
                 'the one the source text defines, hence keys, class, kind and docstring of every object are order independent '
                 '(C06_registry_static, C06_registry_order_free; hypotheses: distinct qualified names, no re-exporting import; import '
                 'cycles allowed; includes termination and no failing assert); (2) the base OBJECTS finally kept for every class are '
                 'order independent, with import cycles (C06_cycles_hierarchy, C06_bases_order_free; extra hypotheses: no star import, '
                 'no `x = dotted.name` alias statement, imported names bound once and not shadowing definitions / sub-modules / root '
                 'modules; proof by monotonicity of expandName along a run); (3) the final alias map of every module is a function of '
                 'its text (C06_alias_maps_syntactic); (4) the orders the tool can realise (depth-first preorders, Spec/'
                 'ProjectSchedules.v) are among the schedules quantified over (C06_schedules_reachable, C06_registry_tool_orders). '
                 'TIE TO THE SOURCE: the current bodies of _getCurrentModuleExports and _handleReExport (and, for C07, Documentable.reparent '
                 'with its two registry walks) are translated statement by statement into a deep-embedded language (Gen/ReexportCode.v) and '
                 'interpreting that code is proved equal to the model\'s exports_of / handle_reexport / reparent for every state and all '
                 'arguments (C06_code_exports_is_model, C06_code_handle_reexport_is_model, C07_code_reparent_is_model, '
                 'C07_code_registry_walks_is_model), by symbolic execution, so equivalent rewrites of the Python still prove and a changed '
                 'decision chain breaks an obligation. '
                 'REFUTED with vm_compute witnesses (known findings): duplicate name inside an import cycle, stale name of a re-exported '
                 'object imported from its defining module, bases of a moved class re-resolved in the re-exporter\'s scope, re-export / '
                 'star import inside an import cycle, `x = m.B` expanded at visit time. Tie: per-schedule diff of the model dump with the '
                 'real System on EVERY reachable schedule of generated projects; oracle: dumps of the real tool under two schedules '
                 'are equal (with import cycles: the class hierarchy) and, when they are, so are the name lookups in the final state '
                 '(expandName / resolveName / link_to / xref / find_object answers).'),
        'note': ('Partial: the linearisation itself is C05\'s (a function of the resolved bases); the positive theorems carry "one '
                 'binding per name per scope" and "no re-export" (one re-export: C07_moved_once and the C07 reach theorems); star imports '
                 'and several re-exports per project are covered by correspondence + oracle only. Seven genuine order dependences of '
                 'pydoctor are recorded as known findings.'),
        'technique': 'Coq proof (step invariants of an explicit-stack machine, monotone name expansion) + exhaustive-schedule model/implementation correspondence',
    }

    # ------------------------------------------------------------------ inputs
    def gen_cases(self, thorough: bool) -> List[Any]:
        out: List[Any] = []
        for label, c in P.corpus():
            c = dict(c); c['label'] = label
            out.append(c)
        out.extend(P.reexport_matrix())
        fam2 = P.small_family(2, ['from', 'star', 'mod'])
        for c in fam2:
            c['label'] = 'family2'
        out.extend(fam2)
        fam3 = P.small_family(3, ['from', 'star', 'mod'] if thorough else ['from'])
        for c in fam3:
            c['label'] = 'family3'
        out.extend(fam3)
        self.stats['exhaustive_bound'] = ('all projects of 2 flat modules x {from, star, import-module} and of 3 flat modules x %s, '
                                          'every schedule; re-export matrix 2x3x6, every schedule; oracle-only projects, every schedule: inherited re-binding through module aliases, exception hierarchies, and 16 projects with a nested class whose base is bound by an import in an enclosing class body (plain import / from-import in a cycle, depth 1-2, module-level decoy, package sub-module)'
                                          % ('{from, star, import-module}' if thorough else '{from}'))
        self.exhaustive = True
        nrand = 3000 if thorough else 140
        for k in range(nrand):
            c = gen_random(self.rng)
            c['label'] = 'random'
            out.append(c)
        self.stats['random_projects'] = nrand
        return out

    def run_cases(self, cases: List[Any], limit: int = 24) -> List[Tuple[Any, List[List[int]], List[Any], bool]]:
        orders = [P.all_reachable_orders(c, limit, self.rng) for c in cases]
        impl = lib.run_impl_worker(WORKER, [P.impl_job(c, o[0], self.want_doclinks) for c, o in zip(cases, orders)], jobs=16)
        return [(c, o[0], im, o[1]) for c, o, im in zip(cases, orders, impl)]

    # ------------------------------------------------------------------ check
    def schedules_definition(self) -> List[Violation]:
        """The schedules this check enumerates are the `tool_order`s of Spec/ProjectSchedules.v: on the project of
        C06_schedules_example (Props/C06.v) they are exactly the four orders proved there.  (That the real tool
        processes the modules in the order given is observed per run: the worker's `order_seen`.)"""
        c = {'mods': [P.M('pkg', [], pkg=True), P.M('a', [], parent=0), P.M('b', [], parent=0), P.M('top', [])]}
        got, complete = P.all_reachable_orders(c, 100, self.rng)
        want = [[0, 1, 2, 3], [0, 2, 1, 3], [3, 0, 1, 2], [3, 0, 2, 1]]
        if not complete or sorted(got) != sorted(want):
            return [Violation('correspondence', 'harness schedules differ from tool_order of Spec/ProjectSchedules.v '
                              '(C06_schedules_example)', case={'case': c, 'orders': got}, expected=want, observed=got)]
        return []

    def correspondence(self) -> List[Violation]:
        out: List[Violation] = list(self.schedules_definition())
        cases = self.gen_cases(self.tier == 'thorough')
        t0 = time.time()
        runs = self.run_cases(cases)
        self.stats['impl_seconds'] = round(time.time() - t0, 1)
        inputs: List[str] = []
        tabs: List[P.Tables] = []
        for c, orders, im, complete in runs:
            t = P.Tables()
            tabs.append(t)
            for o in orders:
                inputs.append(P.to_model(c, o, t))
        model = self.model('project', inputs)
        k = 0
        nt = set()
        ncorr = 0
        norc = 0
        for (c, orders, im, complete), t in zip(runs, tabs):
            lab = c.get('label', '?').split('/')[0]
            self.count('projects_' + lab)
            self.count('modules_%d' % len(c['mods']))
            self.count('schedules_all' if complete else 'schedules_sampled')
            f = features(c)
            for kf, vf in f.items():
                if vf:
                    self.count('feature_' + kf)
            if P.reexports(c):
                self.count('feature_reexport')
            if within_registry_theorem(c):
                self.count('within_hypotheses_of_C06_registry_order_free')
            xbase = any(st[0] == 'class' and st[3] for m in c['mods'] for st in m['stmts'])
            if len(c['mods']) >= 2 and xbase and len(orders) >= 2:
                nt.add(json.dumps([c['mods'], c.get('queries')], sort_keys=True))
            for o, d in zip(orders, im):
                self.evaluations += 1
                cm = P.canon_model(dec(model[k]), t)
                k += 1
                ci = P.canon_impl(d)
                if 'exc' in d:
                    self.count('impl_exception')
                if cm != ci and ncorr < 12:
                    ncorr += 1
                    df = P.diff(cm, ci)
                    out.append(Violation('correspondence', 'Model.Project and the real System disagree under order %s: %s'
                                         % (o, '; '.join(df[:3])[:600]), case={'case': c, 'orders': [o]},
                                         expected=cm, observed=ci))
            for vio in self.project_oracle(c, orders, im):
                if norc < 400:
                    norc += 1
                    out.append(vio)
        # oracle-only projects (shapes the model does not cover: inherited lookups)
        raw = P.raw_cases() + class_scope_cases()
        for c, orders, im, complete in self.run_cases(raw):
            self.count('projects_raw')
            if c.get('class_scope'):
                self.count('projects_raw_base_bound_in_enclosing_class')
            self.evaluations += len(orders)
            nt.add(json.dumps(c['mods'], sort_keys=True))
            for vio in self.project_oracle(c, orders, im):
                out.append(vio)
        self.stats['distinct_nontrivial'] = len(nt)
        for c, orders, im, complete in runs[:1] + runs[45:47] + runs[-2:]:
            self.sample({'label': c.get('label'), 'modules': [[m['name'], P.render(m)] for m in c['mods']],
                         'schedules': len(orders)})
        if self.tier == 'thorough':
            out.extend(self.real_packages())
        return out

    def real_packages(self) -> List[Violation]:
        """pydoctor's own source under sampled reachable schedules: dumps compared with each other."""
        out = []
        pk = [str(lib.REPO / 'pydoctor')]
        res = lib.run_impl_worker(WORKER, [{'package_dirs': pk, 'nschedules': 10, 'seed': self.seed}], timeout=3000)[0]
        dumps = res['dumps']
        self.stats['real_package_schedules'] = len(dumps)
        self.stats['real_package_objects'] = len(dumps[0].get('objects', {}))
        self.evaluations += len(dumps)
        ref = dumps[0]
        for o, d in zip(res['orders'][1:], dumps[1:]):
            a = {k: v for k, v in ref.get('objects', {}).items()}
            b = {k: v for k, v in d.get('objects', {}).items()}
            # pydoctor's own packages have import cycles: the property claims the class hierarchy
            ha = {k: [v[5], v[6]] for k, v in a.items() if v[0] == 'Class'}
            hb = {k: [v[5], v[6]] for k, v in b.items() if v[0] == 'Class'}
            df = P.diff(ha, hb)
            if 'exc' in ref or 'exc' in d:
                df = ['exception: %r / %r' % (ref.get('exc'), d.get('exc'))]
            if df:
                out.append(Violation('oracle', 'class hierarchy of pydoctor\'s own source differs between two reachable schedules: '
                                     + '; '.join(df[:3])[:600],
                                     case={'package_dirs': pk, 'orders': [res['orders'][0], o]}, observed=df[:20]))
                break
            self.stats['real_package_full_dump_equal'] = self.stats.get('real_package_full_dump_equal', 0) + (1 if a == b else 0)
        return out

    def project_oracle(self, c: Any, orders: List[List[int]], im: List[Any]) -> List[Violation]:
        v = oracle(c, orders, im)
        if v is None:
            return []
        self.count('oracle_violations_' + ('cyclic' if v['cyclic'] else 'acyclic'))
        two = [im[orders.index(v['orders'][0])], im[orders.index(v['orders'][1])]]
        return [Violation('oracle', v['what'], case={'case': c, 'orders': v['orders']},
                          observed={'diffs': v['diffs'], 'dumps': [x.get('objects', x) for x in two],
                                    'answer_diffs': v.get('answer_diffs')})]

    # ------------------------------------------------------------------ search / classify / replay
    def search(self, broken: List[Violation]) -> List[Violation]:
        """A proof or the correspondence broke: run the oracle (real tool, two schedules) on a larger stream."""
        out: List[Violation] = []
        seeds = [b.case['case'] for b in broken if isinstance(b.case, dict) and 'case' in b.case][:10]
        rng = random.Random(self.seed + 17)
        cases = list(seeds)
        cases.extend(P.small_family(3, ['from', 'mod']))
        for _ in range(600):
            cases.append(gen_random(rng))
        known, _ = lib.load_known_findings(self.id)
        for c, orders, im, complete in self.run_cases(cases):
            for vio in self.project_oracle(c, orders, im):
                if self.classify_known(vio, known) is None:
                    out.append(vio)
            if len(out) >= 5:
                break
        return out

    def classify_known(self, v: Violation, known: List[dict]) -> Optional[dict]:
        if v.kind != 'oracle' or not isinstance(v.case, dict) or 'case' not in v.case:
            return None
        case = v.case['case']
        by = {k['id']: k for k in known}
        if case.get('raw'):
            return by.get('C06-plain-import-inherited-rebinding') if plain_import_rebinding(case, v.observed) else None
        f = features(case)
        dumps = [{'objects': d} if 'exc' not in d else d for d in (v.observed or {}).get('dumps', [])]
        if len(dumps) != 2 or any('exc' in d for d in dumps):
            return None
        ad = (v.observed or {}).get('answer_diffs')
        if ad:
            # same objects, different name lookups: known only when EVERY differing lookup goes through a name imported
            # from the defining module of a re-exported object (the alias then holds the old or the new name depending on
            # whether the re-export had happened when the import was analysed)
            fn = P.fullnames(case)
            rx = {(r['D'], r['x']): r for r in P.reexports(case)}
            if all(stale_query(case, fn, rx, q[0], q[1]) for q, _, _ in ad):
                return by.get('C06-stale-defining-module-name')
            return None
        # (a) the stale name of a re-exported object: every class whose resolved bases differ refers to the object
        #     through an import from the defining module; nothing but bases/mro differs
        rc = root_causes(case, v.case['orders'], dumps)
        stale = set(stale_reference_classes(case))
        if rc and all(x in stale for x in rc) and 'C06-stale-defining-module-name' in by:
            return by['C06-stale-defining-module-name']
        alias_cls = set(alias_assignment_classes(case))
        if rc and all(x in alias_cls for x in rc) and 'C06-alias-assignment-visit-time' in by:
            return by['C06-alias-assignment-visit-time']
        # (a') a class that a re-export moved: compute_mro re-resolves its unresolved bases in the NEW parent module
        moved = set(moved_classes(case))
        if rc and all(x in stale or x[0] in moved for x in rc) and 'C06-moved-class-bases-rescoped' in by:
            return by['C06-moved-class-bases-rescoped']
        if not f['import_cycle']:
            return None
        # (b) order dependences that need an import cycle; only the class hierarchy is compared for these projects
        for kid, feat in (('C06-dup-in-cycle', 'name_bound_twice_in_cycle_module'),
                          ('C06-reexport-in-cycle', 'reexport_in_cycle'),
                          ('C06-star-import-in-cycle', 'star_import_in_cycle')):
            if f[feat] and kid in by:
                return by[kid]
        return None

    def replay(self, data: Any) -> int:
        inp = data['input']
        if 'package_dirs' in inp:
            print('real package run; re-run ./check C06 --tier thorough')
            return 1
        case, orders = inp['case'], inp['orders']
        for m in case['mods']:
            print('# ---- module %s%s' % (m['name'], ' (package)' if m['pkg'] else ''))
            print(P.render(m))
        if len(orders) == 1:
            orders = orders + orders
        im = lib.run_impl_worker(WORKER, [P.impl_job(case, orders)])[0]
        fn = P.fullnames(case)
        for o, d in zip(orders, im):
            print('order %s:' % [fn[i] for i in o])
            for k, v in sorted(d.get('objects', {}).items()):
                print('   ', k, v)
            if 'exc' in d:
                print('    EXCEPTION', d['exc'])
        v = oracle(case, orders, im)
        if data.get('kind') == 'correspondence' and not case.get('raw'):
            t = P.Tables()
            from lib import build_model
            b, _ = build_model(self.id + '_project', 'XProject.v')
            m = lib.run_model(b, [P.to_model(case, orders[0], t)])[0]
            cm, ci = P.canon_model(dec(m), t), P.canon_impl(im[0])
            df = P.diff(cm, ci)
            print('model vs implementation:', df[:10] or 'agree')
            print('property (two schedules):', v['what'] if v else 'holds on this input')
            return 1 if (df or v) else 0
        print('property requires: the same documented objects (with import cycles: the same class hierarchy) under both orders')
        print('property:', v['what'] if v else 'holds on this input')
        if v:
            known, _ = lib.load_known_findings('C06')
            two = [im[orders.index(v['orders'][0])], im[orders.index(v['orders'][1])]]
            k = self.classify_known(Violation('oracle', v['what'], case={'case': case, 'orders': v['orders']},
                                              observed={'diffs': v['diffs'], 'dumps': [x.get('objects', x) for x in two],
                                                        'answer_diffs': v.get('answer_diffs')}), known)
            if k:
                print('this is the listed known finding %s (a defect of the unchanged tree, not of a change under test)' % k['id'])
        return 1 if v else 0
