"""C04 generator: acyclic multi-package Python projects in the property's subset.

A project is {"modules": [{"name", "pkg", "all", "body"}], "order": [...]} with statements
  ["import", "a.b", asname|None] | ["from", level, "mod" (may be ""), [[orig, asname|None], ...]] | ["star", level, "mod"]
  | ["class", name, base|None, body] | ["def", name] | ["alias", target, "y.z"]
Every definition has a globally unique name, every name is bound once per scope, imports only go to modules that are
earlier in a hidden dependency order (so the project imports without error under CPython; the generator keeps its own
little namespace table to pick only references that exist when the statement runs -- CPython then validates).
"""
from __future__ import annotations
import random
from typing import Any, Dict, List, Optional, Tuple


# ------------------------------------------------------------------ rendering
def render_module(m: dict) -> str:
    out = ['"""@@%s"""' % m['name']]
    if m.get('all') is not None:
        out.append('__all__ = [%s]' % ', '.join(repr(x) for x in m['all']))
    out.extend(render_body(m['body'], 0, m['name'], [], False))
    return '\n'.join(out) + '\n'


def render_body(body: List[Any], ind: int, mod: str, qual: List[str], in_class: bool) -> List[str]:
    pad = '    ' * ind
    out: List[str] = []
    for s in body:
        k = s[0]
        if k == 'import':
            out.append(pad + 'import %s%s' % (s[1], ' as %s' % s[2] if s[2] else ''))
        elif k == 'from':
            names = ', '.join('%s%s' % (o, ' as %s' % a if a else '') for o, a in s[3])
            out.append(pad + 'from %s%s import %s' % ('.' * s[1], s[2], names))
        elif k == 'star':
            out.append(pad + 'from %s%s import *' % ('.' * s[1], s[2]))
        elif k == 'class':
            out.append(pad + 'class %s%s:' % (s[1], '(%s)' % s[2] if s[2] else ''))
            out.append(pad + '    """@@%s"""' % '.'.join([mod] + qual + [s[1]]))
            out.extend(render_body(s[3], ind + 1, mod, qual + [s[1]], True))
        elif k == 'def':
            out.append(pad + 'def %s(%s):' % (s[1], 'self' if in_class else ''))
            out.append(pad + '    """@@%s"""' % '.'.join([mod] + qual + [s[1]]))
        elif k == 'alias':
            out.append(pad + '%s = %s' % (s[1], s[2]))
        else:
            raise ValueError(s)
    return out


def files_of(proj: dict) -> Dict[str, str]:
    files = {}
    for m in proj['modules']:
        rel = m['name'].replace('.', '/')
        files[rel + ('/__init__.py' if m['pkg'] else '.py')] = render_module(m)
    return files


def roots_of(proj: dict) -> List[str]:
    out = []
    for m in proj['modules']:
        if '.' not in m['name']:
            out.append(m['name'] if m['pkg'] else m['name'] + '.py')
    return sorted(out)


# ------------------------------------------------------------------ wire encoding (names -> atoms)
def all_idents(proj: dict, extra: List[str]) -> List[str]:
    ids = set()

    def dotted(d: str) -> None:
        for p in d.split('.'):
            if p:
                ids.add(p)

    def body(b: List[Any]) -> None:
        for s in b:
            k = s[0]
            if k == 'import':
                dotted(s[1])
                if s[2]:
                    ids.add(s[2])
            elif k == 'from':
                dotted(s[2])
                for o, a in s[3]:
                    ids.add(o)
                    if a:
                        ids.add(a)
            elif k == 'star':
                dotted(s[2])
            elif k == 'class':
                ids.add(s[1])
                if s[2]:
                    dotted(s[2])
                body(s[3])
            elif k == 'def':
                ids.add(s[1])
            elif k == 'alias':
                ids.add(s[1])
                dotted(s[2])
    for m in proj['modules']:
        dotted(m['name'])
        for a in m.get('all') or []:
            ids.add(a)
        body(m['body'])
    for e in extra:
        dotted(e)
    return sorted(ids)


class Atoms:
    """identifier <-> atom; an atom is odd iff the identifier starts with '_' (Base/ImportSyntax.v is_private)."""

    def __init__(self, idents: List[str]):
        self.to: Dict[str, int] = {}
        self.back: Dict[int, str] = {}
        for i, s in enumerate(idents):
            a = 2 * (i + 1) + (1 if s.startswith('_') else 0)
            self.to[s] = a
            self.back[a] = s

    def path(self, dotted: str) -> List[int]:
        return [self.to[p] for p in dotted.split('.') if p]

    def unpath(self, l: List[int]) -> str:
        return '.'.join(self.back.get(a, '?%d' % a) for a in l)


def wire_project(proj: dict, at: Atoms) -> List[Any]:
    def opt(x: Any) -> List[Any]:
        return [] if x is None else [x]

    def body(b: List[Any]) -> List[Any]:
        out = []
        for s in b:
            k = s[0]
            if k == 'import':
                out.append([0, at.path(s[1]), opt(at.to[s[2]] if s[2] else None)])
            elif k == 'from':
                out.append([1, s[1], at.path(s[2]), [[at.to[o], opt(at.to[a] if a else None)] for o, a in s[3]]])
            elif k == 'star':
                out.append([2, s[1], at.path(s[2])])
            elif k == 'class':
                out.append([3, at.to[s[1]], opt(at.path(s[2]) if s[2] else None), body(s[3])])
            elif k == 'def':
                out.append([4, at.to[s[1]]])
            elif k == 'alias':
                out.append([5, at.to[s[1]], at.path(s[2])])
        return out
    mods = []
    for m in proj['modules']:
        mods.append([at.path(m['name']), 1 if m['pkg'] else 0,
                     opt([at.to[a] for a in m['all']] if m.get('all') is not None else None), body(m['body'])])
    return mods


# ------------------------------------------------------------------ the generator
Value = Tuple[Any, ...]     # ('mod', name) | ('obj', module, qual tuple)


class Gen:
    def __init__(self, rng: random.Random, size: str = 'normal', shadow: float = 0.0, reexport: float = 0.35,
                 star: float = 0.5, simple: bool = False, prefix_roots: bool = False):
        # prefix_roots = every later root is named <first root><own name>: the name of one root is a strict string prefix of
        # the names of the others (core / coretools), the shorter one being added first (roots_of sorts)
        self.prefix_roots = prefix_roots
        # simple = the subset of the whole-project theorem: imports of every form, defs, classes; no alias
        # assignment, no base expression, no star import, no re-export
        self.simple = simple
        self.rng = rng
        self.size = size
        self.p_shadow = shadow
        self.p_reexport = reexport
        self.p_star = star
        self.counter = 0
        self.mods: Dict[str, dict] = {}
        self.children: Dict[str, List[str]] = {}
        self.ns: Dict[str, Dict[str, Value]] = {}
        self.cls_ns: Dict[Tuple[str, Tuple[str, ...]], Dict[str, Value]] = {}
        self.cls_base: Dict[Tuple[str, Tuple[str, ...]], Optional[Value]] = {}
        self.kinds: Dict[Tuple[str, Tuple[str, ...]], str] = {}
        self.init_sub: Dict[str, set] = {}
        self.reexported: set = set()
        self.noinherit: set = set()      # classes that rebind a module-level name: never used as a base (see known finding 3)
        self.features: Dict[str, int] = {}

    def feat(self, k: str) -> None:
        self.features[k] = self.features.get(k, 0) + 1

    def fresh(self, prefix: str, private: float = 0.15) -> str:
        self.counter += 1
        u = '_' if self.rng.random() < private else ''
        return '%s%s%d' % (u, prefix, self.counter)

    # -- package tree
    def tree(self) -> None:
        r = self.rng
        nroots = r.choice([1, 1, 2, 2, 3]) if self.size != 'small' else r.choice([1, 2])

        def pkg(name: str, depth: int) -> None:
            self.mods[name] = {'name': name, 'pkg': True, 'all': None, 'body': []}
            self.children[name] = []
            nmods = r.randint(1, 3 if self.size != 'small' else 2)
            for _ in range(nmods):
                c = name + '.' + self.fresh('m', 0.25)
                self.mods[c] = {'name': c, 'pkg': False, 'all': None, 'body': []}
                self.children[name].append(c)
            if depth < 3 and r.random() < (0.6 if depth == 1 else 0.45):
                for _ in range(r.choice([1, 1, 2])):
                    c = name + '.' + self.fresh('p', 0.1)
                    self.children[name].append(c)
                    pkg(c, depth + 1)
        first: List[str] = []

        def rootname(n: str) -> str:
            if self.prefix_roots and first:
                n = first[0] + n
            first.append(n)
            return n
        for _ in range(nroots):
            if r.random() < 0.75:
                pkg(rootname(self.fresh('p', 0.0)), 1)
            else:
                n = rootname(self.fresh('m', 0.0))
                self.mods[n] = {'name': n, 'pkg': False, 'all': None, 'body': []}

    # -- namespaces as the generator understands them
    def attr(self, v: Value, n: str, imported: set) -> Optional[Value]:
        if v[0] == 'mod':
            x = v[1]
            if n in self.ns.get(x, {}):
                return self.ns[x][n]
            sub = x + '.' + n
            if sub in self.mods and (n in self.init_sub.get(x, set()) or sub in imported):
                return ('mod', sub)
            return None
        key = (v[1], v[2])
        seen = 0
        while key is not None and seen < 20:
            if self.kinds.get(key) != 'class':
                return None
            if n in self.cls_ns.get(key, {}):
                return self.cls_ns[key][n]
            b = self.cls_base.get(key)
            key = (b[1], b[2]) if b is not None and b[0] == 'obj' else None
            seen += 1
        return None

    def attrs_of(self, v: Value, imported: set) -> List[str]:
        if v[0] == 'mod':
            x = v[1]
            out = list(self.ns.get(x, {}))
            for c in self.children.get(x, []):
                short = c.rsplit('.', 1)[1]
                if short not in out and (short in self.init_sub.get(x, set()) or c in imported):
                    out.append(short)
            return out
        out = []
        key = (v[1], v[2])
        seen = 0
        while key is not None and seen < 20 and self.kinds.get(key) == 'class':
            for k in self.cls_ns.get(key, {}):
                if k not in out:
                    out.append(k)
            b = self.cls_base.get(key)
            key = (b[1], b[2]) if b is not None and b[0] == 'obj' else None
            seen += 1
        return out

    def is_class(self, v: Optional[Value]) -> bool:
        return v is not None and v[0] == 'obj' and self.kinds.get((v[1], v[2])) == 'class'

    # -- import forms
    def relative_form(self, m: str, target: str) -> Optional[Tuple[int, str]]:
        """(level, modname) such that `from <level dots><modname>` in module m names `target`, if possible."""
        pk = m if self.mods[m]['pkg'] else (m.rsplit('.', 1)[0] if '.' in m else '')
        if not pk:
            return None
        P = pk.split('.')
        T = target.split('.')
        common = 0
        while common < len(P) and common < len(T) and P[common] == T[common]:
            common += 1
        if common == 0:
            return None
        keep = self.rng.randint(1, common)          # how much of the package path is the base
        level = len(P) - keep + 1
        if level > 4:
            keep = len(P) - 3
            level = 4
            if keep > common or keep < 1:
                return None
        return level, '.'.join(T[keep:])

    def mark_imported(self, imported: set, target: str, cur: str) -> None:
        parts = target.split('.')
        for i in range(1, len(parts) + 1):
            imported.add('.'.join(parts[:i]))
        if self.mods[cur]['pkg']:
            # a submodule imported from the package's own __init__ becomes an attribute while __init__ runs
            for i in range(1, len(parts)):
                par = '.'.join(parts[:i])
                self.init_sub.setdefault(par, set())
        # whoever runs this statement makes target an attribute of its parent package for everybody afterwards
        # only when the statement runs inside that package's __init__ can later modules rely on it
        if '.' in target:
            par, short = target.rsplit('.', 1)
            if par == cur:
                self.init_sub.setdefault(par, set()).add(short)

    # -- bodies
    def gen_scope(self, m: str, qual: List[str], allowed: List[str], imported: set, depth: int) -> List[Any]:
        r = self.rng
        in_class = bool(qual)
        scope: Dict[str, Value] = self.cls_ns[(m, tuple(qual))] if in_class else self.ns[m]
        body: List[Any] = []
        if in_class:
            n_stmts = r.choice([0, 1, 1, 2, 2, 3, 4])
            kinds = ['def'] * 3 + ['alias'] * 3 + ['from'] * 2 + ['import_as'] + (['class'] * 2 if depth < 2 else []) + ['import']
            if self.p_shadow > 0 and not self.simple:
                kinds += ['shadow_from'] * 2
        else:
            n_stmts = r.randint(2, 7 if self.size != 'small' else 4)
            kinds = (['def'] * 2 + ['class'] * 4 + ['from'] * 6 + ['import'] * 2 + ['import_as'] * 3 + ['from_sub'] * 2
                     + ['alias'] * 3 + (['star'] * 2 if r.random() < self.p_star else []))
        shadowed = False
        has_nested = False
        used_global: set = set()     # module-level names this class body has already read (they cannot be rebound later:
                                     # the final-state Spec is only adequate when every use follows the binding it sees)

        def lookup(name: str) -> Optional[Value]:
            if name in scope:
                return scope[name]
            if in_class:
                return self.ns[m].get(name)
            return None

        def visible_names() -> List[str]:
            out = list(scope)
            if in_class:
                out += [k for k in self.ns[m] if k not in scope]
            return out

        subnames = set(c.rsplit('.', 1)[1] for c in self.children.get(m, [])) if not in_class else set()

        def pick_name(orig: str) -> Optional[str]:
            """asname: None keeps orig (must be free in this scope; a package never rebinds the name of a submodule)."""
            if orig not in scope and orig not in subnames and r.random() < 0.55:
                return None
            return self.fresh('a', 0.2)

        def bind(n: str, v: Value) -> None:
            assert n not in scope, (n, scope)
            scope[n] = v

        def free_for_shadow() -> Optional[str]:
            # a name bound at module level but not in this class body (the class body will rebind it)
            cands = [k for k in self.ns[m] if k not in scope and not k.startswith('__') and k not in used_global]
            return r.choice(cands) if cands else None

        def mark_shadowing() -> None:
            nonlocal shadowed, kinds
            shadowed = True
            kinds = [k for k in kinds if k != 'class']      # no nested class may see (in pydoctor) the rebound name
            self.noinherit.add((m, tuple(qual)))

        if self.simple:
            kinds = [k for k in kinds if k not in ('alias', 'star')]
        for _ in range(n_stmts):
            k = r.choice(kinds)
            if k == 'def':
                n = self.fresh('g' if in_class else 'f', 0.15)
                body.append(['def', n])
                bind(n, ('obj', m, tuple(qual + [n])))
                self.kinds[(m, tuple(qual + [n]))] = 'func'
            elif k == 'class':
                n = self.fresh('C', 0.1)
                base = None
                basev = None
                if r.random() < 0.6 and not self.simple:
                    cands = []
                    for nm in visible_names():
                        v = lookup(nm)
                        if self.is_class(v) and (v[1], v[2]) in self.noinherit:
                            continue
                        if self.is_class(v):
                            cands.append((nm, v))
                        elif v is not None and v[0] == 'mod':
                            for a in self.attrs_of(v, imported):
                                w = self.attr(v, a, imported)
                                if self.is_class(w) and (w[1], w[2]) not in self.noinherit:
                                    cands.append((nm + '.' + a, w))
                    if cands:
                        base, basev = r.choice(cands)
                        self.feat('class_with_base')
                key = (m, tuple(qual + [n]))
                self.kinds[key] = 'class'
                self.cls_ns[key] = {}
                self.cls_base[key] = basev
                sub = self.gen_scope(m, qual + [n], allowed, imported, depth + 1)
                body.append(['class', n, base, sub])
                bind(n, ('obj', m, tuple(qual + [n])))
                if in_class:
                    self.feat('nested_class')
                    has_nested = True
            elif k == 'shadow_from':
                # class body: `from X import obj as T` where the module already binds T to another object, then `U = T`
                if has_nested:
                    continue
                T = free_for_shadow()
                if T is None:
                    continue
                vT = self.ns[m][T]
                srcs = [(x, o) for x in allowed for o, v in self.ns[x].items()
                        if not o.startswith('__') and v != vT]
                if not srcs:
                    continue
                x, orig = r.choice(srcs)
                level, modname = 0, x
                rel = self.relative_form(m, x) if r.random() < 0.4 else None
                if rel is not None:
                    level, modname = rel
                body.append(['from', level, modname, [[orig, T]]])
                self.mark_imported(imported, x, m)
                bind(T, self.ns[x][orig])
                mark_shadowing()
                self.feat('class_import_rebinds_module_name')
                if r.random() < 0.85:
                    U = self.fresh('a', 0.2)
                    body.append(['alias', U, T])
                    bind(U, scope[T])
                    self.feat('class_alias_of_rebound_name')
            elif k == 'import' or k == 'import_as':
                if not allowed:
                    continue
                t = r.choice(allowed)
                if k == 'import':
                    top = t.split('.')[0]
                    if top in subnames:
                        continue
                    if top in scope:
                        if scope[top] != ('mod', top):
                            continue
                        # `import a.x` then `import a.y` binds `a` twice to the same module: keep one binding per scope
                        continue
                    body.append(['import', t, None])
                    bind(top, ('mod', top))
                    self.mark_imported(imported, t, m)
                    self.feat('import_plain_dotted' if '.' in t else 'import_plain')
                else:
                    a = self.fresh('a', 0.2)
                    body.append(['import', t, a])
                    bind(a, ('mod', t))
                    self.mark_imported(imported, t, m)
                    self.feat('import_as')
            elif k == 'from':
                cands = [x for x in allowed if any(not n.startswith('__') for n in self.ns[x])]
                if not cands:
                    continue
                x = r.choice(cands)
                avail = [n for n in self.ns[x] if not n.startswith('__')]
                r.shuffle(avail)
                names = []
                for orig in avail[:r.choice([1, 1, 2, 3])]:
                    asn = pick_name(orig)
                    bound = asn or orig
                    if bound in scope or any((a or o) == bound for o, a in names):
                        continue
                    names.append([orig, asn])
                if not names:
                    continue
                level, modname = 0, x
                rel = self.relative_form(m, x) if r.random() < 0.6 else None
                if rel is not None:
                    level, modname = rel
                    self.feat('relative_level_%d' % level)
                body.append(['from', level, modname, names])
                self.mark_imported(imported, x, m)
                for orig, asn in names:
                    v = self.ns[x][orig]
                    bind(asn or orig, v)
                    if v[0] == 'obj' and v[1] == x and len(v[2]) == 1:
                        self.feat('from_defining_module')
                    elif v[0] == 'obj':
                        self.feat('from_chain')
                    else:
                        self.feat('from_module_value')
                if in_class:
                    self.feat('import_in_class')
            elif k == 'from_sub':
                # from <package> import <submodule> [as k]   (package re-import)
                cands = [x for x in allowed if '.' in x]
                if not cands:
                    continue
                x = r.choice(cands)
                par, short = x.rsplit('.', 1)
                if short in self.ns.get(par, {}):
                    continue
                asn = pick_name(short)
                if (asn or short) in scope:
                    continue
                level, modname = 0, par
                rel = self.relative_form(m, par) if r.random() < 0.7 else None
                if rel is not None:
                    level, modname = rel
                    self.feat('relative_level_%d' % level)
                body.append(['from', level, modname, [[short, asn]]])
                bind(asn or short, ('mod', x))
                self.mark_imported(imported, x, m)
                self.feat('from_pkg_import_submodule')
            elif k == 'star':
                cands = [x for x in allowed if (not self.mods[x]['pkg'] or self.mods[x]['all'] is not None)]
                if not cands:
                    continue
                x = r.choice(cands)
                al = self.mods[x]['all']
                names = list(al) if al is not None else [n for n in self.ns[x] if not n.startswith('_')]
                if not names or any(n in scope or n in subnames for n in names):
                    continue
                level, modname = 0, x
                rel = self.relative_form(m, x) if r.random() < 0.5 else None
                if rel is not None:
                    level, modname = rel
                privs = [n for n in self.ns[x] if n.startswith('_') and not n.startswith('__')
                         and n not in scope and n not in subnames and n not in names]
                if privs and al is None:
                    self.feat('star_source_binds_private_names')
                    if r.random() < 0.6:
                        # the importer already binds one of the private names the star import must NOT copy
                        pn = r.choice(privs)
                        srcs = [(z, o) for z in allowed for o, v in self.ns[z].items()
                                if not o.startswith('__') and v != self.ns[x][pn]]
                        if srcs:
                            z, o = r.choice(srcs)
                            body.append(['from', 0, z, [[o, pn]]])
                            self.mark_imported(imported, z, m)
                            bind(pn, self.ns[z][o])
                            self.feat('star_private_name_prebound')
                body.append(['star', level, modname])
                self.mark_imported(imported, x, m)
                for n in names:
                    bind(n, self.ns[x][n])
                self.feat('star_all' if al is not None else 'star_public')
            elif k == 'alias':
                vis = visible_names()
                if not vis:
                    continue
                first = r.choice(vis)
                v = lookup(first)
                if in_class and first not in scope:
                    used_global.add(first)
                parts = [first]
                for _ in range(r.choice([0, 1, 1, 2])):
                    assert v is not None
                    ats = self.attrs_of(v, imported)
                    if not ats:
                        break
                    a = r.choice(ats)
                    w = self.attr(v, a, imported)
                    if w is None:
                        break
                    parts.append(a)
                    v = w
                assert v is not None
                target = None
                if in_class and not has_nested and r.random() < self.p_shadow * 0.5:
                    target = free_for_shadow()
                    if target is not None:
                        self.feat('class_alias_rebinds_module_name')
                        mark_shadowing()
                if target is None:
                    target = self.fresh('a', 0.2)
                if target in scope:
                    continue
                body.append(['alias', target, '.'.join(parts)])
                bind(target, v)
                self.feat('alias_len_%d' % len(parts))
        return body

    def project(self) -> dict:
        r = self.rng
        self.tree()
        names = list(self.mods)
        L = names[:]
        r.shuffle(L)
        pos = {n: i for i, n in enumerate(L)}
        for m in L:
            self.ns[m] = {}
            self.init_sub.setdefault(m, set())
        for m in L:
            anc_m = set('.'.join(m.split('.')[:i]) for i in range(1, len(m.split('.')) + 1))
            allowed = []
            for x in L[:pos[m]]:
                ok = True
                parts = x.split('.')
                for i in range(1, len(parts)):
                    a = '.'.join(parts[:i])
                    if a not in anc_m and pos[a] >= pos[m]:
                        ok = False
                        break
                if ok:
                    allowed.append(x)
            imported: set = set()
            body = self.gen_scope(m, [], allowed, imported, 0)
            self.mods[m]['body'] = body
            # __all__
            if r.random() < 0.4:
                own = [k for k, v in self.ns[m].items() if v[0] == 'obj' and v[1] == m and not k.startswith('_')]
                r.shuffle(own)
                al = own[:r.randint(0, 2)]
                if r.random() < self.p_reexport and not self.simple:
                    cands = []
                    for s in body:
                        if s[0] == 'from':
                            for o, a in s[3]:
                                v = self.ns[m][a or o]
                                if v[0] == 'obj' and v not in self.reexported and v[1] != m:
                                    cands.append((a or o, v))
                    if cands:
                        nm, v = r.choice(cands)
                        al.append(nm)
                        self.reexported.add(v)
                        self.feat('reexport')
                self.mods[m]['all'] = al
        order = names[:]
        mode = r.random()
        if mode < 0.5:
            r.shuffle(order)
        elif mode < 0.75:
            order = L[:]                     # dependency order
        else:
            order = sorted(names)
        return {'modules': [self.mods[n] for n in sorted(self.mods)], 'order': order, 'features': self.features}
