"""C19 -- visitor extensions see a balanced, ordered walk whatever the main visitor prunes."""
from __future__ import annotations
import itertools, json
from typing import Any, List, Optional
import lib
from lib import PropertyCheck, Violation, enc, dec


def shapes(n: int) -> List[Any]:
    """All ordered rooted trees with n nodes, as nested lists without ids: [] = leaf."""
    if n == 1:
        return [[]]
    out = []
    # forests of n-1 nodes
    def forests(k: int) -> List[List[Any]]:
        if k == 0:
            return [[]]
        res = []
        for first in range(1, k + 1):
            for t in shapes(first):
                for rest in forests(k - first):
                    res.append([t] + rest)
        return res
    return [f for f in forests(n - 1)]


def label(shape: Any, counter: List[int]) -> List[Any]:
    counter[0] += 1
    me = counter[0]
    return [me] + [label(k, counter) for k in shape]


def all_trees(maxn: int) -> List[Any]:
    out = []
    for n in range(1, maxn + 1):
        for s in shapes(n):
            out.append(label(s, [0]))
    return out


def nodes_of(t: Any) -> List[int]:
    return [t[0]] + [x for k in t[1:] for x in nodes_of(k)]


def ext_lists(maxk: int) -> List[List[List[int]]]:
    out = []
    for k in range(0, maxk + 1):
        for ws in itertools.product(range(4), repeat=k):
            out.append([[i + 1, w] for i, w in enumerate(ws)])
    return out


# ------------------------------------------------------------------ the property, stated on a trace
def oracle(case: Any, result: Any) -> Optional[str]:
    """Spec.Walk re-stated directly in Python on the recorded trace of the REAL visitor."""
    fn, exts, prunes, tree = case[:4]
    esc, trace = result[0], result[1]
    if esc == 2:
        return 'unexpected exception %s escaped' % (result[2],)
    prune = dict((n, a) for n, a in prunes)
    parent = {}
    kids = {}

    def walk(t: Any, p: Optional[int]) -> None:
        parent[t[0]] = p
        kids[t[0]] = [k[0] for k in t[1:]]
        for k in t[1:]:
            walk(k, t[0])
    walk(tree, None)
    by = lambda w: [e for e, ww in exts if ww == w]
    B, A_, I, O = by(0), by(1), by(2), by(3)
    enter_order = B + O + [0] + A_ + I
    leave_order = B + I + [0] + A_ + O
    participants = [0] + [e for e, _ in exts]
    # each node entered at most once by any participant; nesting like the tree
    for p in participants:
        stack: List[int] = []
        seen = set()
        for who, d, n in trace:
            if who != p:
                continue
            if d == 0:
                if n in seen:
                    return 'participant %d enters node %d twice' % (p, n)
                seen.add(n)
                # the node entered must be a child of the innermost node p is still inside of
                # (for main: of the innermost node main has entered and not left, skipping nodes whose departure is skipped)
                if p != 0 and fn != 1:
                    if stack and parent[n] != stack[-1]:
                        return 'participant %d enters %d while inside %d (not its parent)' % (p, n, stack[-1])
                    if not stack and parent[n] is not None:
                        return 'participant %d enters non-root %d with empty stack' % (p, n)
                stack.append(n)
            else:
                if p != 0:
                    if not stack or stack[-1] != n:
                        return 'participant %d leaves %d but innermost entered node is %s' % (p, n, stack[-1:] )
                    stack.pop()
                else:
                    if n not in stack:
                        return 'main departs %d without having visited it' % n
                    stack.remove(n)
        if p != 0 and fn != 1 and stack:
            return 'extension %d entered %s and never left' % (p, stack)
    # per node order
    visited = []
    for who, d, n in trace:
        if d == 0 and n not in visited:
            visited.append(n)
    for n in visited:
        ent = [who for who, d, nn in trace if nn == n and d == 0]
        if ent != enter_order:
            return 'entry order at node %d is %s, documented %s' % (n, ent, enter_order)
        if fn != 1:
            lv = [who for who, d, nn in trace if nn == n and d == 1]
            want = [q for q in leave_order if not (q == 0 and prune.get(n, 0) in (3, 4))]
            if lv != want:
                return 'exit order at node %d is %s, documented %s' % (n, lv, want)
            # all entries of n precede all exits of n
            idx_e = max(i for i, e in enumerate(trace) if e[2] == n and e[1] == 0)
            idx_l = min([i for i, e in enumerate(trace) if e[2] == n and e[1] == 1] or [len(trace)])
            if idx_e > idx_l:
                return 'node %d is left before it has been entered by everyone' % n
        else:
            if any(d == 1 for _, d, _ in trace):
                return 'walk() produced a departure'
    # pruning semantics as documented (walkabout)
    if fn != 1:
        want_visited: List[int] = []

        def sem(t: Any) -> bool:
            n = t[0]
            want_visited.append(n)
            a = prune.get(n, 0)
            if a not in (1, 3):
                for k in t[1:]:
                    if sem(k):
                        break
            return a == 2
        sem(tree)
        if visited != want_visited:
            return 'visited nodes %s, documented pruning gives %s' % (visited, want_visited)
    return None


class Check(PropertyCheck):
    id = 'C19'
    props_module = 'Props.C19'
    models = {'visitor': 'XVisitor.v', 'visitor_ir': 'XVisitorIR.v'}
    needs_gen = True
    gen_modules = ['gen_c19', 'gen_c19_code', 'gen_c19_stack']
    rule = ('every ordered tree of <= N nodes x every assignment of {none,SkipChildren,SkipSiblings,SkipNode,'
            'SkipDeparture} to its nodes x every sequence of <= 3 extension timings x {walkabout, walk}; '
            'non-trivial = at least one pruning action and one extension; distinct by construction')
    trusted_base = [
        'Coq 8.16.1 kernel (coqc, vm_compute for Example witnesses; no native_compute)',
        'no axioms (Print Assumptions: Closed under the global context for every theorem)',
        'extraction: ExtrOcamlBasic only; OCaml 4.13.1; coq/ocaml/driver.ml',
        'translator harness/gen/gen_c19_stack.py (ASTBuilder.push/pop -> Gen/StackCode.v; Model/StackIR.v; C19_code_push/pop_is_model, C19_code_stack_discipline)',
        'translators harness/gen/gen_c19_code.py (method bodies -> Gen/VisitorCode.v) and harness/gen/gen_c19.py (push/pop/raise sites); '
        'the interpreter Model/VisitorIR.v is the stated meaning of the Python statements it covers (try/except class matching, '
        'assignment, if, for over extension lists / children, raise of a caught exception, return)',
        'correspondence harness harness/c19.py + harness/impl/c19_visitor.py (instrumented subclasses of the real Visitor)',
        'modelled not verified: only the main visitor raises pruning exceptions, and only from visit_*; '
        'Python exception propagation is modelled as (trace, escaped) pairs',
    ]
    manifest = {
        'text': ('Theorems over Model/Visitor.v for every tree, pruning assignment and extension list (unbounded): each '
                 'participant sees exactly a depth-first enter/leave walk of the documented traversed sub-tree '
                 '(C19_walkabout_projection), global entry/exit order is the documented one (C19_walkabout_enter_order/'
                 '_leave_order), only the root SkipSiblings escapes, walk() likewise, and the builder scope stack is '
                 'restored (C19_stack_empty); the clauses of the property text follow as corollaries: every node entered at most once and only '
                 'tree nodes (C19_entered_at_most_once), an extension leaves exactly what it entered (C19_extension_leaves_what_it_entered), '
                 'its calls are well bracketed (C19_extension_calls_well_bracketed), the main visitor misses exactly the departures it '
                 'skipped (C19_main_leaves_unless_skipped). Tie to the source, two ways: (a) harness/gen/gen_c19_code.py translates the bodies of '
                 'Visitor.visit/depart/walk/walkabout statement by statement (fail-closed; _BaseVisitor dispatch, ExtList.add and the '
                 'exception hierarchy pinned) into the deep-embedded language of Model/VisitorIR.v on every run, and '
                 'C19_code_walkabout_is_model / _walk_ / _visit_ / _depart_ prove that interpreting THAT code is the model, for all '
                 'inputs (C19_code_walkabout_projection states the property on the translated code); (b) an exhaustive trace-for-trace '
                 'correspondence check (all trees <= 3 nodes quick / <= 4 thorough x all prunings x all <= 3 timings) and the '
                 'real AST builder is observed on generated modules; reused visitors (extensions added between walks) and the three '
                 'handler spellings (unknown_visit, visit_ClassDef, visit_classdef) are part of the stream.'),
        'note': ('Trusted: Coq kernel, ExtrOcamlBasic extraction + OCaml driver, the Python harness. Modelled not verified: '
                 'only the main visitor raises pruning exceptions and only from visit_*; that every non-raising path of '
                 'visit_ClassDef/_handleFunctionDef pushes is observed on generated modules, not proved.'),
        'technique': 'Coq proof (induction on rose trees) over a model regenerated from the source by a translator (deep-embedded '
                     'statement language + interpreter, equivalence proved) + exhaustive model/implementation trace correspondence',
    }
    assumptions = ['extensions do not raise; pruning exceptions are raised by the main visitor inside visit_* only',
                   'extension ids are pairwise distinct and differ from the main visitor']

    def cases(self) -> List[Any]:
        maxn = 3 if self.tier == 'quick' else 4
        out = []
        exts = ext_lists(3)
        for t in all_trees(maxn):
            ns = nodes_of(t)
            for acts in itertools.product(range(5), repeat=len(ns)):
                pr = [[n, a] for n, a in zip(ns, acts) if a]
                for e in exts:
                    for fn in (0, 1):
                        out.append([fn, e, pr, t])
        self.exhaustive = True
        self.stats['max_nodes'] = maxn
        # random larger trees
        nrand = 300 if self.tier == 'quick' else 20000
        for _ in range(nrand):
            n = self.rng.randint(5, 12)
            t = self.random_tree(n)
            ns = nodes_of(t)
            pr = [[x, self.rng.randint(1, 4)] for x in ns if self.rng.random() < 0.35]
            e = [[i + 1, self.rng.randint(0, 3)] for i in range(self.rng.randint(0, 5))]
            out.append([self.rng.randint(0, 1), e, pr, t])
        self.stats['random_larger'] = nrand
        # handler spelling: the same trace is required whether participants implement unknown_visit/unknown_departure,
        # visit_ClassDef/depart_ClassDef or the lower-case fallback visit_classdef/depart_classdef
        styled = []
        for c in out[::7] + out[-nrand:]:
            for style in (1, 2):
                styled.append(c[:4] + [style])
        self.stats['styled_cases'] = len(styled)
        return out + styled

    def sequences(self) -> List[Any]:
        """ONE visitor instance, several walks, extensions registered between them."""
        seqs = []
        trees = all_trees(3)
        n = 400 if self.tier == 'quick' else 6000
        r = __import__('random').Random(self.seed + 19)
        # deterministic front: walkabout, add one extension of each timing, walkabout again (all prunings of a 2-node tree)
        for w in range(4):
            for a1 in range(5):
                for first_fn in (0, 1):
                    seqs.append(['seq', r.randint(0, 2), [[first_fn, [], [], [1, [2]]],
                                                           [0, [[1, w]], [[2, a1]] if a1 else [], [1, [2], [3]]]]])
        for _ in range(n):
            steps = []
            nxt = 1
            for k in range(r.randint(2, 4)):
                t = r.choice(trees)
                ns = nodes_of(t)
                add = []
                for _ in range(r.randint(0, 2)):
                    add.append([nxt, r.randint(0, 3)]); nxt += 1
                steps.append([r.randint(0, 1), add, [[x, r.randint(1, 4)] for x in ns if r.random() < 0.3], t])
            seqs.append(['seq', r.randint(0, 2), steps])
        return seqs

    def random_tree(self, n: int) -> Any:
        parents = [None] + [self.rng.randint(0, i - 1) for i in range(1, n)]
        kids = {i: [] for i in range(n)}
        for i in range(1, n):
            kids[parents[i]].append(i)
        c = [0]

        def b(i: int) -> Any:
            c[0] += 1
            return [c[0]] + [b(k) for k in kids[i]]
        return b(0)

    def correspondence(self) -> List[Violation]:
        cases = self.cases()
        self.evaluations = len(cases)
        impl = lib.run_impl_worker('c19_visitor.py', cases, jobs=16)
        mod = self.model('visitor', [enc(c[:4]) for c in cases])
        # the interpretation of the code TRANSLATED from visitor.py (Gen/VisitorCode.v): third leg of the comparison
        modir = self.model('visitor_ir', [enc(c[:4]) for c in cases])
        out: List[Violation] = []
        nt = 0
        for c, r, mi in zip(cases, impl, modir):
            ir = dec(mi)
            canon_ir = [{0: 0, 2: 1}.get(ir[0], 2), ir[1]]
            if canon_ir != [r[0], r[1]] and len(out) < 10:
                out.append(Violation('correspondence', 'the code translated from visitor.py (Gen/VisitorCode.v, interpreted by '
                                     'Model.VisitorIR) and pydoctor.visitor disagree on a trace: the translator or the '
                                     'statement language misrepresents the source', case=c, expected=canon_ir, observed=[r[0], r[1]]))
        for c, r, m in zip(cases, impl, mod):
            if c[1] and c[2]:
                nt += 1
            mm = dec(m)
            canon_impl = [r[0], r[1]]
            canon_model = [mm[0], mm[1]]
            self.count('fn_%d' % c[0])
            self.count('escaped_%d' % r[0])
            if canon_impl != canon_model and len(out) < 20:
                out.append(Violation('correspondence', 'Model.Visitor and pydoctor.visitor disagree on a trace',
                                     case=c, expected=canon_model, observed=canon_impl))
            o = oracle(c, r)
            if o and len([v for v in out if v.kind == 'oracle']) < 20:
                out.append(Violation('oracle', o, case=c, observed=r))
        self.stats['distinct_nontrivial'] = nt
        # sequences on one visitor: each walk must equal the model's walk with the extensions registered so far
        seqs = self.sequences()
        impl_seq = lib.run_impl_worker('c19_visitor.py', seqs, jobs=8)
        flat_cases = []
        for sq in seqs:
            exts_so_far: List[Any] = []
            for fn, add, prunes, tree in sq[2]:
                exts_so_far = exts_so_far + add
                flat_cases.append([fn, list(exts_so_far), prunes, tree])
        flat_model = self.model('visitor', [enc(c) for c in flat_cases])
        k = 0
        for sq, rs in zip(seqs, impl_seq):
            for step_result in rs:
                c = flat_cases[k]; mm = dec(flat_model[k]); k += 1
                if [step_result[0], step_result[1]] != [mm[0], mm[1]] and len([v for v in out if v.kind == 'correspondence']) < 20:
                    out.append(Violation('correspondence', 'Model.Visitor and pydoctor.visitor disagree on a walk of a REUSED visitor',
                                         case=sq, expected=[mm[0], mm[1]], observed=step_result))
                o = oracle(c, step_result)
                if o and len([v for v in out if v.kind == 'oracle']) < 20:
                    out.append(Violation('oracle', 'on a reused visitor (extensions added between walks): ' + o, case=sq, observed=step_result))
        self.evaluations += len(flat_cases)
        self.stats['sequence_walks'] = len(flat_cases)
        self.sample({'sequence': seqs[0]})
        for c in cases[1000:1003] + cases[-2:]:
            self.sample({'fn': c[0], 'exts': c[1], 'prunes': c[2], 'tree': c[3]})
        # builder stack discipline on generated modules
        out.extend(self.builder_stack())
        return out

    def builder_stack(self) -> List[Violation]:
        n = 60 if self.tier == 'quick' else 1500
        res = lib.run_impl_worker('c19_stack.py', {'n': n, 'seed': self.seed}, timeout=3000)
        self.stats['builder_modules'] = res['modules']
        self.stats['builder_skipnode_sites_hit'] = res['skipnode_hits']
        self.evaluations += res['modules']
        out = []
        for f in res['failures'][:5]:
            out.append(Violation('oracle', 'builder scope stack not empty / current not reset after walking a module: '
                                 + f['what'], case={'source': f['source'], 'layout': f.get('layout', 0)}, observed=f['what']))
        return out

    def search(self, broken: List[Violation]) -> List[Violation]:
        # the oracle already ran on every case in correspondence(); widen to 4 nodes if we were in quick tier
        if self.tier == 'quick':
            self.tier = 'thorough'
            cases = self.cases()
            impl = lib.run_impl_worker('c19_visitor.py', cases, jobs=16)
            for c, r in zip(cases, impl):
                o = oracle(c, r)
                if o:
                    return [Violation('oracle', o, case=c, observed=r)]
        return []

    def classify_known(self, v: Violation, known: List[dict]) -> Optional[dict]:
        return None

    def replay(self, data: Any) -> int:
        case = data['input']
        if isinstance(case, dict) and 'source' in case:
            res = lib.run_impl_worker('c19_stack.py', {'sources': [case['source']], 'layouts': [case.get('layout', 0)]})
            print(json.dumps(res, indent=1))
            return 1 if res['failures'] else 0
        if case and case[0] == 'seq':
            rs = lib.run_impl_worker('c19_visitor.py', [case])[0]
            bad = 0
            exts_so_far = []
            for (fn, add, prunes, tree), r in zip(case[2], rs):
                exts_so_far = exts_so_far + add
                o = oracle([fn, exts_so_far, prunes, tree], r)
                print('walk', fn, 'exts', exts_so_far, 'prunes', prunes, 'tree', tree, '->', r, '|', o or 'holds')
                bad += bool(o)
            return 1 if bad else 0
        r = lib.run_impl_worker('c19_visitor.py', [case])[0]
        o = oracle(case, r)
        print('case    :', case)
        print('observed:', r)
        print('property:', o or 'holds on this input')
        return 1 if o else 0
