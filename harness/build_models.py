"""Builds every extracted model binary registered by the check modules (harness/cXX.py: Check.models)."""
import importlib, sys
from pathlib import Path
sys.path.insert(0, str(Path(__file__).resolve().parent))
import lib

def main() -> int:
    rc = 0
    for f in sorted(Path(__file__).resolve().parent.glob('c[0-9][0-9].py')):
        mod = importlib.import_module(f.stem)
        chk = mod.Check
        for name, xv in chk.models.items():
            b, out = lib.build_model(chk.id + '_' + name, xv)
            print('%s %s -> %s' % (chk.id, name, b or 'FAILED'))
            if b is None:
                print(out[-2000:])
                rc = 1
    return rc

if __name__ == '__main__':
    sys.exit(main())
