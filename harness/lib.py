"""Shared machinery of the /verif checks (see DESIGN.md section 2.5).

A property check is a module harness/cXX.py exposing a subclass of PropertyCheck.
run_check() drives:  regenerate Gen/  ->  Coq cone of Props/Cxx.v  ->  Print Assumptions
->  extracted model  ->  correspondence (model vs /repo)  ->  oracle  ->  search  ->  evidence.
"""
from __future__ import annotations

import hashlib
import json
import os
import random
import re
import shutil
import subprocess
import sys
import tempfile
import time
from pathlib import Path
from typing import Any, Callable, Dict, Iterable, List, Optional, Sequence, Tuple

VERIF = Path(__file__).resolve().parent.parent
COQ = VERIF / 'coq'
THEORIES = COQ / 'theories'
BUILD = COQ / 'build'
REPO = Path(os.environ.get('VERIF_REPO', '/repo'))
PY = '/venv/bin/python'
GUARD = 'PYDOCTOR_VERIF'

ALLOWED_AXIOMS: set = set()   # the development needs none; see DESIGN.md section 3
FORBIDDEN = re.compile(
    r'\b(Admitted|admit|Axiom|Axioms|Parameter|Parameters|Conjecture|Conjectures|Unset\s+Guard|'
    r'bypass_check|Admit\s+Obligations|type-in-type|impredicative-set|Unset\s+Positivity|'
    r'Unset\s+Universe\s+Checking|native_compute)\b')


def log(*a: Any) -> None:
    print(*a, file=sys.stderr, flush=True)


# --------------------------------------------------------------------------- s-expressions
def enc(x: Any) -> str:
    """Python -> wire text.  int/bool -> atom, str -> list of code points, list/tuple -> list, None -> ()."""
    if x is None:
        return '()'
    if isinstance(x, bool):
        return '1' if x else '0'
    if isinstance(x, int):
        return str(x)
    if isinstance(x, str):
        return '(' + ' '.join(str(ord(c)) for c in x) + ')'
    if isinstance(x, bytes):
        return '(' + ' '.join(str(c) for c in x) + ')'
    if isinstance(x, (list, tuple)):
        return '(' + ' '.join(enc(y) for y in x) + ')'
    raise TypeError(type(x))


def dec(s: str) -> Any:
    """wire text -> nested lists of ints."""
    toks = re.findall(r'\(|\)|-?\d+', s)
    pos = 0

    def item() -> Any:
        nonlocal pos
        t = toks[pos]
        pos += 1
        if t == '(':
            out = []
            while toks[pos] != ')':
                out.append(item())
            pos += 1
            return out
        return int(t)
    stack: List[List[Any]] = [[]]
    # iterative to survive deep nesting
    for t in toks:
        if t == '(':
            stack.append([])
        elif t == ')':
            l = stack.pop()
            stack[-1].append(l)
        else:
            stack[-1].append(int(t))
    assert len(stack) == 1 and len(stack[0]) == 1, s[:200]
    return stack[0][0]


def txt(l: Sequence[int]) -> str:
    return ''.join(chr(c) for c in l)


# --------------------------------------------------------------------------- coq build
def sh(cmd: Sequence[str] | str, cwd: Optional[Path] = None, timeout: int = 1800, env: Optional[dict] = None
       ) -> Tuple[int, str]:
    try:
        p = subprocess.run(cmd, cwd=cwd, shell=isinstance(cmd, str), stdout=subprocess.PIPE,
                           stderr=subprocess.STDOUT, timeout=timeout, env=env, text=True, errors='replace')
        return p.returncode, p.stdout
    except subprocess.TimeoutExpired as e:
        return 124, (e.stdout or '') if isinstance(e.stdout, str) else 'timeout'


def coq_prepare() -> None:
    rc, out = sh(['bash', str(COQ / 'mk_coqproject.sh')])
    if rc != 0:
        raise RuntimeError('mk_coqproject failed: ' + out)
    mk = COQ / 'Makefile'
    if not mk.exists() or mk.stat().st_mtime < (COQ / '_CoqProject').stat().st_mtime:
        rc, out = sh(['coq_makefile', '-f', '_CoqProject', '-o', 'Makefile'], cwd=COQ)
        if rc != 0:
            raise RuntimeError('coq_makefile failed: ' + out)


def coq_make(targets: Sequence[str], timeout: int = 3000, jobs: int = 8) -> Tuple[bool, str]:
    """Full .vo build of the given targets (paths relative to coq/, e.g. theories/Props/C19.vo)."""
    import fcntl
    with open(COQ / '.build.lock', 'w') as lk:
        fcntl.flock(lk, fcntl.LOCK_EX)
        coq_prepare()
        rc, out = sh(['make', '-j%d' % jobs, '-k'] + list(targets), cwd=COQ, timeout=timeout)
    return rc == 0, out


def theorem_names(vfile: Path) -> List[str]:
    src = vfile.read_text()
    src = re.sub(r'\(\*.*?\*\)', '', src, flags=re.S)
    return re.findall(r'^\s*(?:Theorem|Lemma|Corollary|Example)\s+([A-Za-z0-9_\']+)', src, flags=re.M)


def print_assumptions(modname: str, names: Sequence[str]) -> Dict[str, List[str]]:
    """Runs Print Assumptions for each theorem of PydoctorVerif.<modname>; returns name -> axioms ([] = closed)."""
    if not names:
        return {}
    d = Path(tempfile.mkdtemp(prefix='verif_pa_'))
    try:
        lines = ['From PydoctorVerif Require Import %s.' % modname]
        for n in names:
            lines.append('Goal True. idtac "@@BEGIN %s". Abort.' % n)
            lines.append('Print Assumptions %s.' % n)
        lines.append('Goal True. idtac "@@END". Abort.')
        (d / 'PA.v').write_text('\n'.join(lines) + '\n')
        rc, out = sh(['coqc', '-Q', str(THEORIES), 'PydoctorVerif', 'PA.v'], cwd=d, timeout=900)
        if rc != 0:
            raise RuntimeError('Print Assumptions failed:\n' + out[-3000:])
        res: Dict[str, List[str]] = {}
        chunks = re.split(r'@@BEGIN (\S+)\n', out)
        for i in range(1, len(chunks), 2):
            name, body = chunks[i], chunks[i + 1].split('@@END')[0]
            if 'Closed under the global context' in body:
                res[name] = []
            else:
                axs = re.findall(r'^([A-Za-z0-9_\.\']+)\s*:', body, flags=re.M)
                res[name] = axs or ['<unparsed: %s>' % body.strip()[:200]]
        return res
    finally:
        shutil.rmtree(d, ignore_errors=True)


def _strip_comments_strings(src: str) -> str:
    """blanks out (nested) comments and string literals, keeping offsets"""
    out = list(src)
    i, n, depth = 0, len(src), 0
    while i < n:
        if src.startswith('(*', i):
            depth += 1; out[i] = out[i + 1] = ' '; i += 2; continue
        if depth and src.startswith('*)', i):
            depth -= 1; out[i] = out[i + 1] = ' '; i += 2; continue
        if depth:
            if src[i] != '\n':
                out[i] = ' '
            i += 1; continue
        if src[i] == '"':
            j = i + 1
            while j < n and src[j] != '"':
                j += 1
            for k in range(i, min(j + 1, n)):
                if out[k] != '\n':
                    out[k] = ' '
            i = j + 1; continue
        i += 1
    return ''.join(out)


AXIOM_WORDS = r'(?:Axiom|Axioms|Parameter|Parameters|Conjecture|Conjectures)'
SECTION_LOCAL = r'(?:Variable|Variables|Hypothesis|Hypotheses|Context)'
ANYWHERE = re.compile(r'\b(Admitted|admit|give_up|Admit\s+Obligations|Unset\s+Guard\s+Checking|bypass_check|'
                      r'Unset\s+Positivity\s+Checking|Unset\s+Universe\s+Checking|native_compute|type-in-type|impredicative-set)\b')
PREFIX = r'(?:(?:Local|Global|Polymorphic|Monomorphic|Private|Program)\s+|#\[[^\]]*\]\s*)*'


def scan_forbidden(f: Path) -> List[str]:
    """Vernacular that declares an axiom or switches a kernel check off, found at SENTENCE level (comments and string
    literals are ignored; Variable/Hypothesis/Context are only flagged outside every Section)."""
    src = _strip_comments_strings(f.read_text())
    hits = []
    for m in ANYWHERE.finditer(src):
        hits.append('%s:%d:%s' % (f.relative_to(VERIF), src.count('\n', 0, m.start()) + 1, m.group(0)))
    depth = 0
    # sentences end with a period followed by whitespace/EOF
    pos = 0
    for sm in re.finditer(r'\.(?=\s|$)', src):
        sent = src[pos:sm.start()].strip()
        start = pos
        pos = sm.end()
        sent = sent.lstrip('-+*{} \n\t')
        m = re.match(PREFIX + r'(\w+)', sent)
        if not m:
            continue
        head = m.group(1)
        ln = src.count('\n', 0, start + (len(src[start:sm.start()]) - len(src[start:sm.start()].lstrip()))) + 1
        if head == 'Section':
            depth += 1
        elif head == 'End' and depth > 0:
            depth -= 1   # Modules also end with End; a Module inside depth 0 does not change depth below 0
        elif re.fullmatch(AXIOM_WORDS, head):
            hits.append('%s:%d:%s' % (f.relative_to(VERIF), ln, head))
        elif re.fullmatch(SECTION_LOCAL, head) and depth == 0:
            hits.append('%s:%d:%s outside a Section' % (f.relative_to(VERIF), ln, head))
    return hits


def coq_cone(props_module: str, extra: Sequence[str] = ()) -> List[Path]:
    """The .v files transitively required (within PydoctorVerif) by the given modules."""
    seen: Dict[str, Path] = {}
    todo = [props_module] + [e for e in extra]
    while todo:
        m = todo.pop()
        if m in seen:
            continue
        f = THEORIES / (m.replace('.', '/') + '.v')
        if not f.exists():
            continue
        seen[m] = f
        src = _strip_comments_strings(f.read_text())
        for grp in re.findall(r'From\s+PydoctorVerif\s+Require\s+(?:Import\s+|Export\s+)?([A-Za-z0-9_.\s]+?)\.(?=\s|$)', src):
            todo.extend(grp.split())
        for grp in re.findall(r'Require\s+(?:Import\s+|Export\s+)?((?:PydoctorVerif\.[A-Za-z0-9_.]+\s*)+)\.(?=\s|$)', src):
            todo.extend(x[len('PydoctorVerif.'):] for x in grp.split())
    return sorted(seen.values())


def grep_forbidden(files: Optional[Sequence[Path]] = None) -> List[str]:
    hits: List[str] = []
    for f in (files if files is not None else sorted(THEORIES.rglob('*.v'))):
        hits.extend(scan_forbidden(f))
    cp = COQ / '_CoqProject'
    if cp.exists() and re.search(r'type-in-type|impredicative-set', cp.read_text()):
        hits.append(str(cp))
    return hits


# --------------------------------------------------------------------------- extracted models
def build_model(name: str, extract_v: str, timeout: int = 900) -> Tuple[Optional[Path], str]:
    """Extracts theories/Extract/<extract_v> and links it with the generic driver -> build/<name>/run."""
    d = BUILD / name
    d.mkdir(parents=True, exist_ok=True)
    src = THEORIES / 'Extract' / extract_v
    stamp = d / 'stamp'
    deps = [src, COQ / 'ocaml' / 'driver.ml'] + sorted((THEORIES / 'Model').glob('*.v')) + \
        sorted((THEORIES / 'Base').glob('*.v')) + sorted((THEORIES / 'Gen').glob('*.v')) + \
        sorted((THEORIES / 'Spec').glob('*.v'))
    h = hashlib.sha256()
    for f in deps:
        h.update(f.name.encode())
        h.update(f.read_bytes())
    digest = h.hexdigest()
    if (d / 'run').exists() and stamp.exists() and stamp.read_text() == digest:
        return d / 'run', 'cached'
    rc, out = sh(['coqc', '-Q', str(THEORIES), 'PydoctorVerif', str(src)], cwd=d, timeout=timeout)
    if rc != 0:
        return None, out
    shutil.copy(COQ / 'ocaml' / 'driver.ml', d / 'driver.ml')
    rc, out2 = sh(['ocamlfind', 'ocamlopt', '-O2', '-w', '-a', 'model.mli', 'model.ml', 'driver.ml', '-o', 'run'],
                  cwd=d, timeout=timeout)
    if rc != 0:
        return None, out + out2
    stamp.write_text(digest)
    return d / 'run', out + out2


def run_model(binary: Path, inputs: Sequence[str], timeout: int = 3000) -> List[str]:
    """One wire line per input; returns one wire line per output."""
    if not inputs:
        return []
    data = '\n'.join(inputs) + '\n'
    p = subprocess.run(['bash', '-c', 'ulimit -s unlimited 2>/dev/null; exec "%s"' % binary], input=data,
                       stdout=subprocess.PIPE, stderr=subprocess.PIPE, text=True, timeout=timeout)
    out = p.stdout.split('\n')
    if out and out[-1] == '':
        out.pop()
    if p.returncode != 0 or len(out) != len(inputs):
        raise RuntimeError('model run failed rc=%s outputs=%d inputs=%d stderr=%s'
                           % (p.returncode, len(out), len(inputs), p.stderr[-500:]))
    return out


def run_model_parallel(binary: Path, inputs: Sequence[str], jobs: int = 16) -> List[str]:
    if len(inputs) < 2000:
        return run_model(binary, inputs)
    from concurrent.futures import ThreadPoolExecutor
    n = len(inputs)
    step = (n + jobs - 1) // jobs
    chunks = [inputs[i:i + step] for i in range(0, n, step)]
    with ThreadPoolExecutor(max_workers=jobs) as ex:
        res = list(ex.map(lambda c: run_model(binary, c), chunks))
    return [x for r in res for x in r]


def run_model_vm(extract_v_module: str, inputs: Sequence[str], timeout: int = 1800) -> List[str]:
    """Second path: evaluates <module>.run on the inputs with Eval vm_compute inside coqc (cross-checks extraction)."""
    d = Path(tempfile.mkdtemp(prefix='verif_vm_'))
    try:
        def coq_of(v: Any) -> str:
            if isinstance(v, int):
                return '(A (%d)%%Z)' % v
            return '(L [' + '; '.join(coq_of(x) for x in v) + '])'
        lines = ['From Coq Require Import ZArith List. Import ListNotations.',
                 'From PydoctorVerif Require Import Base.Sexp %s.' % extract_v_module]
        for k, s in enumerate(inputs):
            lines.append('Definition out%d := Eval vm_compute in (%s.run %s).' % (k, extract_v_module.split('.')[-1], coq_of(dec(s))))
            lines.append('Goal True. idtac "@@%d". Abort. Print out%d.' % (k, k))
        (d / 'cases.v').write_text('\n'.join(lines) + '\n')
        rc, out = sh(['coqc', '-Q', str(THEORIES), 'PydoctorVerif', 'cases.v'], cwd=d, timeout=timeout)
        if rc != 0:
            raise RuntimeError('cases.v failed: ' + out[-2000:])
        res = []
        chunks = re.split(r'@@(\d+)\n', out)
        for i in range(1, len(chunks), 2):
            body = chunks[i + 1]
            body = re.split(r'out\d+\s*:?=', body, 1)[1].rsplit(':', 1)[0]
            res.append(coq_sexp_to_wire(body))
        return res
    finally:
        shutil.rmtree(d, ignore_errors=True)


def coq_sexp_to_wire(body: str) -> str:
    """Parses Coq's printed sexp term (A n / L [..]) back to wire text."""
    toks = re.findall(r'A|L|\[|\]|;|\(|\)|-?\s*\d+|%Z', body)
    out: List[str] = []
    i = 0
    while i < len(toks):
        t = toks[i]
        if t == '[':
            out.append('(')
        elif t == ']':
            out.append(')')
        elif re.match(r'-?\s*\d+', t):
            out.append(t.replace(' ', ''))
        i += 1
    s = ' '.join(out)
    return re.sub(r'\( ', '(', re.sub(r' \)', ')', s))


# --------------------------------------------------------------------------- impl workers
def impl_env(seed: int = 0) -> dict:
    env = dict(os.environ)
    env['PYTHONPATH'] = str(REPO)
    env['PYTHONHASHSEED'] = str(seed)
    env[GUARD] = '1'
    env['PYTHONDONTWRITEBYTECODE'] = '1'
    return env


def run_impl_worker(script: str, payload: Any, timeout: int = 3000, seed: int = 0, jobs: int = 1) -> Any:
    """Runs harness/impl/<script> under /venv python with PYTHONPATH=/repo; JSON in on stdin, JSON out on stdout.
    With jobs>1 the payload (a list) is split and the partial results (lists) concatenated."""
    path = VERIF / 'harness' / 'impl' / script
    if jobs > 1 and isinstance(payload, list) and len(payload) >= 4 * jobs:
        from concurrent.futures import ThreadPoolExecutor
        n = len(payload)
        step = (n + jobs - 1) // jobs
        chunks = [payload[i:i + step] for i in range(0, n, step)]
        with ThreadPoolExecutor(max_workers=jobs) as ex:
            parts = list(ex.map(lambda c: run_impl_worker(script, c, timeout, seed, 1), chunks))
        return [x for p in parts for x in p]
    p = subprocess.run([PY, '-X', 'utf8', str(path)], input=json.dumps(payload), stdout=subprocess.PIPE,
                       stderr=subprocess.PIPE, text=True, timeout=timeout, env=impl_env(seed), cwd='/')
    if p.returncode != 0:
        raise ImplCrash('impl worker %s failed rc=%s:\n%s' % (script, p.returncode, p.stderr[-4000:]))
    return json.loads(p.stdout)


class ImplCrash(RuntimeError):
    pass


# --------------------------------------------------------------------------- known findings
def load_known_findings(prop: str) -> Tuple[List[dict], List[dict]]:
    """known_findings/<prop>.json: {"known": [{id, what, match, replay?}], "fixed": [{commit, what}]}.
    (KNOWN_FINDINGS.json at the top is the merged copy written by tools/gen_manifest.py.)
    Never written at run time."""
    f = VERIF / 'known_findings' / (prop + '.json')
    if not f.exists():
        return [], []
    data = json.loads(f.read_text())
    for e in data.get('known', []):
        e.setdefault('property', prop)
    return data.get('known', []), data.get('fixed', [])


# --------------------------------------------------------------------------- the check driver
class Violation:
    def __init__(self, kind: str, what: str, case: Any = None, expected: Any = None, observed: Any = None,
                 found_input: bool = True):
        self.kind, self.what, self.case = kind, what, case
        self.expected, self.observed, self.found_input = expected, observed, found_input


class PropertyCheck:
    """Subclass per property. All hooks are optional except `id`."""
    id = 'C00'
    props_module = ''                    # e.g. 'Props.C19'
    extra_targets: List[str] = []        # more .vo targets whose build is an obligation
    models: Dict[str, str] = {}          # model name -> Extract/<file>.v
    needs_gen = False
    trusted_base: List[str] = []
    assumptions: List[str] = []
    rule = ''

    def __init__(self, tier: str, seed: int):
        self.tier, self.seed = tier, seed
        self.rng = random.Random(seed)
        self.binaries: Dict[str, Path] = {}
        self.stats: Dict[str, Any] = {}
        self.samples: List[Any] = []
        self.evaluations = 0
        self.nontrivial: set = set()
        self.exhaustive = False
        self.notes: List[str] = []
        self._vm_record: Dict[str, List[Tuple[str, str]]] = {}

    # -- to override
    def correspondence(self) -> List[Violation]:
        """Run model and implementation on the same inputs; return correspondence breaks (kind='correspondence')
        and direct oracle failures (kind='oracle')."""
        return []

    def search(self, broken: List[Violation]) -> List[Violation]:
        """After a proof/correspondence break: look for a concrete failing input against the real code."""
        return []

    def classify_known(self, v: Violation, known: List[dict]) -> Optional[dict]:
        """Return the known-findings entry that this violation is an instance of, if any."""
        return None

    def replay(self, case: Any) -> int:
        log('replay not implemented for', self.id)
        return 2

    # -- helpers
    def count(self, key: str, n: int = 1) -> None:
        self.stats[key] = self.stats.get(key, 0) + n

    def sample(self, x: Any, limit: int = 6) -> None:
        if len(self.samples) < limit:
            self.samples.append(x)

    def model(self, name: str, inputs: Sequence[str]) -> List[str]:
        outs = run_model_parallel(self.binaries[name], inputs)
        rec = self._vm_record.setdefault(name, [])
        if len(rec) < 400 and inputs:
            step = max(1, len(inputs) // 40)
            for i in range(0, len(inputs), step):
                if len(inputs[i]) < 4000:
                    rec.append((inputs[i], outs[i]))
        return outs


def write_replay(prop: str, seed: int, v: Violation, idx: int = 0) -> Path:
    d = VERIF / 'replay'
    d.mkdir(exist_ok=True)
    p = d / ('%s-%d-%d.json' % (prop, seed, idx))
    p.write_text(json.dumps({
        'property': prop, 'kind': v.kind, 'what': v.what, 'input': v.case, 'expected': v.expected,
        'observed': v.observed, 'failing_input_found': v.found_input,
        'how': './check %s --replay %s' % (prop, p)}, indent=1, default=str))
    return p


def run_check(cls: type, tier: str, seed: int) -> int:
    t0 = time.time()
    chk: PropertyCheck = cls(tier, seed)
    prop = chk.id
    violations: List[Violation] = []
    broken: List[Violation] = []
    obligations = 0
    discharged = 0
    assumptions_found: Dict[str, List[str]] = {}
    cmds: List[str] = []

    # 1. regenerate Gen/*.v from /repo (fail closed)
    if chk.needs_gen:
        rc, out = sh([PY, str(VERIF / 'harness' / 'gen_tables.py')] + list(getattr(chk, 'gen_modules', [])),
                     env=impl_env(), timeout=600)
        cmds.append('harness/gen_tables.py')
        if rc != 0:
            broken.append(Violation('translator', 'gen_tables.py could not translate /repo (fail-closed): '
                                    + out.strip()[-600:], found_input=False))

    # 2. Coq cone of Props/Cxx.v
    names: List[str] = []
    if chk.props_module:
        vfile = THEORIES / (chk.props_module.replace('.', '/') + '.v')
        names = theorem_names(vfile)
        obligations = len(names)
        targets = ['theories/' + chk.props_module.replace('.', '/') + '.vo'] + list(chk.extra_targets)
        ok, out = coq_make(targets)
        cmds.append('make -C coq ' + ' '.join(targets))
        if not ok:
            # lia/nia keep a cache file in coq/ that concurrent coqc processes of one `make -j` share; should a damaged
            # cache ever make a proof fail, a second build without it must not: a genuine failure fails again
            for c in ('.lia.cache', '.nia.cache', '.nra.cache'):
                try:
                    (COQ / c).unlink()
                except OSError:
                    pass
            ok, out = coq_make(targets)
            cmds.append('make -C coq (second attempt, lia caches removed)')
        if not ok:
            m = re.findall(r'File "([^"]+)", line (\d+)[^\n]*\n(?:.*\n){0,6}?Error:[^\n]*(?:\n[^\n]+){0,4}', out)
            err = re.search(r'File "[^"]+", line \d+.*?Error:.*?(?=\n\n|\nmake|\Z)', out, flags=re.S)
            what = 'proof obligation no longer checks: ' + (err.group(0)[:1500] if err else out[-1500:])
            broken.append(Violation('theorem', what, found_input=False))
        else:
            # 3. assumptions
            assumptions_found = print_assumptions(chk.props_module, names)
            cmds.append('coqc Print Assumptions x%d' % len(names))
            for n in names:
                axs = assumptions_found.get(n)
                if axs is None:
                    broken.append(Violation('theorem', 'no Print Assumptions output for ' + n, found_input=False))
                elif any(a not in ALLOWED_AXIOMS for a in axs):
                    broken.append(Violation('theorem', 'theorem %s depends on axioms %s' % (n, axs), found_input=False))
                else:
                    discharged += 1
        cone = coq_cone(chk.props_module, [vm_module_of(x) for x in chk.models.values()] + ['Extract.' + x[:-2] for x in chk.models.values()])
        hits = grep_forbidden(cone)
        chk.stats['coq_cone_files'] = [str(c.relative_to(THEORIES)) for c in cone]
        if hits:
            broken.append(Violation('theorem', 'forbidden vernacular in development: ' + ', '.join(hits[:10]),
                                    found_input=False))
            discharged = 0

    if any(b.kind == 'translator' for b in broken):
        # the generated files are stale (the translator refused the current source): whatever compiled, compiled against the
        # PREVIOUS code, so nothing counts as discharged for this tree
        discharged = 0
        chk.notes.append('translator failed closed: obligations were compiled against the previously generated files and are not counted')

    # 4. extracted models
    models_ok = True
    for name, xv in chk.models.items():
        # model sources must be compiled first
        ok, out = coq_make(['theories/' + p for p in model_vo_deps(xv)])
        if not ok:
            broken.append(Violation('correspondence', 'model does not compile: ' + out[-800:], found_input=False))
            models_ok = False
            continue
        b, out = build_model(prop + '_' + name, xv)
        if b is None:
            broken.append(Violation('correspondence', 'model extraction failed: ' + out[-800:], found_input=False))
            models_ok = False
        else:
            chk.binaries[name] = b

    # 5./6. correspondence + oracle
    if models_ok:
        try:
            found = chk.correspondence()
        except ImplCrash as e:
            found = [Violation('correspondence', 'implementation adapter crashed: ' + str(e)[-1500:], found_input=False)]
        for v in found:
            (violations if v.kind == 'oracle' else broken).append(v)

    # 6b. thorough tier: cross-check extraction against the kernel's evaluator, and re-check the .vo with coqchk
    if tier == 'thorough' and models_ok and not broken:
        for name, xv in chk.models.items():
            rec = chk._vm_record.get(name, [])[:60]
            if not rec:
                continue
            modname = vm_module_of(xv)
            try:
                vm = run_model_vm(modname, [i for i, _ in rec])
                bad = [(i, o, v) for (i, o), v in zip(rec, vm) if dec(o) != dec(v)]
                chk.stats['vm_crosscheck_%s' % name] = len(rec)
                if bad:
                    broken.append(Violation('correspondence', 'extracted OCaml and vm_compute disagree on model %s: %r'
                                            % (name, bad[0]), found_input=False))
            except Exception as e:  # noqa
                chk.notes.append('vm cross-check of %s not run: %s' % (name, str(e)[-300:]))
        if chk.props_module:
            rc, out = sh(['coqchk', '-silent', '-o', '-Q', str(THEORIES), 'PydoctorVerif',
                          'PydoctorVerif.' + chk.props_module], cwd=COQ, timeout=3000)
            cmds.append('coqchk -o PydoctorVerif.' + chk.props_module)
            m = re.search(r'\* Axioms:\s*(.*?)(?:\n\s*\n|\* |\Z)', out, flags=re.S)
            chk.stats['coqchk'] = {'rc': rc, 'axioms': (m.group(1).strip()[:1500] if m else out[-600:])}
            if rc != 0:
                broken.append(Violation('theorem', 'coqchk rejected the compiled development: ' + out[-800:], found_input=False))

    # 7. search for a concrete failing input when something broke and no (unlisted) oracle failure is at hand
    known, fixed = load_known_findings(prop)
    if broken and not [v for v in violations if chk.classify_known(v, known) is None]:
        try:
            violations.extend(chk.search(broken))
        except ImplCrash as e:
            chk.notes.append('search crashed: ' + str(e)[-500:])

    # known findings
    reported: List[Tuple[Violation, Path]] = []
    known_hit: Dict[str, str] = {}
    idx = 0
    violations.sort(key=lambda v: len(json.dumps(v.case, default=str)))
    for v in violations:
        if len(reported) >= 3:
            break
        k = chk.classify_known(v, known)
        if k is not None:
            known_hit.setdefault(k['id'], k['what'])
            continue
        reported.append((v, write_replay(prop, seed, v, idx)))
        idx += 1
    if broken and not reported:
        # nothing concrete: still a violation (no longer shown to hold) -- unless every break is itself
        # explained by a known finding's correspondence signature
        unexplained = [b for b in broken if chk.classify_known(b, known) is None]
        for b in unexplained[:3]:
            b.found_input = False
            reported.append((b, write_replay(prop, seed, b, idx)))
            idx += 1

    # evidence
    ev = {
        'property_id': prop, 'tier': tier, 'seed': seed, 'level': 'proof',
        'coverage': {
            'obligations': obligations, 'discharged': discharged,
            'checker_cmd': '; '.join(cmds) or 'none',
            'trusted_base': chk.trusted_base,
            'theorems': names, 'print_assumptions': assumptions_found,
            'evaluations': chk.evaluations, 'distinct_nontrivial': len(chk.nontrivial) if chk.nontrivial else chk.stats.get('distinct_nontrivial', 0),
            'rule': chk.rule, 'samples': chk.samples or ['(no correspondence cases this run)'],
            'exhaustive': chk.exhaustive,
            'traces_validated_against_impl': chk.stats.get('traces_validated_against_impl', chk.evaluations),
            'distribution': chk.stats, 'notes': chk.notes,
            'known_findings_reported': sorted(known_hit),
            'broken': [b.what[:400] for b in broken][:10],
        },
        'assumptions': chk.assumptions,
        'wall_s': round(time.time() - t0, 2),
        'violations': len(reported),
    }
    evdir = Path(os.environ.get('VERIF_EVIDENCE_DIR', str(VERIF / 'evidence')))   # scratch runs against mutated checkouts
    evdir.mkdir(exist_ok=True, parents=True)
    (evdir / (prop + '.json')).write_text(json.dumps(ev, indent=1, default=str) + '\n')

    for kid, what in sorted(known_hit.items()):
        print('KNOWN-FINDING: property=%s %s' % (prop, what))
    for v, p in reported:
        tail = '' if v.found_input else ' no-failing-input-found'
        log('  ' + v.kind + ': ' + v.what[:600])
        print('VIOLATION property=%s replay=%s%s' % (prop, p, tail))
    print('%s %s tier=%s seed=%d obligations=%d/%d evaluations=%d wall=%.1fs' % (
        prop, 'FAIL' if reported else 'ok', tier, seed, discharged, obligations, chk.evaluations, time.time() - t0))
    return 1 if reported else 0


def vm_module_of(extract_v: str) -> str:
    """The model module an Extract file extracts `run` from: the LAST PydoctorVerif module it imports."""
    deps = model_vo_deps(extract_v)
    return deps[-1][:-3].replace('/', '.')


def model_vo_deps(extract_v: str) -> List[str]:
    """The .vo files an Extract file requires (parsed from its Require lines)."""
    src = (THEORIES / 'Extract' / extract_v).read_text()
    mods = re.findall(r'From PydoctorVerif Require Import\s+([A-Za-z0-9_.\s]+?)\.\s*(?:\n|$)', src)
    out = []
    for grp in mods:
        for m in grp.split():
            out.append(m.replace('.', '/') + '.vo')
    return out
