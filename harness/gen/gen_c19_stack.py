"""Translator A for C19 (third part): the bodies of astbuilder.ASTBuilder.push / pop into the language of Model/StackIR.v.
Fail-closed.  Dropped: `obj.setLineNumber(lineno)` (no effect on the modelled state; the `if lineno:` around it is kept)."""
import ast, inspect
from pathlib import Path


class Bad(ValueError):
    pass


def bad(what, node=None):
    raise Bad('unrecognised shape: %s%s' % (what, (' at line %d: %s' % (node.lineno, ast.unparse(node)[:90])) if node is not None else ''))


def strip_doc(body):
    if body and isinstance(body[0], ast.Expr) and isinstance(body[0].value, ast.Constant) and isinstance(body[0].value.value, str):
        return body[1:]
    return body


class M:
    def __init__(self, fn):
        a = fn.args
        names = [x.arg for x in a.args]
        if names[:2] != ['self', names[1] if len(names) > 1 else ''] or a.vararg or a.kwarg or a.kwonlyargs:
            bad('parameters of %s' % fn.name, fn)
        self.obj = names[1]
        self.lineno = names[2] if len(names) > 2 else None
        self.fn = fn
        # single-assignment locals that only NAME a state component or a pure test are substituted; a use is accepted only while
        # the component has not been written since the local was bound (otherwise the local and the attribute differ: fail closed)
        self.aliases = {}        # name -> (expression text, components it reads, versions at binding time)
        self.version = {'current': 0, 'mod': 0, 'pmod': 0, 'stack': 0}
        self.pending_pop = {}    # name bound to self._stack.pop(): -> versions/reads at binding time
        self.reads = 0

    DEPS = {'KCurrent': 'current', 'KCurrentMod': 'mod', 'KObjParentMod': 'pmod'}

    def deps_of(self, text):
        return {v for k, v in self.DEPS.items() if k in text}

    def bump(self, *comps):
        for c in comps:
            self.version[c] += 1

    def expr(self, e):
        s = ast.unparse(e)
        if isinstance(e, ast.Name) and e.id in self.aliases:
            text, deps, ver = self.aliases[e.id]
            if any(self.version[d] != ver[d] for d in deps):
                bad('local %r is read after the state it names was written' % e.id, e)
            return text
        if isinstance(e, ast.Name) and e.id in self.pending_pop:
            bad('the popped value is used other than by `self.current = <it>`', e)
        if s in ('self.current',):
            self.reads += 1
        if isinstance(e, ast.Constant) and e.value is None:
            return 'KNone'
        if s == self.obj:
            return 'KObj'
        if s == 'self.current':
            return 'KCurrent'
        if s == 'self.currentMod':
            return 'KCurrentMod'
        if s == '%s.parentMod' % self.obj:
            return 'KObjParentMod'
        if self.lineno and s == self.lineno:
            return 'KLineno'
        if s in ('isinstance(%s, model.Module)' % self.obj, 'isinstance(%s, Module)' % self.obj):
            return 'KObjIsModule'
        if isinstance(e, ast.UnaryOp) and isinstance(e.op, ast.Not):
            return 'KNot (%s)' % self.expr(e.operand)
        if isinstance(e, ast.Compare) and len(e.ops) == 1 and isinstance(e.ops[0], (ast.Is, ast.IsNot)):
            l, r = e.left, e.comparators[0]
            neg = isinstance(e.ops[0], ast.IsNot)
            if isinstance(r, ast.Constant) and r.value is None:
                return '%s (%s)' % ('KIsNotNone' if neg else 'KIsNone', self.expr(l))
            return '%s (%s) (%s)' % ('KIsNot' if neg else 'KIs', self.expr(l), self.expr(r))
        bad('expression', e)

    def block(self, stmts):
        out = [o for o in (self.stmt(s) for s in stmts) if o is not None]
        r = 'KSkip'
        for o in reversed(out):
            r = o if r == 'KSkip' else 'KSeq (%s) (%s)' % (o, r)
        return r

    def assign(self, tgt, val):
        t = ast.unparse(tgt)
        if t == 'self.current':
            if not isinstance(val, str) and ast.unparse(val) == 'self._stack.pop()':
                self.bump('current', 'stack')
                return 'KSetCurrentPop'
            if not isinstance(val, str) and isinstance(val, ast.Name) and val.id in self.pending_pop:
                ver, reads = self.pending_pop.pop(val.id)
                if ver != self.version or reads != self.reads:
                    bad('state read or written between `x = self._stack.pop()` and `self.current = x`', tgt)
                self.bump('current', 'stack')
                return 'KSetCurrentPop'
            out = 'KSetCurrent (%s)' % (val if isinstance(val, str) else self.expr(val))
            self.bump('current')
            return out
        if t == 'self.currentMod':
            out = 'KSetCurrentMod (%s)' % (val if isinstance(val, str) else self.expr(val))
            self.bump('mod')
            return out
        if t == '%s.parentMod' % self.obj:
            out = 'KSetObjParentMod (%s)' % (val if isinstance(val, str) else self.expr(val))
            self.bump('pmod')
            return out
        if isinstance(tgt, ast.Name) and not isinstance(val, str):
            if tgt.id in self.aliases or tgt.id in self.pending_pop or tgt.id in (self.obj, self.lineno, 'self'):
                bad('a local is bound twice', tgt)
            if ast.unparse(val) == 'self._stack.pop()':
                self.pending_pop[tgt.id] = (dict(self.version), self.reads)
                return None
            text = self.expr(val)
            self.aliases[tgt.id] = (text, self.deps_of(text), dict(self.version))
            return None
        bad('assignment target', tgt)

    def stmt(self, s):
        if isinstance(s, ast.Pass):
            return None
        if isinstance(s, ast.Assert):
            return 'KAssert (%s)' % self.expr(s.test)
        if isinstance(s, ast.If):
            th, el = self.block(s.body), self.block(s.orelse)
            if th == 'KSkip' and el == 'KSkip':
                self.expr(s.test)           # must still be an expression of the language (no effect)
                return None
            return 'KIf (%s) (%s) (%s)' % (self.expr(s.test), th, el)
        if isinstance(s, ast.AnnAssign) and s.value is not None:
            s = ast.copy_location(ast.Assign(targets=[s.target], value=s.value), s)
        if isinstance(s, ast.Assign):
            # a = b = v : Python evaluates v once and assigns left to right
            v = s.value
            if len(s.targets) == 1:
                return self.assign(s.targets[0], v)
            ve = 'KSetCurrentPop' if ast.unparse(v) == 'self._stack.pop()' else self.expr(v)
            if ve == 'KSetCurrentPop' or ast.unparse(v) in [ast.unparse(t) for t in s.targets]:
                bad('chained assignment', s)
            outs = [self.assign(t, ve) for t in s.targets]
            r = outs[-1]
            for o in reversed(outs[:-1]):
                r = 'KSeq (%s) (%s)' % (o, r)
            return r
        if isinstance(s, ast.Expr) and isinstance(s.value, ast.Call):
            c = ast.unparse(s.value)
            if isinstance(s.value.func, ast.Attribute) and ast.unparse(s.value.func) == 'self._stack.append' and len(s.value.args) == 1:
                if self.expr(s.value.args[0]) == 'KCurrent':
                    self.bump('stack')
                    return 'KAppendCurrent'
                bad('value appended to the stack', s)
            if self.lineno and c == '%s.setLineNumber(%s)' % (self.obj, self.lineno):
                return None
        bad('statement', s)


def generate() -> dict:
    from pydoctor import astbuilder
    tree = ast.parse(Path(inspect.getsourcefile(astbuilder)).read_text())
    cls = [n for n in tree.body if isinstance(n, ast.ClassDef) and n.name == 'ASTBuilder']
    if len(cls) != 1:
        bad('class ASTBuilder not found exactly once')
    fns = {f.name: f for f in cls[0].body if isinstance(f, ast.FunctionDef)}
    out = {}
    for name in ('push', 'pop'):
        if name not in fns:
            bad('ASTBuilder.%s not found' % name)
        m = M(fns[name])
        out[name] = m.block(strip_doc(fns[name].body))
        if m.pending_pop:
            bad('ASTBuilder.%s: a popped value is never stored into self.current' % name)
    # pinned: the wrappers go through push/pop on the current object
    want = {'_pop': ['assert isinstance(self.current, cls)', 'self.pop(self.current)', 'self.currentAttr = None']}
    got = [ast.unparse(x) for x in strip_doc(fns['_pop'].body)] if '_pop' in fns else None
    if got != want['_pop']:
        bad('ASTBuilder._pop changed: %r' % got)
    p = [ast.unparse(x) for x in strip_doc(fns['_push'].body)] if '_push' in fns else []
    if 'self.push(obj, lineno)' not in p:
        bad('ASTBuilder._push does not call self.push(obj, lineno)')
    import textwrap
    lines = ['From Coq Require Import NArith List.', 'Import ListNotations.', 'From PydoctorVerif Require Import Model.StackIR.', '']
    for name in ('push', 'pop'):
        lines.append('Definition code_%s : sstmt :=' % name)
        lines.append(textwrap.fill(out[name], 110, initial_indent='  ', subsequent_indent='  ', break_long_words=False) + '.')
        lines.append('')
    lines.append('Definition builder_stack_code : stack_code := {| sc_push := code_push; sc_pop := code_pop |}.')
    return {'StackCode.v': '\n'.join(lines) + '\n'}


if __name__ == '__main__':
    print(generate()['StackCode.v'])
