"""Translator A for C01 (second part): the BODIES of pydoctor/model.py System.processModule / getProcessedModule /
process, translated statement by statement into the deep-embedded language of Model/ProcIR.v.
Proofs/ProcIRProofs.v proves, for every well-formed project, order, state and fuel, that interpreting THIS output is the
work-list machine of Model/Proc.v (the one C01_process_total / C01_bad_file_isolated are about); so a change to the
bookkeeping of model.py (a state set too early, a pop lost on one path, the parse failure no longer leaving the module
PROCESSING, ...) changes Gen/ProcCode.v and breaks that proof obligation, not only the sampled correspondence.

Fail-closed: any statement, expression, receiver or call outside the recognised shapes aborts the generation with
`unrecognised shape`.  Calls without effect on the modelled state are dropped only when they are one of
self.msg / self.progress / self.postProcess with side-effect-free arguments."""
import ast, inspect, textwrap
from pathlib import Path

STATES = {'UNPROCESSED', 'PROCESSING', 'PROCESSED'}


class Bad(ValueError):
    pass


def bad(what, node=None):
    raise Bad('unrecognised shape: %s%s' % (what, (' at line %d: %s' % (node.lineno, ast.unparse(node)[:90])) if node is not None else ''))


def strip_doc(body):
    if body and isinstance(body[0], ast.Expr) and isinstance(body[0].value, ast.Constant) and isinstance(body[0].value.value, str):
        return body[1:]
    return body


def is_self_attr(e, name):
    return isinstance(e, ast.Attribute) and isinstance(e.value, ast.Name) and e.value.id == 'self' and e.attr == name


def state_const(e):
    if isinstance(e, ast.Attribute) and isinstance(e.value, ast.Name) and e.value.id == 'ProcessingState' and e.attr in STATES:
        return e.attr
    return None


def pure(e) -> bool:
    """argument expressions of the dropped calls: no effect on the modelled state"""
    for sub in ast.walk(e):
        if isinstance(sub, ast.Call):
            f = sub.func
            ok = (isinstance(f, ast.Name) and f.id in ('len', 'str', 'repr')) or \
                 (isinstance(f, ast.Attribute) and f.attr in ('fullName', 'format', 'join'))
            if not ok:
                return False
        elif isinstance(sub, (ast.Await, ast.Yield, ast.YieldFrom, ast.NamedExpr, ast.Lambda)):
            return False
    return True


class Method:
    def __init__(self, fn, tag, modvar=None, modname_param=None):
        self.fn, self.tag = fn, tag
        self.modvar = modvar                # the name that denotes the module object
        self.modname_param = modname_param  # getProcessedModule: the str parameter
        self.vars = {}
        self.assigned = set()
        self.builders = set()               # locals holding `self.defaultBuilder(self)`
        self.asts = set()                   # locals holding a parse result
        self.captured = set()               # locals a lambda refers to: must not be rebound afterwards
        self.opaque = set()                 # locals holding a value outside the language (never read by translated code)
        self.mod_is_local = modname_param is not None

    def var(self, name):
        if name not in self.vars:
            self.vars[name] = len(self.vars)
        return 'v_%s_%s' % (self.tag, name.replace('@', 'x_'))

    def use(self, name, node):
        if name not in self.assigned:
            bad('local %r read before it is bound' % name, node)
        return self.var(name)

    def is_mod(self, e):
        return isinstance(e, ast.Name) and e.id == self.modvar and (not self.mod_is_local or self.modvar in self.assigned)

    def is_fullname(self, e):
        return (isinstance(e, ast.Call) and isinstance(e.func, ast.Attribute) and e.func.attr == 'fullName'
                and self.is_mod(e.func.value) and not e.args and not e.keywords)

    # ---- expressions -------------------------------------------------------------------------------------------
    def expr(self, e):
        if isinstance(e, ast.Constant):
            if e.value is None:
                return 'EConst VNone'
            if e.value is True or e.value is False:
                return 'EConst (VBool %s)' % ('true' if e.value else 'false')
            bad('constant', e)
        if isinstance(e, ast.Name):
            return 'EVar %s' % self.use(e.id, e)
        if isinstance(e, ast.Attribute) and self.is_mod(e.value):
            if e.attr == '_is_c_module':
                return 'EIsC'
            if e.attr == 'source_path':
                return 'ESourcePath'
            if e.attr == '_py_string':
                return 'EPyString'
            bad('attribute of the module', e)
        if isinstance(e, ast.UnaryOp) and isinstance(e.op, ast.Not):
            return 'ENot (%s)' % self.expr(e.operand)
        if isinstance(e, ast.BoolOp):
            parts = [self.expr(v) for v in e.values]
            ctor = 'EAnd' if isinstance(e.op, ast.And) else 'EOr'
            r = parts[-1]
            for q in reversed(parts[:-1]):
                r = '%s (%s) (%s)' % (ctor, q, r)
            return r
        if isinstance(e, ast.Compare) and len(e.ops) == 1:
            op, l, r = e.ops[0], e.left, e.comparators[0]
            none_r = isinstance(r, ast.Constant) and r.value is None
            if isinstance(op, (ast.Is, ast.IsNot)) and none_r:
                return '%s (%s)' % ('EIsNone' if isinstance(op, ast.Is) else 'EIsNotNone', self.expr(l))
            is_state = isinstance(l, ast.Attribute) and l.attr == 'state' and self.is_mod(l.value)
            if is_state and isinstance(op, (ast.Is, ast.IsNot, ast.Eq, ast.NotEq)) and state_const(r):
                t = 'EStateIs %s' % state_const(r)
                return t if isinstance(op, (ast.Is, ast.Eq)) else 'ENot (%s)' % t
            if is_state and isinstance(op, (ast.In, ast.NotIn)) and isinstance(r, (ast.Tuple, ast.List, ast.Set)) \
                    and all(state_const(x) for x in r.elts):
                t = 'EStateIn [%s]' % '; '.join(state_const(x) for x in r.elts)
                return t if isinstance(op, ast.In) else 'ENot (%s)' % t
            if isinstance(op, (ast.In, ast.NotIn)) and self.is_mod(l) and is_self_attr(r, 'unprocessed_modules'):
                return 'EInUnproc' if isinstance(op, ast.In) else 'ENot (EInUnproc)'
            if isinstance(op, (ast.Eq, ast.NotEq)) and (self.is_fullname(r) or self.is_fullname(l)):
                o = l if self.is_fullname(r) else r
                t = 'EEqModName (%s)' % self.expr(o)
                return t if isinstance(op, ast.Eq) else 'ENot (%s)' % t
            bad('comparison', e)
        if (isinstance(e, ast.Call) and isinstance(e.func, ast.Name) and e.func.id == 'isinstance' and len(e.args) == 2
                and not e.keywords and isinstance(e.args[1], ast.Name) and e.args[1].id == 'Module'):
            return 'EIsModule (%s)' % self.expr(e.args[0])
        bad('expression', e)

    # ---- statements --------------------------------------------------------------------------------------------
    def block(self, stmts):
        out = [o for o in (self.stmt(s) for s in stmts) if o is not None]
        if not out:
            return 'SSkip'
        r = out[-1]
        for o in reversed(out[:-1]):
            r = 'SSeq (%s) (%s)' % (o, r)
        return r

    def stmt(self, s):
        if isinstance(s, ast.Pass):
            return None
        if isinstance(s, ast.Assert):
            return 'SAssert (%s)' % self.expr(s.test)
        if isinstance(s, ast.Return):
            if s.value is not None and not (isinstance(s.value, ast.Constant) and s.value.value is None) \
                    and not (isinstance(s.value, ast.Name) and s.value.id == self.modvar):
                bad('return value', s)
            return 'SReturn'
        if isinstance(s, ast.If):
            c = self.expr(s.test)
            before = set(self.assigned)
            th = self.block(s.body)
            a1 = self.assigned
            self.assigned = set(before)
            el = self.block(s.orelse)
            self.assigned = a1 & self.assigned
            return 'SIf (%s) (%s) (%s)' % (c, th, el)
        if isinstance(s, (ast.Assign, ast.AnnAssign)):
            tgt = s.targets[0] if isinstance(s, ast.Assign) and len(s.targets) == 1 else getattr(s, 'target', None)
            v = s.value
            if tgt is None or v is None:
                bad('assignment', s)
            if isinstance(tgt, ast.Attribute) and tgt.attr == 'state' and self.is_mod(tgt.value) and state_const(v):
                return 'SSetState %s' % state_const(v)
            if not isinstance(tgt, ast.Name):
                bad('assignment target', s)
            name = tgt.id
            if name in self.captured:
                bad('a name captured by a lambda is rebound', s)
            out = None
            if isinstance(v, ast.Lambda):
                a = v.args
                if a.args or a.vararg or a.kwarg or a.kwonlyargs or a.posonlyargs:
                    bad('lambda with parameters', s)
                inner = self.stmt(ast.Expr(value=v.body, lineno=s.lineno, col_offset=0))
                if inner not in ('SIntrospect', 'SProcessAST'):
                    bad('lambda body', s)
                for sub in ast.walk(v.body):
                    if isinstance(sub, ast.Name) and sub.id not in ('self',):
                        self.captured.add(sub.id)
                out = 'SAssign %s (EConst (VThunk %s))' % (self.var(name), 'TIntrospect' if inner == 'SIntrospect' else 'TProcessAST')
            if isinstance(v, ast.Call) and isinstance(v.func, ast.Attribute) and not v.keywords:
                f = v.func
                if (f.attr == 'get' and is_self_attr(f.value, 'allobjects') and len(v.args) == 1 and self.modname_param
                        and isinstance(v.args[0], ast.Name) and v.args[0].id == self.modname_param and name == self.modvar):
                    out = 'SAssignLookup %s' % self.var(name)
                elif f.attr == 'defaultBuilder' and isinstance(f.value, ast.Name) and f.value.id == 'self' \
                        and len(v.args) == 1 and isinstance(v.args[0], ast.Name) and v.args[0].id == 'self':
                    out = 'SAssignBuilder %s' % self.var(name)
                    self.builders.add(name)
                elif f.attr in ('parseString', 'parseFile') and isinstance(f.value, ast.Name) and f.value.id in self.builders \
                        and len(v.args) == 2 and self.is_mod(v.args[1]) and isinstance(v.args[0], ast.Attribute) \
                        and self.is_mod(v.args[0].value) \
                        and v.args[0].attr == ('_py_string' if f.attr == 'parseString' else 'source_path'):
                    self.use(f.value.id, s)
                    out = 'SAssignParse %s' % self.var(name)
                    self.asts.add(name)
                elif f.attr == 'pop' and is_self_attr(f.value, 'processing_modules') and not v.args:
                    out = 'SAssignPop %s' % self.var(name)
            if out is None:
                try:
                    out = 'SAssign %s (%s)' % (self.var(name), self.expr(v))
                except Bad:
                    # a value outside the language (arithmetic on counters, a message string ...) may be bound to a
                    # local as long as computing it has no effect and the local is only passed to the dropped calls
                    if not pure(v):
                        raise
                    self.vars.pop(name, None)
                    self.opaque.add(name)
                    self.assigned.discard(name)
                    return None
                if isinstance(v, ast.Name) and v.id in self.asts:
                    self.asts.add(name)
                if isinstance(v, ast.Name) and v.id in self.builders:
                    self.builders.add(name)
            self.assigned.add(name)
            return out
        if isinstance(s, ast.Expr) and isinstance(s.value, ast.Call) and isinstance(s.value.func, ast.Name) \
                and not s.value.args and not s.value.keywords:
            return 'SCallVar %s' % self.use(s.value.func.id, s)
        if isinstance(s, ast.Expr) and isinstance(s.value, ast.Call) and isinstance(s.value.func, ast.Attribute):
            c, f = s.value, s.value.func
            if is_self_attr(f.value, 'unprocessed_modules') and f.attr == 'remove' and len(c.args) == 1 and self.is_mod(c.args[0]) and not c.keywords:
                return 'SRemoveUnproc'
            if is_self_attr(f.value, 'processing_modules') and f.attr == 'append' and len(c.args) == 1 and self.is_fullname(c.args[0]) and not c.keywords:
                return 'SPush'
            if isinstance(f.value, ast.Name) and f.value.id == 'self':
                if f.attr in ('msg', 'progress', 'postProcess'):
                    if not all(pure(a) for a in c.args) or not all(pure(k.value) for k in c.keywords):
                        bad('arguments of a dropped call have effects', s)
                    return None
                if f.attr == '_introspectThing' and len(c.args) == 3 and self.is_mod(c.args[1]) and self.is_mod(c.args[2]):
                    return 'SIntrospect'
                if f.attr == 'processModule' and len(c.args) == 1 and self.is_mod(c.args[0]) and not c.keywords:
                    return 'SCallPM'
            if isinstance(f.value, ast.Name) and f.value.id in self.builders and f.attr == 'processModuleAST' \
                    and len(c.args) == 2 and isinstance(c.args[0], ast.Name) and c.args[0].id in self.asts and self.is_mod(c.args[1]):
                self.use(f.value.id, s)
                self.use(c.args[0].id, s)
                return 'SProcessAST'
            bad('call', s)
        bad('statement %s' % type(s).__name__, s)


def find_method(cls, name):
    fs = [n for n in cls.body if isinstance(n, ast.FunctionDef) and n.name == name]
    if len(fs) != 1:
        bad('method System.%s not found exactly once' % name)
    return fs[0]


def params(fn):
    a = fn.args
    if a.vararg or a.kwarg or a.kwonlyargs or a.posonlyargs or a.defaults:
        bad('parameter list of %s' % fn.name, fn)
    return [x.arg for x in a.args]


def generate() -> dict:
    from pydoctor import model
    tree = ast.parse(Path(inspect.getsourcefile(model)).read_text())
    cs = [n for n in tree.body if isinstance(n, ast.ClassDef) and n.name == 'System']
    if len(cs) != 1:
        bad('class System not found exactly once')
    S = cs[0]

    pm = find_method(S, 'processModule')
    ps = params(pm)
    if len(ps) != 2 or ps[0] != 'self':
        bad('parameters of processModule', pm)
    m_pm = Method(pm, 'pm', modvar=ps[1])
    m_pm.assigned.add(ps[1])
    code_pm = m_pm.block(strip_doc(pm.body))

    gp = find_method(S, 'getProcessedModule')
    ps = params(gp)
    if len(ps) != 2 or ps[0] != 'self':
        bad('parameters of getProcessedModule', gp)
    body = strip_doc(gp.body)
    # the local that receives self.allobjects.get(modname)
    first = body[0] if body else None
    if not (isinstance(first, ast.Assign) and len(first.targets) == 1 and isinstance(first.targets[0], ast.Name)):
        bad('getProcessedModule does not start with the lookup', gp)
    m_gp = Method(gp, 'gpm', modvar=first.targets[0].id, modname_param=ps[1])
    code_gp = m_gp.block(body)
    if 'SAssignLookup' not in code_gp:
        bad('getProcessedModule: lookup not recognised', gp)

    pr = find_method(S, 'process')
    if params(pr) != ['self']:
        bad('parameters of process', pr)
    body = strip_doc(pr.body)
    if body and isinstance(body[0], ast.For) and not body[0].orelse and isinstance(body[0].target, ast.Name):
        # for mod in iter(self.<helper>, None): ...   where <helper>() is the first unprocessed module, or None when
        # there is none   ==   while self.unprocessed_modules: mod = self.unprocessed_modules[0]; ...
        it = body[0].iter
        ok = (isinstance(it, ast.Call) and isinstance(it.func, ast.Name) and it.func.id == 'iter' and len(it.args) == 2
              and isinstance(it.args[1], ast.Constant) and it.args[1].value is None and isinstance(it.args[0], ast.Attribute)
              and isinstance(it.args[0].value, ast.Name) and it.args[0].value.id == 'self')
        if ok:
            hb = strip_doc(find_method(S, it.args[0].attr).body)
            forms = (['if self.unprocessed_modules:\n    return self.unprocessed_modules[0]', 'return None'],
                     ['if not self.unprocessed_modules:\n    return None', 'return self.unprocessed_modules[0]'],
                     ['return self.unprocessed_modules[0] if self.unprocessed_modules else None'])
            ok = [ast.unparse(x) for x in hb] in [list(f) for f in forms] and params(find_method(S, it.args[0].attr)) == ['self']
        if not ok:
            bad('process: unrecognised module iterator', body[0])
        pick = ast.Assign(targets=[ast.Name(id=body[0].target.id, ctx=ast.Store())],
                          value=ast.parse('self.unprocessed_modules[0]', mode='eval').body, lineno=body[0].lineno)
        loop = ast.While(test=ast.parse('self.unprocessed_modules', mode='eval').body, body=[pick] + body[0].body, orelse=[])
        ast.copy_location(loop, body[0])
        ast.fix_missing_locations(loop)
        body = [loop] + body[1:]
    if not body or not isinstance(body[0], ast.While) or body[0].orelse or not is_self_attr(body[0].test, 'unprocessed_modules'):
        bad('process: expected `while self.unprocessed_modules:` first', pr)
    loop = body[0]
    PICKS = ('next(iter(self.unprocessed_modules))', 'self.unprocessed_modules[0]')
    pick = loop.body[0] if loop.body else None
    if (isinstance(pick, ast.Assign) and len(pick.targets) == 1 and isinstance(pick.targets[0], ast.Name)
            and ast.unparse(pick.value) in PICKS):
        m_pr = Method(pr, 'proc', modvar=pick.targets[0].id)
        m_pr.assigned.add(pick.targets[0].id)
        code_body = m_pr.block(loop.body[1:])
    else:
        # the oldest unprocessed module written in place: self.processModule(self.unprocessed_modules[0])
        class Inline(ast.NodeTransformer):
            def visit_Call(self, node):
                self.generic_visit(node)
                return node
            def visit_Subscript(self, node):
                return ast.copy_location(ast.Name(id='@first', ctx=ast.Load()), node) if ast.unparse(node) in PICKS else node
            def visit_Call(self, node):
                if ast.unparse(node) in PICKS:
                    return ast.copy_location(ast.Name(id='@first', ctx=ast.Load()), node)
                self.generic_visit(node)
                return node
        stmts = [Inline().visit(x) for x in loop.body]
        m_pr = Method(pr, 'proc', modvar='@first')
        m_pr.assigned.add('@first')
        code_body = m_pr.block(stmts)
        if 'SCallPM' not in code_body:
            bad('process: the loop does not pick the first unprocessed module', loop)
    m_after = Method(pr, 'proc_after', modvar='@none')
    after = m_after.block(body[1:])
    if after != 'SSkip':
        bad('process: statements with an effect after the loop', pr)

    lines = ['From Coq Require Import NArith List.', 'Import ListNotations.',
             'From PydoctorVerif Require Import Model.Proc Model.ProcIR.', 'Local Open Scope N_scope.', '']
    for m, name, text in ((m_pm, 'process_module', code_pm), (m_gp, 'get_processed_module', code_gp), (m_pr, 'process_body', code_body)):
        lines.append('(* locals of System.%s *)' % m.fn.name)
        for py, i in m.vars.items():
            lines.append('Definition v_%s_%s : var := %d.' % (m.tag, py.replace('@', 'x_'), i))
        lines.append('Definition code_%s : stmt :=' % name)
        lines.append(textwrap.fill(text, 110, initial_indent='  ', subsequent_indent='  ', break_long_words=False) + '.')
        lines.append('')
    lines.append('Definition proc_code : code :=')
    lines.append('  {| c_process_module := code_process_module; c_get_processed_module := code_get_processed_module;')
    lines.append('     c_process_body := code_process_body |}.')
    return {'ProcCode.v': '\n'.join(lines) + '\n'}


if __name__ == '__main__':
    print(generate()['ProcCode.v'])
