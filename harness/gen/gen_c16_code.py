"""Translator A for C16: the BODIES of
      pydoctor/model.py            Documentable.report
      pydoctor/epydoc/docutils.py  get_lineno            (with its nested one-argument helper, if it has one)
      pydoctor/epydoc2stan.py      reportErrors
translated statement by statement / expression by expression into the deep-embedded language of Model/LinesIR.v.
Proofs/LinesIRProofs.v proves, for all inputs, that the interpretation of THIS output is Model/Lines.v (report_call,
get_lineno_chain, report_errors); so an edit of those functions that changes their meaning changes Gen/LinesCode.v and
breaks a proof obligation of Props/C16.v (C16_code_*_is_model), not only the sampled correspondence.

Fail-closed: any statement, expression, call, attribute or parameter list outside the recognised shapes aborts the generation
with `unrecognised shape`.  Pinned (checked here, not translated): the signature and defaults of System.msg
(thresh=0, topthresh=100, nonl=False, wantsnl=True, once=False) and of Documentable.report."""
import ast, inspect, textwrap
from pathlib import Path


class Bad(ValueError):
    pass


def bad(what, node=None):
    raise Bad('unrecognised shape: %s%s' % (what, (' at line %d: %s' % (node.lineno, ast.unparse(node)[:90])) if node is not None else ''))


def coq_text(s: str) -> str:
    return '[' + '; '.join(str(ord(c)) for c in s) + ']%N'


def strip_doc(body):
    if body and isinstance(body[0], ast.Expr) and isinstance(body[0].value, ast.Constant) and isinstance(body[0].value.value, str):
        return body[1:]
    return body


SELF_ATTRS = {'docstring_lineno': 'ADocstringLineno', 'linenumber': 'ALinenumber', 'description': 'ADescription', 'module': 'AModule'}
NODE_ATTRS = {'line': 'ALine', 'rawsource': 'ARawsource', 'parent': 'AParent'}


class Fn:
    """translation of one function body.  `kind`: 'report' | 'get_lineno' | 'report_errors' decides which attributes and
    calls mean something; `outer_params` (helper only) are the enclosing function's parameters, visible as EParam (1+i)."""

    def __init__(self, fn, kind, tag, outer_params=None, helper_name=None):
        self.fn, self.kind, self.tag = fn, kind, tag
        a = fn.args
        if a.vararg or a.kwarg or a.kwonlyargs or a.posonlyargs:
            bad('parameter list of %s' % fn.name, fn)
        self.params = [x.arg for x in a.args]
        self.outer = list(outer_params or [])
        self.helper_name = helper_name
        self.vars = {}
        self.assigned = set()
        self.aliases = {}          # local name -> section expression (Coq text) of `obj.system.parse_errors[section]`
        self.added = False         # an errors.add(...) has been translated (later membership tests are refused)
        self.helper = None         # Fn of the helper (nested function, or private function of the same module)
        self.module_fns = {}       # name -> FunctionDef of the same module (candidates for the helper)
        self.inline = {}           # single-assignment local -> Coq text of its (pure) value: substituted at its uses
        self.loop_vars = []        # targets of the enclosing `for` loops
        self.loop_inlines = []     # per enclosing for: the inlined locals defined in its body (out of scope after it)
        self.once = set()          # locals assigned exactly once, at the top level of the body or of a for-body

    # ---- names
    def var(self, name):
        if name not in self.vars:
            self.vars[name] = len(self.vars)
        return 'v_%s_%s' % (self.tag, name)

    def name(self, n, node):
        if n in self.inline:
            return self.inline[n]
        if n in self.vars and n in self.assigned:
            return 'EVar %s' % self.var(n)
        if n in self.params:
            if n in self.vars:
                bad('parameter %r is also assigned' % n, node)
            i = self.params.index(n)
            if self.kind == 'report' and n == 'self':
                return 'ESelf'
            if self.kind == 'report':
                return 'EParam %d' % (i - 1)            # self is not a value parameter
            return 'EParam %d' % i
        if n in self.outer:
            return 'EParam %d' % (len(self.params) + self.outer.index(n))
        bad('name %r is read before it is bound' % n, node)

    def prepare(self):
        """locals assigned exactly once, by a plain assignment at the top level of the body or of a for-body: their value
        is substituted at the uses when it is a pure expression over parameters, other such locals and loop variables"""
        counts = {}

        def targets(st):
            if isinstance(st, ast.Assign):
                for t in st.targets:
                    for n in ast.walk(t):
                        if isinstance(n, ast.Name):
                            yield n.id
            elif isinstance(st, (ast.AnnAssign, ast.AugAssign)) and isinstance(st.target, ast.Name):
                if not (isinstance(st, ast.AnnAssign) and st.value is None):
                    yield st.target.id
            elif isinstance(st, ast.For):
                for n in ast.walk(st.target):
                    if isinstance(n, ast.Name):
                        yield n.id

        def walk(stmts, dominating):
            for st in stmts:
                if isinstance(st, ast.FunctionDef):
                    continue
                for n in targets(st):
                    counts.setdefault(n, [0, True])
                    counts[n][0] += 1
                    plain = isinstance(st, (ast.Assign, ast.AnnAssign)) and not isinstance(st, ast.AugAssign) \
                        and ((isinstance(st, ast.Assign) and len(st.targets) == 1 and isinstance(st.targets[0], ast.Name))
                             or isinstance(st, ast.AnnAssign))
                    if not (dominating and plain):
                        counts[n][1] = False
                if isinstance(st, ast.If):
                    walk(st.body, False)
                    walk(st.orelse, False)
                elif isinstance(st, ast.While):
                    walk(st.body, False)
                elif isinstance(st, ast.For):
                    walk(st.body, dominating)
        walk(strip_doc(self.fn.body), True)
        self.once = {n for n, (c, ok) in counts.items() if c == 1 and ok and n not in self.params and n not in self.outer}

    def pure_over(self, text):
        """the translated value reads no assignable local except enclosing loop variables"""
        import re as _re
        allowed = {self.var(v) for v in self.loop_vars}
        return all(m in allowed for m in _re.findall(r'EVar (\w+)', text))

    # ---- expressions
    def ex(self, e):
        if isinstance(e, ast.Constant):
            v = e.value
            if v is None:
                return 'EConst VNone'
            if v is True or v is False:
                return 'EConst (VBool %s)' % ('true' if v else 'false')
            if isinstance(v, int):
                return 'EConst (VInt (%d))' % v
            if isinstance(v, str):
                return 'EConst (VStr %s)' % coq_text(v)
            bad('constant', e)
        if isinstance(e, ast.UnaryOp) and isinstance(e.op, ast.USub) and isinstance(e.operand, ast.Constant) and isinstance(e.operand.value, int):
            return 'EConst (VInt (%d))' % (-e.operand.value)
        if isinstance(e, ast.Name):
            return self.name(e.id, e)
        if isinstance(e, ast.Attribute):
            if e.attr in SELF_ATTRS and self.kind in ('report',):
                return 'EAttr %s (%s)' % (SELF_ATTRS[e.attr], self.ex(e.value))
            if e.attr in NODE_ATTRS and self.kind == 'get_lineno':
                return 'EAttr %s (%s)' % (NODE_ATTRS[e.attr], self.ex(e.value))
            bad('attribute .%s' % e.attr, e)
        if isinstance(e, ast.UnaryOp) and isinstance(e.op, ast.Not):
            return 'ENot (%s)' % self.ex(e.operand)
        if isinstance(e, ast.BoolOp):
            op = 'EAnd' if isinstance(e.op, ast.And) else 'EOr'
            parts = [self.ex(v) for v in e.values]
            r = parts[-1]
            for p in reversed(parts[:-1]):
                r = '%s (%s) (%s)' % (op, p, r)
            return r
        if isinstance(e, ast.IfExp):
            return 'EIfExp (%s) (%s) (%s)' % (self.ex(e.test), self.ex(e.body), self.ex(e.orelse))
        if isinstance(e, ast.BinOp) and isinstance(e.op, (ast.Add, ast.Sub)):
            return '%s (%s) (%s)' % ('EAdd' if isinstance(e.op, ast.Add) else 'ESub', self.ex(e.left), self.ex(e.right))
        if isinstance(e, ast.Compare) and len(e.ops) == 1:
            op, l, r = e.ops[0], e.left, e.comparators[0]
            if isinstance(op, (ast.Is, ast.IsNot)):
                return '%s (%s) (%s)' % ('EIs' if isinstance(op, ast.Is) else 'EIsNot', self.ex(l), self.ex(r))
            if isinstance(op, (ast.Eq, ast.NotEq)):
                return '%s (%s) (%s)' % ('EEq' if isinstance(op, ast.Eq) else 'ENe', self.ex(l), self.ex(r))
            if isinstance(op, (ast.In, ast.NotIn)):
                if isinstance(r, (ast.Tuple, ast.List)) and r.elts and all(isinstance(x, ast.Constant) and isinstance(x.value, str) for x in r.elts):
                    t = 'EInTuple (%s) [%s]' % (self.ex(l), '; '.join(coq_text(x.value) for x in r.elts))
                elif isinstance(r, ast.Name) and r.id in self.aliases:
                    if self.added:
                        bad('membership test of parse_errors after an .add()', e)
                    t = 'EInErrors (%s) (%s)' % (self.ex(l), self.aliases[r.id])
                elif self.kind == 'get_lineno':
                    t = 'EInStr (%s) (%s)' % (self.ex(l), self.ex(r))
                else:
                    bad('`in` on this operand', e)
                return t if isinstance(op, ast.In) else 'ENot (%s)' % t
            bad('comparison operator', e)
        if isinstance(e, ast.JoinedStr):
            parts = []
            for p in e.values:
                if isinstance(p, ast.Constant) and isinstance(p.value, str):
                    parts.append('EConst (VStr %s)' % coq_text(p.value))
                elif isinstance(p, ast.FormattedValue) and p.conversion == -1 and p.format_spec is None:
                    parts.append(self.ex(p.value))
                else:
                    bad('f-string part', e)
            return 'EFormat [%s]' % '; '.join(parts)
        if isinstance(e, ast.Call) and not e.keywords:
            f = e.func
            if isinstance(f, ast.Name) and f.id != self.helper_name and self.helper is None and not self.outer \
                    and self.helper_name is None and f.id in self.module_fns and self.kind == 'get_lineno':
                # a private function of the same module that does the walk: it becomes the helper
                hf = self.module_fns[f.id]
                if hf.decorator_list or not hf.args.args:
                    bad('helper signature', hf)
                self.helper_name = f.id
                h = Fn(hf, self.kind, self.tag + '_' + f.id, outer_params=[], helper_name=f.id)
                h.module_fns = {}
                h.prepare()
                h.text = h.block(strip_doc(hf.body))
                self.helper = h
            if isinstance(f, ast.Name) and f.id == self.helper_name:
                want = len(self.helper.params) if self.helper is not None else len(self.params)
                if len(e.args) != want:
                    bad('number of arguments of the helper', e)
                return 'ECallLocal [%s]' % '; '.join(self.ex(a) for a in e.args)
            if isinstance(f, ast.Attribute):
                nl = lambda x: isinstance(x, ast.Constant) and x.value == '\n'
                if self.kind == 'get_lineno' and f.attr in ('index', 'find') and len(e.args) == 1:
                    return '%s (%s) (%s)' % ('EIndex' if f.attr == 'index' else 'EFind', self.ex(f.value), self.ex(e.args[0]))
                if self.kind == 'get_lineno' and f.attr == 'count' and len(e.args) == 1 and nl(e.args[0]) and isinstance(f.value, ast.Subscript) \
                        and isinstance(f.value.slice, ast.Slice) and f.value.slice.lower is None and f.value.slice.step is None \
                        and f.value.slice.upper is not None:
                    return 'ECountNlPrefix (%s) (%s)' % (self.ex(f.value.value), self.ex(f.value.slice.upper))
                if self.kind == 'get_lineno' and f.attr == 'count' and len(e.args) == 3 and nl(e.args[0]) \
                        and isinstance(e.args[1], ast.Constant) and e.args[1].value == 0:
                    return 'ECountNlPrefix (%s) (%s)' % (self.ex(f.value), self.ex(e.args[2]))
                if self.kind == 'get_lineno' and f.attr == 'count' and len(e.args) == 1 and nl(e.args[0]):
                    return 'ECountNl (%s)' % self.ex(f.value)
                if self.kind == 'report_errors' and not e.args and f.attr in ('linenum', 'descr'):
                    return '%s (%s)' % ('EErrLinenum' if f.attr == 'linenum' else 'EErrDescr', self.ex(f.value))
                if self.kind == 'report_errors' and not e.args and f.attr == 'fullName':
                    return 'EFullName (%s)' % self.ex(f.value)
            bad('call', e)
        bad('expression %s' % type(e).__name__, e)

    # ---- statements
    def block(self, stmts):
        out = [o for o in (self.stmt(s) for s in stmts) if o is not None]
        if not out:
            return 'SSkip'
        r = out[-1]
        for o in reversed(out[:-1]):
            r = 'SSeq (%s) (%s)' % (o, r)
        return r

    def assign(self, name, rhs):
        out = 'SAssign %s (%s)' % (self.var(name), rhs)
        self.assigned.add(name)
        if name in self.params or name in self.outer:
            bad('assignment to the parameter %r' % name)
        return out

    def is_parse_errors(self, v):
        """obj.system.parse_errors[<section>] -> Coq text of <section>, else None"""
        if (isinstance(v, ast.Subscript) and isinstance(v.value, ast.Attribute) and v.value.attr == 'parse_errors'
                and isinstance(v.value.value, ast.Attribute) and v.value.value.attr == 'system'
                and isinstance(v.value.value.value, ast.Name) and v.value.value.value.id == self.params[0]):
            return self.ex(v.slice)
        return None

    def stmt(self, s):
        if isinstance(s, ast.Pass):
            return None
        if isinstance(s, ast.Expr) and isinstance(s.value, ast.Constant) and isinstance(s.value.value, str):
            return None
        if isinstance(s, ast.AnnAssign):
            if not isinstance(s.target, ast.Name):
                bad('annotated target', s)
            if s.value is None:
                return None
            return self.assign_value(s.target.id, s.value, s)
        if isinstance(s, ast.Assign) and len(s.targets) == 1 and isinstance(s.targets[0], ast.Tuple) \
                and all(isinstance(t, ast.Name) for t in s.targets[0].elts):
            names = [t.id for t in s.targets[0].elts]
            v = s.value
            if isinstance(v, ast.Tuple) and len(v.elts) == len(names):
                used = {n.id for x in v.elts for n in ast.walk(x) if isinstance(n, ast.Name)}
                if used & set(names):
                    bad('tuple assignment that reads its own targets', s)
                out = [self.assign_value(n, x, s) for n, x in zip(names, v.elts)]
                out = [o for o in out if o is not None]
                if not out:
                    return None
                r = out[-1]
                for o in reversed(out[:-1]):
                    r = 'SSeq (%s) (%s)' % (o, r)
                return r
            if (isinstance(v, ast.Call) and isinstance(v.func, ast.Attribute) and v.func.attr == 'partition' and len(v.args) == 1
                    and not v.keywords and len(names) == 3 and self.kind == 'get_lineno' and names[2].startswith('_')):
                src, sub = self.ex(v.func.value), self.ex(v.args[0])
                if not (self.pure_over(src) and self.pure_over(sub)) and (names[0] in ast.unparse(v) or names[1] in ast.unparse(v)):
                    bad('partition() that reads its own targets', s)
                a = self.assign(names[0], 'EPartBefore (%s) (%s)' % (src, sub))
                b = self.assign(names[1], 'EPartFound (%s) (%s)' % (src, sub))
                return 'SSeq (%s) (%s)' % (a, b)
            bad('tuple assignment', s)
        if isinstance(s, ast.Assign):
            if len(s.targets) != 1 or not isinstance(s.targets[0], ast.Name):
                bad('assignment target', s)
            return self.assign_value(s.targets[0].id, s.value, s)
        if isinstance(s, ast.AugAssign):
            if not isinstance(s.target, ast.Name) or not isinstance(s.op, (ast.Add, ast.Sub)):
                bad('augmented assignment', s)
            n = s.target.id
            cur = self.name(n, s)
            if not cur.startswith('EVar'):
                bad('augmented assignment to a parameter', s)
            return self.assign(n, '%s (%s) (%s)' % ('EAdd' if isinstance(s.op, ast.Add) else 'ESub', cur, self.ex(s.value)))
        if isinstance(s, ast.Return):
            return 'SReturn (%s)' % (self.ex(s.value) if s.value is not None else 'EConst VNone')
        if isinstance(s, ast.If):
            c = self.ex(s.test)
            before = set(self.assigned)
            th = self.block(s.body)
            a1 = self.assigned
            self.assigned = set(before)
            el = self.block(s.orelse)
            self.assigned = a1 & self.assigned
            return 'SIf (%s) (%s) (%s)' % (c, th, el)
        if isinstance(s, ast.While):
            if s.orelse:
                bad('while/else', s)
            c = self.ex(s.test)
            before = set(self.assigned)
            b = self.block(s.body)
            self.assigned = before                      # the body may run zero times
            return 'SWhile (%s) (%s)' % (c, b)
        if isinstance(s, ast.For):
            if (s.orelse or not isinstance(s.target, ast.Name) or self.kind != 'report_errors'
                    or not isinstance(s.iter, ast.Name) or s.iter.id != self.params[1]):
                bad('for loop', s)
            before = set(self.assigned)
            v = self.var(s.target.id)
            self.assigned.add(s.target.id)
            self.loop_vars.append(s.target.id)
            self.loop_inlines.append([])
            b = self.block(s.body)
            for n in self.loop_inlines.pop():
                del self.inline[n]
            self.loop_vars.pop()
            self.assigned = before
            return 'SForErrs %s (%s)' % (v, b)
        if isinstance(s, ast.FunctionDef):
            if self.kind != 'get_lineno' or self.helper is not None or self.outer:
                bad('nested function', s)
            if len(s.args.args) < 1 or s.decorator_list:
                bad('nested helper signature', s)
            self.helper_name = s.name
            h = Fn(s, self.kind, self.tag + '_' + s.name, outer_params=self.params, helper_name=s.name)
            h.prepare()
            h.text = h.block(strip_doc(s.body))
            self.helper = h
            return None
        if isinstance(s, ast.Expr) and isinstance(s.value, ast.Call) and isinstance(s.value.func, ast.Attribute):
            c, f = s.value, s.value.func
            kw = {k.arg: k.value for k in c.keywords}
            if None in kw:
                bad('**kwargs', s)
            # self.system.msg(section, text, thresh=thresh)
            if (self.kind == 'report' and f.attr == 'msg' and isinstance(f.value, ast.Attribute) and f.value.attr == 'system'
                    and isinstance(f.value.value, ast.Name) and f.value.value.id == 'self'):
                names = ['section', 'msg', 'thresh']
                args = dict(zip(names, c.args))
                if len(c.args) > 3 or set(kw) - set(names) or set(kw) & set(args):
                    bad('arguments of System.msg', s)
                args.update(kw)
                if 'section' not in args or 'msg' not in args:
                    bad('arguments of System.msg', s)
                th = self.ex(args['thresh']) if 'thresh' in args else 'EConst (VInt (0))'
                return 'SMsg (%s) (%s) (%s)' % (self.ex(args['section']), self.ex(args['msg']), th)
            # obj.report(descr, lineno_offset=..., section=...)
            if self.kind == 'report_errors' and f.attr == 'report':
                names = ['descr', 'section', 'lineno_offset', 'thresh']
                args = dict(zip(names, c.args))
                if len(c.args) > 4 or set(kw) - set(names) or set(kw) & set(args):
                    bad('arguments of report()', s)
                args.update(kw)
                if 'thresh' in args or 'descr' not in args:
                    bad('arguments of report()', s)
                sec = self.ex(args['section']) if 'section' in args else "EConst (VStr %s)" % coq_text('parsing')
                off = self.ex(args['lineno_offset']) if 'lineno_offset' in args else 'EConst (VInt (0))'
                return 'SReport (%s) (%s) (%s) (%s)' % (self.ex(f.value), self.ex(args['descr']), sec, off)
            # errors.add(name)
            if (self.kind == 'report_errors' and f.attr == 'add' and isinstance(f.value, ast.Name) and f.value.id in self.aliases
                    and len(c.args) == 1 and not kw):
                self.added = True
                return 'SAddError (%s) (%s)' % (self.ex(c.args[0]), self.aliases[f.value.id])
            bad('call statement', s)
        bad('statement %s' % type(s).__name__, s)

    def assign_value(self, name, value, s):
        if self.kind == 'report_errors':
            sec = self.is_parse_errors(value)
            if sec is not None:
                if name in self.vars or name in self.params:
                    bad('alias of parse_errors re-uses a name', s)
                self.aliases[name] = sec
                return None
        if name in self.aliases:
            bad('re-assignment of the parse_errors alias', s)
        rhs = self.ex(value)
        if name in self.once and name not in self.vars and self.pure_over(rhs) and 'ECallLocal' not in rhs:
            self.inline[name] = '(%s)' % rhs
            if self.loop_vars:
                self.loop_inlines[-1].append(name)
            return None
        return self.assign(name, rhs)

    def translate(self):
        self.prepare()
        self.text = self.block(strip_doc(self.fn.body))
        return self.text


def find_class(tree, name):
    cs = [n for n in tree.body if isinstance(n, ast.ClassDef) and n.name == name]
    if len(cs) != 1:
        bad('class %s not found exactly once' % name)
    return cs[0]


def find_fn(body, name):
    fs = [n for n in body if isinstance(n, ast.FunctionDef) and n.name == name]
    if len(fs) != 1:
        bad('function %s not found exactly once' % name)
    return fs[0]


def pin(cond, what):
    if not cond:
        bad('pinned function changed: ' + what)


def sig(fn):
    a = fn.args
    d = [None] * (len(a.args) - len(a.defaults)) + [ast.unparse(x) for x in a.defaults]
    return [(x.arg, y) for x, y in zip(a.args, d)]


def emit(lines, f: Fn, name):
    for fn in ([f.helper] if f.helper else []) + [f]:
        lines.append('(* locals of %s *)' % fn.fn.name)
        for py, i in fn.vars.items():
            lines.append('Definition v_%s_%s : var := %d%%N.' % (fn.tag, py, i))
    if f.helper:
        lines.append('Definition code_%s_helper : stmt :=' % name)
        lines.append(textwrap.fill(f.helper.text, 116, initial_indent='  ', subsequent_indent='  ', break_long_words=False) + '.')
    lines.append('Definition code_%s_body : stmt :=' % name)
    lines.append(textwrap.fill(f.text, 116, initial_indent='  ', subsequent_indent='  ', break_long_words=False) + '.')
    lines.append('Definition code_%s : fn := {| f_body := code_%s_body; f_helper := %s |}.'
                 % (name, name, ('Some code_%s_helper' % name) if f.helper else 'None'))
    lines.append('')


def generate() -> dict:
    from pydoctor import model, epydoc2stan
    from pydoctor.epydoc import docutils as pdocutils
    tm = ast.parse(Path(inspect.getsourcefile(model)).read_text())
    td = ast.parse(Path(inspect.getsourcefile(pdocutils)).read_text())
    te = ast.parse(Path(inspect.getsourcefile(epydoc2stan)).read_text())

    D = find_class(tm, 'Documentable')
    S = find_class(tm, 'System')
    rep = find_fn(D.body, 'report')
    msg = find_fn(S.body, 'msg')
    pin(sig(msg) == [('self', None), ('section', None), ('msg', None), ('thresh', '0'), ('topthresh', '100'), ('nonl', 'False'),
                     ('wantsnl', 'True'), ('once', 'False')], 'signature of System.msg: %s' % sig(msg))
    pin(sig(rep) == [('self', None), ('descr', None), ('section', "'parsing'"), ('lineno_offset', '0'), ('thresh', '-1')],
        'signature of Documentable.report: %s' % sig(rep))
    gl = find_fn(td.body, 'get_lineno')
    pin([a for a, _ in sig(gl)] == ['node'], 'signature of get_lineno')
    re_ = find_fn(te.body, 'reportErrors')
    pin(sig(re_) == [('obj', None), ('errs', None), ('section', "'docstring'")], 'signature of reportErrors: %s' % sig(re_))

    f_report = Fn(rep, 'report', 'report')
    f_report.translate()
    f_gl = Fn(gl, 'get_lineno', 'get_lineno')
    f_gl.module_fns = {n.name: n for n in td.body if isinstance(n, ast.FunctionDef) and n.name != 'get_lineno'}
    f_gl.translate()
    f_re = Fn(re_, 'report_errors', 'report_errors')
    f_re.translate()

    lines = ['From Coq Require Import ZArith NArith List.', 'Import ListNotations.',
             'From PydoctorVerif Require Import Base.Sexp Model.Lines Model.LinesIR.', 'Local Open Scope Z_scope.', '']
    emit(lines, f_report, 'report')
    emit(lines, f_gl, 'get_lineno')
    emit(lines, f_re, 'report_errors')
    return {'LinesCode.v': '\n'.join(lines) + '\n'}


if __name__ == '__main__':
    print(generate()['LinesCode.v'])
