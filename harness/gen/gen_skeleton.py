"""Translator A for C01/C08: the EXCEPTION SKELETON of the anchored barrier functions.

For each target function the body is reduced to
    SCall id        a designated risky call (matched by a syntactic pattern; what it may raise is the stated
                    oracle contract `allowed`)
    SRaise c        `raise C(...)` / `raise C`
    SReraise        bare `raise` inside a handler
    STry body handlers orelse final      handlers = list of (caught classes, block); bare `except:` catches BaseException
    SBranch blocks  if/else, loops (0 or 1 iteration), with-bodies, match
Everything else is dropped (assumed not to raise: that is the residual trust).  Fail-closed: a target
function that cannot be found, a risky pattern that matches nothing, an exception class that cannot be
resolved to a builtin/pydoctor class, or an unrecognised statement shape aborts the generation.

Output: Gen/Skeleton.v with the class table (every class with its ancestors, from the live __mro__),
the `allowed` contract per call id and one `Definition sk_<name> : list sk` per target."""
from __future__ import annotations
import ast, builtins, importlib, inspect, os, sys
from pathlib import Path

REPO = Path(os.environ.get('PYTHONPATH', '/repo').split(':')[0])

# (python module, qualname, {pattern: [allowed classes]})
# pattern syntax: "name(" = call of a bare name ; ".attr(" = call of an attribute with that name
TARGETS = [
    ('pydoctor.epydoc2stan', 'parse_docstring', {'parser(': ['Exception'], 'get_parser_by_name(': ['ImportError']}),
    ('pydoctor.epydoc2stan', 'safe_to_stan', {'.to_stan(': ['Exception']}),
    ('pydoctor.epydoc.markup', 'ParsedDocstring.get_summary',
     {'.to_node(': ['Exception'], 'SummaryExtractor(': ['Exception'], '.walk(': ['Exception']}),
    # since /repo ef2e650 get_toc and the search index writer guard to_node() with `except Exception`
    ('pydoctor.epydoc.markup', 'ParsedDocstring.get_toc', {'.to_node(': ['Exception']}),
    ('pydoctor.templatewriter.search', 'LunrIndexWriter.format_docstring', {'.to_node(': ['Exception']}),
    ('pydoctor.templatewriter.pages', 'format_signature', {'str(': ['Exception'], 'html2stan(': ['Exception']}),
    ('pydoctor.astbuilder', 'ASTBuilder.parseFile', {'parseFile(': ['SyntaxError', 'ValueError']}),
    ('pydoctor.astbuilder', 'ASTBuilder.parseString', {'_parse(': ['SyntaxError', 'ValueError']}),
    ('pydoctor.astutils', 'unstring_annotation', {'.visit(': ['SyntaxError']}),
    ('pydoctor.epydoc.markup._pyval_repr', 'PyvalColorizer._colorize_ast_generic', {'.to_source(': ['Exception']}),
    ('pydoctor.epydoc.markup._pyval_repr', 'PyvalColorizer.colorize', {'._colorize(': ['_Maxlines', '_Linebreak']}),
]


class Gen:
    def __init__(self) -> None:
        self.classes: dict = {}       # name -> class object
        self.calls: list = []         # (id, target, pattern, allowed)

    def cls(self, name: str, modobj) -> str:
        obj = getattr(builtins, name, None)
        if obj is None:
            obj = getattr(modobj, name, None)
        if obj is None and '.' in name:
            cur = modobj
            for part in name.split('.'):
                cur = getattr(cur, part)
            obj = cur
        if not (isinstance(obj, type) and issubclass(obj, BaseException)):
            raise ValueError('cannot resolve exception class %r in %s' % (name, modobj.__name__))
        key = obj.__name__
        if key in self.classes and self.classes[key] is not obj:
            raise ValueError('two different exception classes named %s' % key)
        self.classes[key] = obj
        for b in obj.__mro__:
            if b is not object:
                self.classes.setdefault(b.__name__, b)
        return key

    def expr_classes(self, e, modobj) -> list:
        if e is None:
            return [self.cls('BaseException', modobj)]
        if isinstance(e, ast.Tuple):
            return [x for el in e.elts for x in self.expr_classes(el, modobj)]
        if isinstance(e, ast.Name):
            return [self.cls(e.id, modobj)]
        if isinstance(e, ast.Attribute):
            return [self.cls(ast.unparse(e), modobj)]
        raise ValueError('unrecognised shape: except clause %s' % ast.dump(e))


def find_function(tree: ast.Module, qualname: str):
    parts = qualname.split('.')
    body = tree.body
    node = None
    for p in parts:
        node = None
        for st in body:
            if isinstance(st, (ast.FunctionDef, ast.AsyncFunctionDef, ast.ClassDef)) and st.name == p:
                node = st
        if node is None:
            raise ValueError('function %s not found' % qualname)
        body = node.body
    if not isinstance(node, (ast.FunctionDef, ast.AsyncFunctionDef)):
        raise ValueError('%s is not a function' % qualname)
    return node


def generate() -> dict:
    g = Gen()
    out_defs = []
    for modname, qual, pats in TARGETS:
        modobj = importlib.import_module(modname)
        src = Path(inspect.getsourcefile(modobj)).read_text()
        tree = ast.parse(src)
        fn = find_function(tree, qual)
        module_funcs = {st.name: st for st in tree.body if isinstance(st, (ast.FunctionDef, ast.AsyncFunctionDef))}
        class_funcs = {}
        if '.' in qual:
            for st in tree.body:
                if isinstance(st, ast.ClassDef) and st.name == qual.split('.')[0]:
                    class_funcs = {m.name: m for m in st.body if isinstance(m, (ast.FunctionDef, ast.AsyncFunctionDef))}
        hit = {p: 0 for p in pats}
        tag = '%s.%s' % (modname, qual)

        def match_call(c: ast.Call):
            for p in pats:
                nm = p[:-1]
                if nm.startswith('.'):
                    if isinstance(c.func, ast.Attribute) and c.func.attr == nm[1:]:
                        return p
                else:
                    if isinstance(c.func, ast.Name) and c.func.id == nm:
                        return p
            return None

        inlining: list = []

        def local_helper(c: ast.Call):
            """a call of a plain function of the same module (bare name) or of a method of the same class (self.x /
            cls.x): its skeleton is inlined at the call site, so that moving code into a helper keeps the skeleton"""
            f = c.func
            cand = None
            if isinstance(f, ast.Name):
                cand = module_funcs.get(f.id)
            elif isinstance(f, ast.Attribute) and isinstance(f.value, ast.Name) and f.value.id in ('self', 'cls'):
                cand = class_funcs.get(f.attr)
            if cand is None or cand is fn or cand in inlining or len(inlining) >= 3:
                return None
            # only helpers that (transitively) hold one of this target's designated risky calls are inlined: the
            # skeleton stays what it was for every other call
            return cand if holds_pattern(cand, 3) else None

        def holds_pattern(helper, depth) -> bool:
            for sub in ast.walk(helper):
                if isinstance(sub, ast.Call):
                    if match_call(sub):
                        return True
                    f = sub.func
                    nxt = None
                    if isinstance(f, ast.Name):
                        nxt = module_funcs.get(f.id)
                    elif isinstance(f, ast.Attribute) and isinstance(f.value, ast.Name) and f.value.id in ('self', 'cls'):
                        nxt = class_funcs.get(f.attr)
                    if nxt is not None and nxt is not helper and nxt is not fn and depth > 0 and holds_pattern(nxt, depth - 1):
                        return True
            return False

        def calls_in(node) -> list:
            """risky calls syntactically inside an expression / simple statement, in source order; calls of
            same-module helpers are replaced by the helper's own skeleton"""
            res = []
            for sub in ast.walk(node):
                if isinstance(sub, (ast.Lambda, ast.FunctionDef, ast.AsyncFunctionDef, ast.ClassDef)) and sub is not node:
                    continue
                if isinstance(sub, ast.Call):
                    p = match_call(sub)
                    if p:
                        res.append((sub.lineno, sub.col_offset, 0, p))
                    else:
                        h = local_helper(sub)
                        if h is not None:
                            res.append((sub.lineno, sub.col_offset, 1, h))
            res.sort(key=lambda r: r[:3])
            outl = []
            for _, _, kind, p in res:
                if kind == 1:
                    inlining.append(p)
                    try:
                        inner = block(p.body)
                    finally:
                        inlining.pop()
                    if 'SCall' in inner or 'SRaise' in inner or 'SReraise' in inner:
                        outl.append('SBranch [%s]' % inner)
                    continue
                hit[p] += 1
                cid = len(g.calls)
                g.calls.append((cid, tag, p, [g.cls(c, modobj) for c in pats[p]]))
                outl.append('SCall %d' % cid)
            return outl

        def block(stmts) -> str:
            items = []
            for st in stmts:
                items.extend(stmt(st))
            return '[' + '; '.join(items) + ']'

        def stmt(st) -> list:
            if isinstance(st, ast.Try):
                hs = []
                for h in st.handlers:
                    cl = g.expr_classes(h.type, modobj)
                    hs.append('([%s], %s)' % ('; '.join('c_%s' % c for c in cl), block(h.body)))
                return ['STry %s [%s] %s %s' % (block(st.body), '; '.join(hs), block(st.orelse), block(st.finalbody))]
            if isinstance(st, ast.Raise):
                pre = calls_in(st) if st.exc is not None else []
                if st.exc is None:
                    return ['SReraise']
                e = st.exc.func if isinstance(st.exc, ast.Call) else st.exc
                if isinstance(e, (ast.Name, ast.Attribute)):
                    try:
                        return pre + ['SRaise c_%s' % g.cls(ast.unparse(e), modobj)]
                    except Exception:
                        pass
                # raising a caught variable / computed exception: could be anything
                return pre + ['SRaise c_%s' % g.cls('BaseException', modobj)]
            if isinstance(st, ast.If):
                return calls_in(st.test) + ['SBranch [%s; %s]' % (block(st.body), block(st.orelse))]
            if isinstance(st, (ast.For, ast.AsyncFor)):
                return calls_in(st.iter) + ['SBranch [[]; %s]' % block(st.body), 'SBranch [[]; %s]' % block(st.orelse)]
            if isinstance(st, ast.While):
                return calls_in(st.test) + ['SBranch [[]; %s]' % block(st.body), 'SBranch [[]; %s]' % block(st.orelse)]
            if isinstance(st, (ast.With, ast.AsyncWith)):
                pre = []
                for it in st.items:
                    pre += calls_in(it.context_expr)
                return pre + ['SBranch [%s]' % block(st.body)]
            if isinstance(st, (ast.FunctionDef, ast.AsyncFunctionDef, ast.ClassDef)):
                return []   # a nested definition does not run here
            if isinstance(st, (ast.Expr, ast.Assign, ast.AnnAssign, ast.AugAssign, ast.Return, ast.Assert,
                               ast.Delete, ast.Pass, ast.Import, ast.ImportFrom, ast.Global, ast.Nonlocal,
                               ast.Break, ast.Continue)):
                return calls_in(st)
            raise ValueError('unrecognised shape: statement %s at %s:%d' % (type(st).__name__, tag, st.lineno))

        body = block(fn.body)
        for p, n in hit.items():
            if n == 0:
                raise ValueError('risky call pattern %r not found in %s' % (p, tag))
        out_defs.append((tag, 'sk_' + qual.replace('.', '_').lower().strip('_'), body))

    # class table
    names = sorted(g.classes)
    idx = {n: i for i, n in enumerate(names)}
    lines = ['From Coq Require Import NArith List.', 'Import ListNotations.',
             'From PydoctorVerif Require Import Model.Barrier.', 'Local Open Scope N_scope.', '']
    for n in names:
        lines.append('Definition c_%s : N := %d.' % (n, idx[n]))
    lines.append('')
    lines.append('(* ancestors (reflexive) of every exception class, from the live __mro__ *)')
    lines.append('Definition ancestors_table : list (N * list N) := [')
    rows = []
    for n in names:
        anc = [b.__name__ for b in g.classes[n].__mro__ if b is not object]
        rows.append('  (c_%s, [%s])' % (n, '; '.join('c_' + a for a in anc)))
    lines.append(';\n'.join(rows))
    lines.append('].')
    lines.append('')
    lines.append('(* oracle contract: what each designated risky call may raise *)')
    lines.append('Definition allowed_table : list (N * list N) := [')
    rows = []
    for cid, tag, p, allowed in g.calls:
        rows.append('  (%d, [%s])  (* %s : %s *)' % (cid, '; '.join('c_' + a for a in allowed), tag, p.replace('(', '')))
    lines.append(';\n'.join(rows).replace(')  (*', ')  (*'))
    lines.append('].')
    lines.append('')
    for tag, name, body in out_defs:
        lines.append('(* %s *)' % tag)
        lines.append('Definition %s : list sk := %s.' % (name, body))
        lines.append('')
    lines.append('Definition all_skeletons : list (list sk) := [%s].' % '; '.join(n for _, n, _ in out_defs))
    text = '\n'.join(lines) + '\n'
    # the trailing comments inside the list literal must not swallow the separators
    text = text.replace(';\n  (', ';\n  (')
    return {'Skeleton.v': text}


if __name__ == '__main__':
    print(generate()['Skeleton.v'])
