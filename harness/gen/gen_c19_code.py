"""Translator A for C19 (second part): the BODIES of pydoctor/visitor.py Visitor.visit / depart / walk / walkabout,
translated statement by statement into the deep-embedded language of Model/VisitorIR.v, plus the When bucket each
ExtList property returns.  Proofs/VisitorIRProofs.v proves, for every tree / extension list / pruning function, that the
interpretation of THIS output is Model/Visitor.v; so a change to the control flow of visitor.py changes Gen/VisitorCode.v
and breaks that proof obligation, not only the sampled correspondence.

Fail-closed: any statement, expression, exception class or receiver outside the recognised shapes aborts the
generation with `unrecognised shape`.  Pinned (checked here, not translated):
  _BaseVisitor.visit / depart        dispatch `visit_<Class>` -> lower-case -> unknown_visit, then call it with ob
  ExtList.add                        appends `extension()` to `self._visitors[extension.when]`
  VisitorExt.unknown_visit/_departure  do nothing
"""
import ast, inspect, textwrap
from pathlib import Path

EXC = {'SkipChildren': 'KSkipChildren', 'SkipSiblings': 'KSkipSiblings', 'SkipNode': 'KSkipNode',
       'SkipDeparture': 'KSkipDeparture', '_TreePruningException': 'KTreePruning'}
EXTPROP = {'before_visit': 'LBefore', 'after_visit': 'LAfter', 'inner_visit': 'LInner', 'outter_visit': 'LOutter'}
WHEN = {'BEFORE', 'AFTER', 'INNER', 'OUTTER'}


EXTLIST_CLASS = []
EXTMAP = {}


class Bad(ValueError):
    pass


def bad(what, node=None):
    raise Bad('unrecognised shape: %s%s' % (what, (' at line %d: %s' % (node.lineno, ast.unparse(node)[:80])) if node is not None else ''))


def find_class(tree, name):
    cs = [n for n in tree.body if isinstance(n, ast.ClassDef) and n.name == name]
    if len(cs) != 1:
        bad('class %s not found exactly once' % name)
    return cs[0]


def find_method(cls, name):
    fs = [n for n in cls.body if isinstance(n, ast.FunctionDef) and n.name == name]
    if len(fs) != 1:
        bad('method %s.%s not found exactly once' % (cls.name, name))
    return fs[0]


def strip_doc(body):
    if body and isinstance(body[0], ast.Expr) and isinstance(body[0].value, ast.Constant) and isinstance(body[0].value.value, str):
        return body[1:]
    return body


class Method:
    """translation of one method body"""
    def __init__(self, fn, selfname, level, recursive_name=None):
        self.fn = fn
        self.level = level                  # 0: visit/depart (super() calls only), 1: walk/walkabout (self calls)
        self.rec = recursive_name
        self.vars = {}                      # python local name -> index
        self.assigned = set()               # names definitely bound so far (straight-line approximation, fail-closed)
        self.in_extlist = False
        args = fn.args
        if args.vararg or args.kwarg or args.kwonlyargs or args.posonlyargs:
            bad('parameter list of %s' % fn.name, fn)
        names = [a.arg for a in args.args]
        if names[:2] != ['self', 'ob']:
            bad('parameters of %s are not (self, ob, ...)' % fn.name, fn)
        self.params = names[2:]
        for p in self.params:
            self.var(p)
            self.assigned.add(p)

    def var(self, name):
        if name not in self.vars:
            self.vars[name] = len(self.vars)
        return 'v_%s_%s' % (self.fn.name, name.replace('@', 'x_'))

    def use(self, name, node):
        if name not in self.assigned:
            bad('local %r read before it is bound' % name, node)
        return self.var(name)

    # ---- expressions -------------------------------------------------------------------------------------------
    def cond(self, e):
        if isinstance(e, ast.Name):
            return 'CVar %s' % self.use(e.id, e)
        if isinstance(e, ast.UnaryOp) and isinstance(e.op, ast.Not) and isinstance(e.operand, ast.Name):
            return 'CNot %s' % self.use(e.operand.id, e)
        if (isinstance(e, ast.Compare) and len(e.ops) == 1 and isinstance(e.ops[0], ast.IsNot) and isinstance(e.left, ast.Name)
                and isinstance(e.comparators[0], ast.Constant) and e.comparators[0].value is None):
            return 'CIsNotNone %s' % self.use(e.left.id, e)
        bad('condition', e)

    def exc_classes(self, t):
        if isinstance(t, ast.Tuple):
            return [k for el in t.elts for k in self.exc_classes(el)]
        if isinstance(t, ast.Attribute) and isinstance(t.value, ast.Name) and t.value.id == 'self' and t.attr in EXC:
            return [EXC[t.attr]]
        bad('except clause class', t)

    def is_self_ext(self, e):
        """self.extensions.<prop>   (inside a method of ExtList itself: self.<prop>)"""
        if self.in_extlist:
            if isinstance(e, ast.Attribute) and isinstance(e.value, ast.Name) and e.value.id == 'self' and e.attr in EXTPROP:
                return EXTPROP[e.attr]
            return None
        if (isinstance(e, ast.Attribute) and isinstance(e.value, ast.Attribute) and isinstance(e.value.value, ast.Name)
                and e.value.value.id == 'self' and e.value.attr == 'extensions' and e.attr in EXTPROP):
            return EXTPROP[e.attr]
        return None

    # ---- statements --------------------------------------------------------------------------------------------
    def block(self, stmts):
        out = [self.stmt(s) for s in stmts]
        out = [o for o in out if o is not None]
        if not out:
            return 'SSkip'
        r = out[-1]
        for o in reversed(out[:-1]):
            r = 'SSeq (%s) (%s)' % (o, r)
        return r

    def stmt(self, s):
        if isinstance(s, ast.Pass):
            return None
        if isinstance(s, ast.Return):
            if s.value is not None:
                bad('return with a value', s)
            return 'SReturn'
        if isinstance(s, ast.AnnAssign) and s.value is not None and isinstance(s.target, ast.Name):
            s = ast.copy_location(ast.Assign(targets=[s.target], value=s.value), s)     # the annotation has no run-time meaning here
        if isinstance(s, ast.Assign):
            if len(s.targets) != 1 or not isinstance(s.targets[0], ast.Name):
                bad('assignment target', s)
            v = s.value
            if isinstance(v, ast.Constant) and v.value is True:
                r = 'RConst (VBool true)'
            elif isinstance(v, ast.Constant) and v.value is False:
                r = 'RConst (VBool false)'
            elif isinstance(v, ast.Constant) and v.value is None:
                r = 'RConst VNone'
            elif isinstance(v, ast.Name):
                r = 'RVar %s' % self.use(v.id, s)
            elif isinstance(v, (ast.UnaryOp, ast.Compare)):
                r = 'RCond (%s)' % self.cond(v)
            else:
                bad('assigned value', s)
            name = s.targets[0].id
            out = 'SAssign %s (%s)' % (self.var(name), r)
            self.assigned.add(name)
            return out
        if isinstance(s, ast.Raise):
            if s.cause is not None or not isinstance(s.exc, ast.Name):
                bad('raise of something other than a local variable', s)
            return 'SRaiseVar %s' % self.use(s.exc.id, s)
        if isinstance(s, ast.If):
            c = self.cond(s.test)
            before = set(self.assigned)
            th = self.block(s.body)
            a1 = self.assigned
            self.assigned = set(before)
            el = self.block(s.orelse)
            self.assigned = a1 & self.assigned
            return 'SIf (%s) (%s) (%s)' % (c, th, el)
        if isinstance(s, ast.Try):
            if s.finalbody:
                bad('try with finally', s)
            if s.orelse:
                # try: B / except ...: H / else: E   ==   ok = False; try: B; ok = True / except ...: H;  if ok: E
                # (E is not covered by the handlers either way; a `return` inside B leaves both forms at once)
                self.fresh = getattr(self, 'fresh', 0) + 1
                okname = '@else%d' % self.fresh
                ok = self.var(okname)
                self.assigned.add(okname)
                inner = ast.Try(body=s.body, handlers=s.handlers, orelse=[], finalbody=[])
                ast.copy_location(inner, s)
                self.stmt(inner)          # translates body and handlers (kept in _last_try_*), tracks bound names
                orelse = self.block(s.orelse)
                body_txt = self._last_try_body
                hs_txt = self._last_try_handlers
                return ('SSeq (SAssign %s (RConst (VBool false))) (SSeq (STry (SSeq (%s) (SAssign %s (RConst (VBool true)))) (%s)) '
                        '(SIf (CVar %s) (%s) (SSkip)))' % (ok, body_txt, ok, hs_txt, ok, orelse))
            before = set(self.assigned)
            body = self.block(s.body)
            after_body = self.assigned
            hs = 'HNil'
            joined = set(after_body)
            handlers = []
            for h in s.handlers:
                if h.type is None:
                    bad('bare except', h)
                ks = self.exc_classes(h.type)
                self.assigned = set(before)            # the body may have raised at its first statement
                bind = 'None'
                if h.name:
                    bind = 'Some %s' % self.var(h.name)
                    self.assigned.add(h.name)
                hb = self.block(h.body)
                if h.name:
                    self.assigned.discard(h.name)      # Python unbinds `as` names at the end of the handler
                joined &= self.assigned
                handlers.append((ks, bind, hb))
            for ks, bind, hb in reversed(handlers):
                hs = 'HCons [%s] (%s) (%s) (%s)' % ('; '.join(ks), bind, hb, hs)
            self.assigned = joined | before
            self._last_try_body, self._last_try_handlers = body, hs
            return 'STry (%s) (%s)' % (body, hs)
        if isinstance(s, ast.For):
            if s.orelse or not isinstance(s.target, ast.Name) or len(s.body) != 1:
                bad('for loop', s)
            tgt = s.target.id
            b = s.body[0]
            if not (isinstance(b, ast.Expr) and isinstance(b.value, ast.Call) and isinstance(b.value.func, ast.Attribute)
                    and not b.value.keywords and len(b.value.args) == 1 and isinstance(b.value.args[0], ast.Name)):
                bad('for body', s)
            call = b.value
            it = s.iter
            # for v in self.extensions.<helper>(When.A, When.B): a helper of ExtList returning, for its `whens`, the
            # concatenation of self._visitors[when] in argument order
            if (isinstance(it, ast.Call) and isinstance(it.func, ast.Attribute) and isinstance(it.func.value, ast.Attribute)
                    and isinstance(it.func.value.value, ast.Name) and it.func.value.value.id == 'self'
                    and it.func.value.attr == 'extensions' and not it.keywords and len(it.args) == 2 and not self.in_extlist):
                helper = [m for m in EXTLIST_CLASS[0].body if isinstance(m, ast.FunctionDef) and m.name == it.func.attr]
                ok = False
                if len(helper) == 1 and helper[0].args.vararg is not None and not helper[0].decorator_list:
                    va = helper[0].args.vararg.arg
                    hb = strip_doc(helper[0].body)
                    want = 'return [V for W in %s for V in self._visitors[W]]' % va
                    if len(hb) == 1 and isinstance(hb[0], ast.Return) and isinstance(hb[0].value, ast.ListComp):
                        lc = hb[0].value
                        if (len(lc.generators) == 2 and not lc.generators[0].ifs and not lc.generators[1].ifs
                                and isinstance(lc.elt, ast.Name) and isinstance(lc.generators[1].target, ast.Name)
                                and lc.elt.id == lc.generators[1].target.id and isinstance(lc.generators[0].target, ast.Name)
                                and ast.unparse(lc.generators[0].iter) == va
                                and ast.unparse(lc.generators[1].iter) == 'self._visitors[%s]' % lc.generators[0].target.id):
                            ok = True
                if not ok:
                    bad('ExtList helper %s is not the concatenation of the buckets of its arguments' % it.func.attr, it)
                whens = []
                for a_ in it.args:
                    if not (isinstance(a_, ast.Attribute) and ast.unparse(a_.value) == 'When' and a_.attr in WHEN):
                        bad('When constant', a_)
                    inv = [k for k, v in EXTMAP.items() if v == a_.attr]
                    if len(inv) != 1:
                        bad('no ExtList property returns the bucket When.%s' % a_.attr, a_)
                    whens.append(inv[0])
                if not (isinstance(call.func.value, ast.Name) and call.func.value.id == tgt and call.args[0].id == 'ob'
                        and call.func.attr in ('visit', 'depart')):
                    bad('extension loop body', b)
                return 'SForExts %s %s %s' % (whens[0], whens[1], 'Enter' if call.func.attr == 'visit' else 'Leave')
            # for v in self.extensions.A + self.extensions.B: v.visit(ob) | v.depart(ob)
            if isinstance(it, ast.BinOp) and isinstance(it.op, ast.Add):
                a, c = self.is_self_ext(it.left), self.is_self_ext(it.right)
                if a is None or c is None:
                    bad('extension lists', it)
                if not (isinstance(call.func.value, ast.Name) and call.func.value.id == tgt and call.args[0].id == 'ob'
                        and call.func.attr in ('visit', 'depart')):
                    bad('extension loop body', b)
                return 'SForExts %s %s %s' % (a, c, 'Enter' if call.func.attr == 'visit' else 'Leave')
            # for child in self.get_children(ob): self.<this method>(child)
            if (isinstance(it, ast.Call) and isinstance(it.func, ast.Attribute) and isinstance(it.func.value, ast.Name)
                    and it.func.value.id == 'self' and it.func.attr == 'get_children' and len(it.args) == 1
                    and isinstance(it.args[0], ast.Name) and it.args[0].id == 'ob' and not it.keywords):
                if self.level != 1 or not (isinstance(call.func.value, ast.Name) and call.func.value.id == 'self'
                                           and call.func.attr == self.rec and call.args[0].id == tgt):
                    bad('children loop body (expected self.%s(%s))' % (self.rec, tgt), b)
                return 'SForChildren'
            bad('for iterable', s)
        if isinstance(s, ast.Expr) and isinstance(s.value, ast.Call) and isinstance(s.value.func, ast.Attribute):
            c = s.value
            f = c.func
            if len(c.args) != 1 or not isinstance(c.args[0], ast.Name) or c.args[0].id != 'ob':
                bad('call arguments', s)
            is_super = (isinstance(f.value, ast.Call) and isinstance(f.value.func, ast.Name) and f.value.func.id == 'super'
                        and not f.value.args and not f.value.keywords)
            is_self = isinstance(f.value, ast.Name) and f.value.id == 'self'
            # self.extensions.<helper>(ob): a method of ExtList whose body only runs extension loops is inlined
            if (isinstance(f.value, ast.Attribute) and isinstance(f.value.value, ast.Name) and f.value.value.id == 'self'
                    and f.value.attr == 'extensions' and not c.keywords and not self.in_extlist):
                helper = [m for m in EXTLIST_CLASS[0].body if isinstance(m, ast.FunctionDef) and m.name == f.attr]
                if len(helper) != 1 or helper[0].decorator_list:
                    bad('ExtList helper %s' % f.attr, s)
                sub = Method(helper[0], 'self', self.level)
                sub.in_extlist = True
                body = strip_doc(helper[0].body)
                if not body or not all(isinstance(x, ast.For) for x in body):
                    bad('ExtList helper %s does more than run extension loops' % f.attr, helper[0])
                return sub.block(body)
            if is_super and self.level == 0 and not c.keywords and f.attr == self.fn.name and f.attr in ('visit', 'depart'):
                return 'SCall CSuperVisit' if f.attr == 'visit' else 'SCall CSuperDepart'
            if is_self and self.level == 1 and f.attr == 'visit' and not c.keywords:
                return 'SCall CSelfVisit'
            if is_self and self.level == 1 and f.attr == 'depart':
                if len(c.keywords) != 1 or c.keywords[0].arg != 'extensions_only':
                    bad('depart() keywords', s)
                return 'SCall (CSelfDepart (%s))' % self.cond(c.keywords[0].value)
            bad('call', s)
        bad('statement %s' % type(s).__name__, s)

    def translate(self):
        return self.block(strip_doc(self.fn.body))


def pin(cond, what):
    if not cond:
        bad('pinned function changed: ' + what)


def norm(fn):
    """source of a function without its docstring, normalised through ast.unparse"""
    f2 = ast.FunctionDef(name=fn.name, args=fn.args, body=strip_doc(fn.body) or [ast.Pass()], decorator_list=[],
                         returns=None, type_comment=None, lineno=0, col_offset=0)
    f2.args = ast.arguments(posonlyargs=[], args=[ast.arg(arg=a.arg) for a in fn.args.args], vararg=None, kwonlyargs=[],
                            kw_defaults=[], kwarg=None, defaults=fn.args.defaults)
    return ast.unparse(ast.fix_missing_locations(f2))


def generate() -> dict:
    from pydoctor import visitor
    src = Path(inspect.getsourcefile(visitor)).read_text()
    tree = ast.parse(src)
    V = find_class(tree, 'Visitor')
    B = find_class(tree, '_BaseVisitor')
    E = find_class(tree, 'ExtList')
    EXTLIST_CLASS[:] = [E]
    X = find_class(tree, 'VisitorExt')

    # ---- class structure the model relies on
    pin([ast.unparse(b) for b in V.bases][:1] == ['_BaseVisitor[T]'], 'Visitor is not a _BaseVisitor')
    excs = {c.name: [ast.unparse(b) for b in c.bases] for c in V.body if isinstance(c, ast.ClassDef)}
    pin(excs.get('_TreePruningException') == ['Exception'], '_TreePruningException base')
    for k in ('SkipChildren', 'SkipSiblings', 'SkipNode', 'SkipDeparture'):
        pin(excs.get(k) == ['_TreePruningException'], '%s is not a direct _TreePruningException' % k)
    pin(len(excs) == 5, 'unexpected exception classes in Visitor: %s' % sorted(excs))

    # ---- pinned dispatch
    for kind, unk in (('visit', 'unknown_visit'), ('depart', 'unknown_departure')):
        want = ("def %s(self, ob):\n    method = '%s_' + ob.__class__.__name__\n"
                "    visitor = getattr(self, method, getattr(self, method.lower(), self.%s))\n    visitor(ob)" % (kind, kind, unk))
        pin(norm(find_method(B, kind)) == want, '_BaseVisitor.%s' % kind)
    for unk in ('unknown_visit', 'unknown_departure'):
        pin(norm(find_method(X, unk)) == 'def %s(self, ob):\n    pass' % unk, 'VisitorExt.%s' % unk)
    add = find_method(E, 'add')
    pin(add.args.vararg is not None and add.args.vararg.arg == 'extensions', 'ExtList.add signature')
    body = strip_doc(add.body)
    def add_tail_ok(stmts):
        tail = [ast.unparse(x) for x in stmts if not isinstance(x, ast.Assert)]
        if tail == ['self._visitors[extension.when].append(extension())']:
            return True
        if len(tail) == 2:
            a0 = [x for x in stmts if not isinstance(x, ast.Assert)][0]
            if isinstance(a0, ast.Assign) and len(a0.targets) == 1 and isinstance(a0.targets[0], ast.Name) \
                    and ast.unparse(a0.value) == 'self._visitors[extension.when]' \
                    and tail[1] == '%s.append(extension())' % a0.targets[0].id:
                return True
        return False
    pin(len(body) == 1 and isinstance(body[0], ast.For) and ast.unparse(body[0].iter) == 'extensions'
        and ast.unparse(body[0].target) == 'extension' and add_tail_ok(body[0].body), 'ExtList.add body')
    init = strip_doc(find_method(E, '__init__').body)
    pin([ast.unparse(s) for s in init] == ["self._visitors: Dict[When, List['VisitorExt[T]']] = defaultdict(list)",
                                           'self.add(*extensions)'], 'ExtList.__init__')
    vinit = strip_doc(find_method(V, '__init__').body)
    pin([ast.unparse(s) for s in vinit] == ["self.extensions: 'ExtList[T]' = extensions or ExtList()",
                                            'self.extensions.attach_visitor(self)'], 'Visitor.__init__')

    # ---- ExtList properties -> When bucket
    extmap = {}
    for prop, lname in EXTPROP.items():
        fn = find_method(E, prop)
        pin([ast.unparse(d) for d in fn.decorator_list] == ['property'], 'ExtList.%s is not a property' % prop)
        b = strip_doc(fn.body)
        ok = (len(b) == 1 and isinstance(b[0], ast.Return) and isinstance(b[0].value, ast.Subscript)
              and ast.unparse(b[0].value.value) == 'self._visitors' and isinstance(b[0].value.slice, ast.Attribute)
              and ast.unparse(b[0].value.slice.value) == 'When' and b[0].value.slice.attr in WHEN)
        pin(ok, 'ExtList.%s body' % prop)
        extmap[lname] = b[0].value.slice.attr
    EXTMAP.clear(); EXTMAP.update(extmap)

    # ---- the four bodies
    ms = {}
    for name, level, rec in (('visit', 0, None), ('depart', 0, None), ('walk', 1, 'walk'), ('walkabout', 1, 'walkabout')):
        ms[name] = Method(find_method(V, name), 'self', level, rec)
        ms[name].text = ms[name].translate()
    if ms['depart'].params != ['extensions_only'] or ms['visit'].params or ms['walk'].params or ms['walkabout'].params:
        bad('parameters of visit/depart/walk/walkabout')
    d = find_method(V, 'depart')
    pin(len(d.args.defaults) == 1 and isinstance(d.args.defaults[0], ast.Constant) and d.args.defaults[0].value is False,
        'depart(extensions_only=False) default')

    lines = ['From Coq Require Import NArith List.', 'Import ListNotations.',
             'From PydoctorVerif Require Import Model.Visitor Model.VisitorIR.', 'Local Open Scope N_scope.', '']
    for name in ('visit', 'depart', 'walk', 'walkabout'):
        m = ms[name]
        lines.append('(* locals of Visitor.%s *)' % name)
        for py, i in m.vars.items():
            lines.append('Definition v_%s_%s : var := %d.' % (name, py.replace('@', 'x_'), i))
        lines.append('Definition code_%s : stmt :=' % name)
        lines.append(textwrap.fill(m.text, 110, initial_indent='  ', subsequent_indent='  ', break_long_words=False) + '.')
        lines.append('')
    lines.append('Definition code_extlist (l : extlist) : when_ :=')
    lines.append('  match l with %s end.' % ' | '.join('%s => %s' % (k, v) for k, v in sorted(extmap.items())))
    lines.append('')
    lines.append('Definition visitor_code : code :=')
    lines.append('  {| c_visit := code_visit; c_depart := code_depart; c_depart_param := v_depart_extensions_only;')
    lines.append('     c_walk := code_walk; c_walkabout := code_walkabout; c_extlist := code_extlist |}.')
    return {'VisitorCode.v': '\n'.join(lines) + '\n'}


if __name__ == '__main__':
    print(generate()['VisitorCode.v'])
