"""Translator A for C10: the escape tables, as the code has them NOW.

Read from the live modules (PYTHONPATH=/repo, twisted and docutils from /venv):
  * twisted.web._flatten.escapeForContent           -> ordered chain of single-byte .replace() calls
  * twisted.web._flatten.writeWithAttributeEscaping -> the extra replacements applied on top of escapeForContent
  * twisted.web._flatten.attributeEscapingDoneOutside -> must be the identity (probed on all 256 bytes)
  * twisted.web._stan.voidElements
  * pydoctor.node2stan.HTMLTranslator.special_characters / .encode / .attval (docutils, as pydoctor inherits them)
  * pydoctor.stanutils._RE_CONTROL character class, the substitution lambda and the <div> wrapper of html2stan
  * pydoctor.extensions.deprecate templates, the line-break replacement and the back-quote wrapping
  * str.isidentifier per code point (XID_Start / XID_Continue ranges), str.splitlines boundaries,
    docutils.statemachine.string2lines' whitespace class

Fail-closed: every shape test raises Unrecognised, which aborts gen_tables.py with exit 1.
Output: Gen/TablesC10.v (definitions only)."""
from __future__ import annotations
import ast, inspect, re, string, textwrap
from typing import Any, List, Tuple


class Unrecognised(Exception):
    pass


def need(cond: Any, what: str) -> None:
    if not cond:
        raise Unrecognised('unrecognised shape: ' + what)


def coq_text(s: Any) -> str:
    if isinstance(s, (bytes, bytearray)):
        cps = list(s)
    else:
        cps = [ord(c) for c in s]
    return '[' + '; '.join(str(c) for c in cps) + ']'


def coq_pairs(pairs: List[Tuple[int, Any]]) -> str:
    return '[' + ';\n   '.join('(%d, %s)' % (c, coq_text(r)) for c, r in pairs) + ']'


def coq_ranges(rs: List[Tuple[int, int]]) -> str:
    out, line = [], []
    for lo, hi in rs:
        line.append('(%d, %d)' % (lo, hi))
        if len(line) == 8:
            out.append('; '.join(line))
            line = []
    if line:
        out.append('; '.join(line))
    return '[' + ';\n   '.join(out) + ']'


def fn_ast(fn: Any) -> ast.FunctionDef:
    src = textwrap.dedent(inspect.getsource(fn))
    mod = ast.parse(src)
    need(len(mod.body) == 1 and isinstance(mod.body[0], ast.FunctionDef), 'source of %r is not one def' % fn)
    return mod.body[0]


def strip_doc(body: List[ast.stmt]) -> List[ast.stmt]:
    if body and isinstance(body[0], ast.Expr) and isinstance(body[0].value, ast.Constant) \
            and isinstance(body[0].value.value, str):
        return body[1:]
    return body


def replace_chain(e: ast.expr, base_test: Any) -> List[Tuple[int, bytes]]:
    """e == <base>.replace(b1, r1).replace(b2, r2)...  with single-byte patterns; returns [(b1, r1), ...] in order."""
    chain: List[Tuple[int, bytes]] = []
    while True:
        if base_test(e):
            break
        need(isinstance(e, ast.Call) and isinstance(e.func, ast.Attribute) and e.func.attr == 'replace'
             and len(e.args) == 2 and not e.keywords, 'not a .replace(a, b) chain: ' + ast.dump(e)[:200])
        a, b = e.args
        need(isinstance(a, ast.Constant) and isinstance(a.value, bytes) and len(a.value) == 1
             and isinstance(b, ast.Constant) and isinstance(b.value, bytes), 'replace() arguments: ' + ast.dump(e)[:200])
        chain.append((a.value[0], b.value))
        e = e.func.value
    chain.reverse()
    return chain


def is_name(n: str) -> Any:
    return lambda e: isinstance(e, ast.Name) and e.id == n


def twisted_tables() -> dict:
    from twisted.web import _flatten, _stan
    # escapeForContent: if isinstance(data, str): data = data.encode("utf-8"); data = <chain>; return data
    f = fn_ast(_flatten.escapeForContent)
    body = strip_doc(f.body)
    need(len(body) == 3, 'escapeForContent has %d statements' % len(body))
    need(ast.dump(body[0]) == ast.dump(ast.parse(
        'if isinstance(data, str):\n    data = data.encode("utf-8")').body[0]), 'escapeForContent: encode step')
    need(isinstance(body[1], ast.Assign) and len(body[1].targets) == 1 and is_name('data')(body[1].targets[0]),
         'escapeForContent: assignment')
    content = replace_chain(body[1].value, is_name('data'))
    need(isinstance(body[2], ast.Return) and is_name('data')(body[2].value), 'escapeForContent: return')
    need(len(content) >= 1, 'escapeForContent: empty chain')
    # writeWithAttributeEscaping: def _write(data): write(escapeForContent(data)<chain>); return _write
    f = fn_ast(_flatten.writeWithAttributeEscaping)
    body = strip_doc(f.body)
    need(len(body) == 2 and isinstance(body[0], ast.FunctionDef) and isinstance(body[1], ast.Return)
         and is_name(body[0].name)(body[1].value), 'writeWithAttributeEscaping: outer shape')
    inner = strip_doc(body[0].body)
    need(len(inner) == 1 and isinstance(inner[0], ast.Expr) and isinstance(inner[0].value, ast.Call)
         and is_name('write')(inner[0].value.func) and len(inner[0].value.args) == 1, 'writeWithAttributeEscaping: _write')
    base = ast.dump(ast.parse('escapeForContent(data)').body[0].value)
    attr_extra = replace_chain(inner[0].value.args[0], lambda e: ast.dump(e) == base)
    # attributeEscapingDoneOutside is the identity on bytes and utf-8 encoding on str
    allb = bytes(range(256))
    need(_flatten.attributeEscapingDoneOutside(allb) == allb, 'attributeEscapingDoneOutside changes bytes')
    probe = ''.join(map(chr, range(0, 0x300)))
    need(_flatten.attributeEscapingDoneOutside(probe) == probe.encode('utf-8'), 'attributeEscapingDoneOutside on str')
    # the live functions really behave as the chains say on every single byte
    for c in range(128):
        exp = bytes([c])
        for a, b in content:
            exp = exp.replace(bytes([a]), b)
        need(_flatten.escapeForContent(bytes([c])) == exp, 'escapeForContent(%r) differs from its source chain' % c)
    void = _stan.voidElements
    need(isinstance(void, tuple) and all(isinstance(v, str) and v.isascii() and v for v in void), 'voidElements')
    # the places of _flattenElement that the model relies on
    src = inspect.getsource(_flatten._flattenElement)
    for frag in ['write(dataEscaper(root))', 'write(b"<")', 'write(b" " + k + b\'="\')', "write(b'\"')",
                 'if root.children or nativeString(tagName) not in voidElements:', 'write(b">")',
                 'write(b"</" + tagName + b">")', 'write(b" />")', 'if not root.tagName:',
                 'v, attributeEscapingDoneOutside, write=writeWithAttributeEscaping(write)',
                 'yield keepGoing(root.children, escapeForContent)']:
        need(frag in src, '_flattenElement no longer contains ' + frag)
    return {'content': content, 'attr_extra': attr_extra, 'void': list(void)}


def docutils_tables() -> dict:
    from docutils.writers import _html_base
    from docutils import statemachine
    from pydoctor.node2stan import HTMLTranslator
    base = _html_base.HTMLTranslator
    need(HTMLTranslator.encode is base.encode, 'pydoctor HTMLTranslator overrides encode')
    need(HTMLTranslator.attval is base.attval, 'pydoctor HTMLTranslator overrides attval')
    sc = HTMLTranslator.special_characters
    need(isinstance(sc, dict) and all(isinstance(k, int) and isinstance(v, str) for k, v in sc.items()),
         'special_characters')
    f = fn_ast(base.encode)
    body = strip_doc(f.body)
    want = ast.parse('text = str(text)\nreturn text.translate(self.special_characters)').body
    need(len(body) == 2 and all(ast.dump(a) == ast.dump(b) for a, b in zip(body, want)), 'docutils encode body')
    f = fn_ast(base.attval)
    body = strip_doc(f.body)
    need(ast.dump(body[0]) == ast.dump(ast.parse("encoded = self.encode(whitespace.sub(' ', text))").body[0]),
         'docutils attval first statement')
    need(isinstance(body[-1], ast.Return) and is_name('encoded')(body[-1].value), 'docutils attval return')
    ws_re = base.attval.__defaults__[0]
    need(isinstance(ws_re, re.Pattern) and re.fullmatch(r'\[[^\]\\^-]*\]', ws_re.pattern) is not None, 'attval whitespace class')
    ws = [c for c in range(0x110000) if ws_re.fullmatch(chr(c))]
    need(sorted(ord(c) for c in ws_re.pattern[1:-1]) == ws, 'attval whitespace class members')
    # reST input splitting
    s2l = statemachine.string2lines
    f = fn_ast(s2l)
    body = strip_doc(f.body)
    want = ast.parse("if convert_whitespace:\n    astring = whitespace.sub(' ', astring)\n"
                     "return [s.expandtabs(tab_width).rstrip() for s in astring.splitlines()]").body
    need(len(body) == 2 and all(ast.dump(a) == ast.dump(b) for a, b in zip(body, want)), 'docutils string2lines body')
    rws = s2l.__defaults__[-1]
    need(isinstance(rws, re.Pattern), 'string2lines whitespace default')
    rst_ws = [c for c in range(0x110000) if rws.fullmatch(chr(c))]
    need(len(rst_ws) < 16 and rws.fullmatch('ab') is None, 'string2lines whitespace class')
    breaks = [c for c in range(0x110000) if c not in range(0xD800, 0xE000) and len(('a' + chr(c) + 'b').splitlines()) == 2]
    need(('a\r\nb').splitlines() == ['a', 'b'], 'splitlines CRLF')
    space = [c for c in range(0x110000) if chr(c).isspace()]
    need('a\x1fb \u2003c'.split() == ['a', 'b', 'c'] and ' \x0ca\u3000'.strip() == 'a', 'str.split/strip whitespace')
    return {'special': sorted(sc.items()), 'attval_ws': ws, 'rst_ws': rst_ws, 'breaks': breaks, 'space': space}


def stanutils_tables() -> dict:
    from pydoctor import stanutils
    rc = stanutils._RE_CONTROL
    need(isinstance(rc, re.Pattern) and isinstance(rc.pattern, bytes), '_RE_CONTROL is not a bytes pattern')
    cls = [c for c in range(256) if rc.fullmatch(bytes([c]))]
    # a character class: matches single bytes only, and exactly the members found by probing
    need(rc.pattern[:1] == b'[' and rc.pattern[-1:] == b']', '_RE_CONTROL is not a character class')
    for a in (cls[:3] + [65]):
        for b in (cls[:3] + [66]):
            need(rc.fullmatch(bytes([a, b])) is None, '_RE_CONTROL matches two bytes')
    need(rc.fullmatch(b'') is None, '_RE_CONTROL matches the empty string')
    f = fn_ast(stanutils.html2stan)
    body = strip_doc(f.body)
    need(len(body) == 5, 'html2stan has %d statements' % len(body))
    need(ast.dump(body[0]) == ast.dump(ast.parse("if isinstance(html, str):\n    html = html.encode('utf8')").body[0]),
         'html2stan: encode step')
    st = body[1]
    need(isinstance(st, ast.Assign) and is_name('html')(st.targets[0]) and isinstance(st.value, ast.Call)
         and ast.dump(st.value.func) == ast.dump(ast.parse('_RE_CONTROL.sub').body[0].value)
         and len(st.value.args) == 2 and is_name('html')(st.value.args[1]) and isinstance(st.value.args[0], ast.Lambda),
         'html2stan: _RE_CONTROL.sub(lambda, html)')
    lam = st.value.args[0]
    fn = eval(compile(ast.Expression(lam), '<html2stan lambda>', 'eval'), {})
    repl = []
    for c in cls:
        m = re.compile(b'[\x00-\xff]', re.S).match(bytes([c]))
        r = fn(m)
        need(isinstance(r, bytes), 'substitution is not bytes')
        repl.append((c, r))
    # and the compiled function really does that
    for c, r in repl:
        need(rc.sub(fn, b'a' + bytes([c]) + b'b') == b'a' + r + b'b', 'sub() result')
    # if not html.startswith(b'<?xml'): stan = XMLString(b'<div>%s</div>' % html).load()[0]; asserts ... else: ...
    iff = body[2]
    need(isinstance(iff, ast.If) and ast.dump(iff.test) == ast.dump(ast.parse("not html.startswith(b'<?xml')").body[0].value),
         'html2stan: <?xml test')
    a0 = iff.body[0]
    need(isinstance(a0, ast.Assign) and is_name('stan')(a0.targets[0]), 'html2stan: stan = ...')
    wrap = None
    for n in ast.walk(a0.value):
        if isinstance(n, ast.BinOp) and isinstance(n.op, ast.Mod) and isinstance(n.left, ast.Constant) \
                and isinstance(n.left.value, bytes) and is_name('html')(n.right):
            wrap = n.left.value
    need(wrap is not None and wrap.count(b'%') == 1 and wrap.count(b'%s') == 1, 'html2stan: wrapper')
    need(ast.dump(a0.value) == ast.dump(ast.parse("XMLString(%r %% html).load()[0]" % wrap).body[0].value),
         'html2stan: XMLString(...).load()[0]')
    pre, post = wrap.split(b'%s')
    m = re.fullmatch(rb'<([a-z]+)>', pre)
    need(m is not None and post == b'</' + m.group(1) + b'>', 'html2stan: wrapper is not <x>%s</x>')
    need(ast.dump(body[3]) == ast.dump(ast.parse("stan.tagName = ''").body[0]), "html2stan: stan.tagName = ''")
    need(isinstance(body[4], ast.Return) and is_name('stan')(body[4].value), 'html2stan: return stan')
    return {'ctrl': cls, 'ctrl_repl': repl, 'wrap_tag': m.group(1), 'xml_decl': b'<?xml'}


FIELDS = {'name': 0, 'package': 1, 'version': 2, 'replacement': 3}


def template(t: str) -> List[Tuple[str, int]]:
    out = []
    for lit, field, spec, conv in string.Formatter().parse(t):
        need(not spec and not conv, 'format spec in deprecation template')
        if field is None:
            out.append((lit, 9))
        else:
            need(field in FIELDS, 'unknown field %r in deprecation template' % field)
            out.append((lit, FIELDS[field]))
    return out


def deprecate_tables() -> dict:
    from pydoctor.extensions import deprecate
    t1 = template(deprecate._deprecation_text_with_replacement_template)
    t0 = template(deprecate._deprecation_text_without_replacement_template)
    src = inspect.getsource(deprecate.deprecatedToUsefulText)
    mod = ast.parse(textwrap.dedent(src))
    fn = mod.body[0]
    # validate_identifier
    vi = [n for n in ast.walk(fn) if isinstance(n, ast.FunctionDef) and n.name == 'validate_identifier']
    need(len(vi) == 1, 'validate_identifier not found')
    want = ast.parse("if not all(p.isidentifier() for p in _text.split('.')):\n    return False\nreturn True").body
    got = strip_doc(vi[0].body)
    need(len(got) == 2 and all(ast.dump(a) == ast.dump(b) for a, b in zip(got, want)), 'validate_identifier body')
    # the guarded uses
    want_pkg = ast.parse("if not validate_identifier(_package):\n    raise ValueError(f'Invalid package name: {_package!r}')").body[0]
    need(any(ast.dump(s) == ast.dump(want_pkg) for s in fn.body), 'package guard')
    guards = [s for s in fn.body if isinstance(s, ast.If) and 'validate_identifier(replacement)' in ast.unparse(s.test)]
    need(len(guards) == 1, 'replacement guard')
    g = guards[0]
    need(ast.unparse(g.test) == 'replacement is not None and (not validate_identifier(replacement))', 'replacement guard test: ' + ast.unparse(g.test))
    need(not g.orelse, 'replacement guard has else')
    # body: statements  replacement = <ops>(replacement)  then  replacement = f"<pre>{replacement}<post>"
    # where <ops> is a chain of  .replace(a, b)  (one-character a) on `replacement`, optionally inside  SEP.join( ... .split())
    ops: List[Tuple[int, int, str]] = []      # (0, ord(a), b) replace ; (1, 0, sep) = sep.join(x.split())

    def chain(e: ast.expr) -> List[Tuple[int, int, str]]:
        """ops of an expression built on the name `replacement`, innermost first"""
        if is_name('replacement')(e):
            return []
        need(isinstance(e, ast.Call) and isinstance(e.func, ast.Attribute) and not e.keywords, 'replacement expression: ' + ast.unparse(e))
        f = e.func
        if f.attr == 'replace':
            need(len(e.args) == 2 and all(isinstance(a, ast.Constant) and isinstance(a.value, str) for a in e.args)
                 and len(e.args[0].value) == 1, 'replacement.replace shape: ' + ast.unparse(e))
            return chain(f.value) + [(0, ord(e.args[0].value), e.args[1].value)]
        if f.attr == 'join':
            need(isinstance(f.value, ast.Constant) and isinstance(f.value.value, str) and len(e.args) == 1, 'join shape: ' + ast.unparse(e))
            inner = e.args[0]
            need(isinstance(inner, ast.Call) and isinstance(inner.func, ast.Attribute) and inner.func.attr == 'split'
                 and not inner.args and not inner.keywords, 'join argument is not x.split(): ' + ast.unparse(e))
            return chain(inner.func.value) + [(1, 0, f.value.value)]
        need(False, 'replacement expression: ' + ast.unparse(e))
        return []
    wrap = None
    for s in g.body:
        need(isinstance(s, ast.Assign) and len(s.targets) == 1 and is_name('replacement')(s.targets[0]), 'replacement guard statement')
        v = s.value
        if isinstance(v, ast.Call):
            need(wrap is None, 'clean-up after wrap')
            ops += chain(v)
        elif isinstance(v, ast.JoinedStr):
            need(wrap is None, 'two wraps')
            parts = v.values
            need(sum(isinstance(p, ast.FormattedValue) for p in parts) == 1, 'wrap f-string')
            pre = post = ''
            seen = False
            for p in parts:
                if isinstance(p, ast.FormattedValue):
                    need(is_name('replacement')(p.value) and p.conversion == -1 and p.format_spec is None, 'wrap field')
                    seen = True
                else:
                    need(isinstance(p, ast.Constant) and isinstance(p.value, str), 'wrap literal')
                    if seen:
                        post += p.value
                    else:
                        pre += p.value
            wrap = (pre, post)
        else:
            need(False, 'replacement guard statement kind')
    need(wrap is not None, 'no wrap')
    # getDeprecated: doc=f".. deprecated:: {version}\n   {text}"
    src2 = inspect.getsource(deprecate.getDeprecated)
    js = [n for n in ast.walk(ast.parse(textwrap.dedent(src2))) if isinstance(n, ast.keyword) and n.arg == 'doc']
    need(len(js) == 1 and isinstance(js[0].value, ast.JoinedStr), 'getDeprecated doc= f-string')
    doc = []
    for p in js[0].value.values:
        if isinstance(p, ast.Constant):
            doc.append((p.value, 9))
        else:
            need(isinstance(p, ast.FormattedValue) and isinstance(p.value, ast.Name) and p.value.id in ('version', 'text')
                 and p.conversion == -1 and p.format_spec is None, 'getDeprecated doc field')
            doc.append(('', 2 if p.value.id == 'version' else 4))
    return {'with': t1, 'without': t0, 'ops': ops, 'wrap': wrap, 'doc': doc}


def ranges(pred: Any) -> List[Tuple[int, int]]:
    out: List[Tuple[int, int]] = []
    start = None
    for c in range(0x110000):
        ok = not (0xD800 <= c < 0xE000) and pred(chr(c))
        if ok and start is None:
            start = c
        if not ok and start is not None:
            out.append((start, c - 1))
            start = None
    if start is not None:
        out.append((start, 0x10FFFF))
    return out


def ident_tables() -> dict:
    start = ranges(lambda ch: ch.isidentifier())
    cont = ranges(lambda ch: ('a' + ch).isidentifier())
    # per-character tables describe str.isidentifier exactly (first XID_Start or _, rest XID_Continue): spot-check
    import random
    rnd = random.Random(7)
    def inr(rs: List[Tuple[int, int]], c: int) -> bool:
        return any(lo <= c <= hi for lo, hi in rs)
    pool = [0x41, 0x5f, 0x30, 0x2e, 0xb7, 0x2118, 0x212e, 0x309b, 0x37a, 0xaa, 0x1d7ce, 0xff3f, 0x20, 0x2d]
    for _ in range(4000):
        s = ''.join(chr(rnd.choice(pool) if rnd.random() < .7 else rnd.randrange(0x20, 0x3000)) for _ in range(rnd.randint(0, 4)))
        want = len(s) > 0 and inr(start, ord(s[0])) and all(inr(cont, ord(c)) for c in s[1:])
        need(s.isidentifier() == want, 'str.isidentifier is not per-character on %r' % s)
    return {'start': start, 'cont': cont}


def tpl(t: List[Tuple[str, int]]) -> str:
    return '[' + ';\n   '.join('(%s, %d)' % (coq_text(l), f) for l, f in t) + ']'


def generate() -> dict:
    tw = twisted_tables()
    du = docutils_tables()
    su = stanutils_tables()
    de = deprecate_tables()
    idt = ident_tables()
    L = []
    L.append('(* C10 tables: twisted escapers, docutils encode/attval, stanutils._RE_CONTROL, deprecate templates,')
    L.append('   str.isidentifier / str.splitlines character tables. text = list N (code points). *)')
    L.append('From Coq Require Import NArith List.')
    L.append('Import ListNotations.')
    L.append('Local Open Scope N_scope.')
    L.append('')
    L.append('(* twisted.web._flatten.escapeForContent: data.replace(a1, r1).replace(a2, r2)... in this order *)')
    L.append('Definition content_escapes : list (N * list N) :=\n  %s.' % coq_pairs(tw['content']))
    L.append('(* writeWithAttributeEscaping: escapeForContent(data) followed by these replacements *)')
    L.append('Definition attr_extra_escapes : list (N * list N) :=\n  %s.' % coq_pairs(tw['attr_extra']))
    L.append('(* twisted.web._stan.voidElements *)')
    L.append('Definition void_elements : list (list N) :=\n  [%s].' % ';\n   '.join(coq_text(v) for v in tw['void']))
    L.append('(* docutils HTMLTranslator.special_characters (str.translate table: simultaneous), sorted by key *)')
    L.append('Definition docutils_special : list (N * list N) :=\n  %s.' % coq_pairs(du['special']))
    L.append('(* docutils attval: characters replaced by a space before encode *)')
    L.append('Definition attval_ws : list N := %s.' % coq_text(bytes(du['attval_ws'])))
    L.append('(* docutils.statemachine.string2lines: characters converted to a space before splitlines *)')
    L.append('Definition rst_ws : list N := %s.' % coq_text(bytes(du['rst_ws'])))
    L.append('(* code points at which str.splitlines breaks a line *)')
    L.append('Definition line_breaks : list N := [%s].' % '; '.join(str(c) for c in du['breaks']))
    L.append('(* str.isspace(): the separators of str.split() and what str.strip() removes *)')
    L.append('Definition py_space : list N := [%s].' % '; '.join(str(c) for c in du['space']))
    L.append('(* stanutils._RE_CONTROL members and what html2stan substitutes for each *)')
    L.append('Definition re_control : list N := %s.' % coq_text(bytes(su['ctrl'])))
    L.append('Definition re_control_repl : list (N * list N) :=\n  %s.' % coq_pairs(su['ctrl_repl']))
    L.append('(* html2stan wraps the fragment in <wrap_tag>...</wrap_tag> unless it starts with xml_decl *)')
    L.append('Definition wrap_tag : list N := %s.' % coq_text(su['wrap_tag']))
    L.append('Definition xml_decl : list N := %s.' % coq_text(su['xml_decl']))
    L.append('(* extensions.deprecate: templates as (literal, field) pieces; field 0 name 1 package 2 version 3 replacement')
    L.append('   4 text 9 none *)')
    L.append('Definition depr_with : list (list N * N) :=\n  %s.' % tpl(de['with']))
    L.append('Definition depr_without : list (list N * N) :=\n  %s.' % tpl(de['without']))
    L.append('Definition depr_doc : list (list N * N) :=\n  %s.' % tpl(de['doc']))
    L.append('(* what is applied to a non-identifier replacement, in order, before the wrapping:')
    L.append('   (0, a, b) = .replace(chr(a), b)   (1, 0, sep) = sep.join(x.split()) *)')
    L.append('Definition depr_ops : list (N * N * list N) :=\n  [%s].' % ';\n   '.join('(%d, %d, %s)' % (k, a, coq_text(b)) for k, a, b in de['ops']))
    L.append('Definition depr_wrap_pre : list N := %s.' % coq_text(de['wrap'][0]))
    L.append('Definition depr_wrap_post : list N := %s.' % coq_text(de['wrap'][1]))
    L.append('(* str.isidentifier: first character in xid_start (includes _), others in xid_continue; inclusive ranges *)')
    L.append('Definition xid_start : list (N * N) :=\n  %s.' % coq_ranges(idt['start']))
    L.append('Definition xid_continue : list (N * N) :=\n  %s.' % coq_ranges(idt['cont']))
    return {'TablesC10.v': '\n'.join(L) + '\n'}


if __name__ == '__main__':
    print(generate()['TablesC10.v'][:3000])
