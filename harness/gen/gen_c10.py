"""Translator A for C10: the escape tables, as the code has them NOW.

Read from the live modules (PYTHONPATH=/repo, twisted and docutils from /venv):
  * twisted.web._flatten.escapeForContent           -> ordered chain of single-byte .replace() calls
  * twisted.web._flatten.writeWithAttributeEscaping -> the extra replacements applied on top of escapeForContent
  * twisted.web._flatten.attributeEscapingDoneOutside -> must be the identity (probed on all 256 bytes)
  * twisted.web._stan.voidElements
  * pydoctor.node2stan.HTMLTranslator.special_characters / .encode / .attval (docutils, as pydoctor inherits them)
  * pydoctor.stanutils._RE_CONTROL character class, the substitution lambda and the <div> wrapper of html2stan
  * pydoctor.extensions.deprecate templates, the line-break replacement and the back-quote wrapping
  * str.isidentifier per code point (XID_Start / XID_Continue ranges), str.splitlines boundaries,
    docutils.statemachine.string2lines' whitespace class

Fail-closed: every shape test raises Unrecognised, which aborts gen_tables.py with exit 1.
Output: Gen/TablesC10.v (definitions only)."""
from __future__ import annotations
import ast, inspect, re, string, textwrap
from typing import Any, List, Tuple


class Unrecognised(Exception):
    pass


def need(cond: Any, what: str) -> None:
    if not cond:
        raise Unrecognised('unrecognised shape: ' + what)


def coq_text(s: Any) -> str:
    if isinstance(s, (bytes, bytearray)):
        cps = list(s)
    else:
        cps = [ord(c) for c in s]
    return '[' + '; '.join(str(c) for c in cps) + ']'


def coq_pairs(pairs: List[Tuple[int, Any]]) -> str:
    return '[' + ';\n   '.join('(%d, %s)' % (c, coq_text(r)) for c, r in pairs) + ']'


def coq_ranges(rs: List[Tuple[int, int]]) -> str:
    out, line = [], []
    for lo, hi in rs:
        line.append('(%d, %d)' % (lo, hi))
        if len(line) == 8:
            out.append('; '.join(line))
            line = []
    if line:
        out.append('; '.join(line))
    return '[' + ';\n   '.join(out) + ']'


def fn_ast(fn: Any) -> ast.FunctionDef:
    src = textwrap.dedent(inspect.getsource(fn))
    mod = ast.parse(src)
    need(len(mod.body) == 1 and isinstance(mod.body[0], ast.FunctionDef), 'source of %r is not one def' % fn)
    return mod.body[0]


def strip_doc(body: List[ast.stmt]) -> List[ast.stmt]:
    if body and isinstance(body[0], ast.Expr) and isinstance(body[0].value, ast.Constant) \
            and isinstance(body[0].value.value, str):
        return body[1:]
    return body


def replace_chain(e: ast.expr, base_test: Any) -> List[Tuple[int, bytes]]:
    """e == <base>.replace(b1, r1).replace(b2, r2)...  with single-byte patterns; returns [(b1, r1), ...] in order."""
    chain: List[Tuple[int, bytes]] = []
    while True:
        if base_test(e):
            break
        need(isinstance(e, ast.Call) and isinstance(e.func, ast.Attribute) and e.func.attr == 'replace'
             and len(e.args) == 2 and not e.keywords, 'not a .replace(a, b) chain: ' + ast.dump(e)[:200])
        a, b = e.args
        need(isinstance(a, ast.Constant) and isinstance(a.value, bytes) and len(a.value) == 1
             and isinstance(b, ast.Constant) and isinstance(b.value, bytes), 'replace() arguments: ' + ast.dump(e)[:200])
        chain.append((a.value[0], b.value))
        e = e.func.value
    chain.reverse()
    return chain


def is_name(n: str) -> Any:
    return lambda e: isinstance(e, ast.Name) and e.id == n


def twisted_tables() -> dict:
    from twisted.web import _flatten, _stan
    # escapeForContent: if isinstance(data, str): data = data.encode("utf-8"); data = <chain>; return data
    f = fn_ast(_flatten.escapeForContent)
    body = strip_doc(f.body)
    need(len(body) == 3, 'escapeForContent has %d statements' % len(body))
    need(ast.dump(body[0]) == ast.dump(ast.parse(
        'if isinstance(data, str):\n    data = data.encode("utf-8")').body[0]), 'escapeForContent: encode step')
    need(isinstance(body[1], ast.Assign) and len(body[1].targets) == 1 and is_name('data')(body[1].targets[0]),
         'escapeForContent: assignment')
    content = replace_chain(body[1].value, is_name('data'))
    need(isinstance(body[2], ast.Return) and is_name('data')(body[2].value), 'escapeForContent: return')
    need(len(content) >= 1, 'escapeForContent: empty chain')
    # writeWithAttributeEscaping: def _write(data): write(escapeForContent(data)<chain>); return _write
    f = fn_ast(_flatten.writeWithAttributeEscaping)
    body = strip_doc(f.body)
    need(len(body) == 2 and isinstance(body[0], ast.FunctionDef) and isinstance(body[1], ast.Return)
         and is_name(body[0].name)(body[1].value), 'writeWithAttributeEscaping: outer shape')
    inner = strip_doc(body[0].body)
    need(len(inner) == 1 and isinstance(inner[0], ast.Expr) and isinstance(inner[0].value, ast.Call)
         and is_name('write')(inner[0].value.func) and len(inner[0].value.args) == 1, 'writeWithAttributeEscaping: _write')
    base = ast.dump(ast.parse('escapeForContent(data)').body[0].value)
    attr_extra = replace_chain(inner[0].value.args[0], lambda e: ast.dump(e) == base)
    # attributeEscapingDoneOutside is the identity on bytes and utf-8 encoding on str
    allb = bytes(range(256))
    need(_flatten.attributeEscapingDoneOutside(allb) == allb, 'attributeEscapingDoneOutside changes bytes')
    probe = ''.join(map(chr, range(0, 0x300)))
    need(_flatten.attributeEscapingDoneOutside(probe) == probe.encode('utf-8'), 'attributeEscapingDoneOutside on str')
    # the live functions really behave as the chains say on every single byte
    for c in range(128):
        exp = bytes([c])
        for a, b in content:
            exp = exp.replace(bytes([a]), b)
        need(_flatten.escapeForContent(bytes([c])) == exp, 'escapeForContent(%r) differs from its source chain' % c)
    void = _stan.voidElements
    need(isinstance(void, tuple) and all(isinstance(v, str) and v.isascii() and v for v in void), 'voidElements')
    # the places of _flattenElement that the model relies on
    src = inspect.getsource(_flatten._flattenElement)
    for frag in ['write(dataEscaper(root))', 'write(b"<")', 'write(b" " + k + b\'="\')', "write(b'\"')",
                 'if root.children or nativeString(tagName) not in voidElements:', 'write(b">")',
                 'write(b"</" + tagName + b">")', 'write(b" />")', 'if not root.tagName:',
                 'v, attributeEscapingDoneOutside, write=writeWithAttributeEscaping(write)',
                 'yield keepGoing(root.children, escapeForContent)']:
        need(frag in src, '_flattenElement no longer contains ' + frag)
    return {'content': content, 'attr_extra': attr_extra, 'void': list(void)}


def docutils_tables() -> dict:
    from docutils.writers import _html_base
    from docutils import statemachine
    from pydoctor.node2stan import HTMLTranslator
    # encode / attval as pydoctor's translator really performs them (inherited, overridden or rewritten alike): probe every
    # code point, then check on multi-character probes that both are character-wise (what the model assumes)
    from docutils import utils as du_utils
    tr = HTMLTranslator(du_utils.new_document('c10gen'), None)
    sc = {}
    for c in range(0x110000):
        if 0xD800 <= c < 0xE000:
            continue
        ch = chr(c)
        e = tr.encode(ch)
        need(isinstance(e, str), 'encode() result')
        if e != ch:
            sc[c] = e
    need(0 < len(sc) < 64, 'encode() changes %d characters' % len(sc))
    space = tr.encode(' ')
    ws = [c for c in range(0x110000) if not (0xD800 <= c < 0xE000) and c != 32 and tr.attval(chr(c)) == space and tr.encode(chr(c)) != space]
    need(len(ws) < 32, 'attval() maps %d characters to a space' % len(ws))
    enc1 = lambda t: ''.join(sc.get(ord(x), x) for x in t)
    probes = ['', 'a<b>&"\'@c', 'x\ty\nz\r\x0b\x0c w', '\xa0\xe9\u2028<', '&amp;&lt;', ']]>-->', 'a' * 50 + '<' * 50] + \
             [chr(a) + chr(b) for a in list(sc)[:8] + [65, 32, 9] for b in list(sc)[:8] + [66, 10]]
    for t in probes:
        need(tr.encode(t) == enc1(t), 'encode() is not the character-wise map on %r' % t)
        need(tr.attval(t) == enc1(''.join(' ' if ord(x) in ws else x for x in t)), 'attval() is not encode after white-space folding on %r' % t)
    for c in list(range(0x300)) + [0x2028, 0x3000, 0xfffd, 0x1f600]:
        ch = chr(c)
        need(tr.attval(ch) == enc1(' ' if c in ws else ch), 'attval(%r)' % ch)
    # reST input splitting
    s2l = statemachine.string2lines
    f = fn_ast(s2l)
    body = strip_doc(f.body)
    want = ast.parse("if convert_whitespace:\n    astring = whitespace.sub(' ', astring)\n"
                     "return [s.expandtabs(tab_width).rstrip() for s in astring.splitlines()]").body
    need(len(body) == 2 and all(ast.dump(a) == ast.dump(b) for a, b in zip(body, want)), 'docutils string2lines body')
    rws = s2l.__defaults__[-1]
    need(isinstance(rws, re.Pattern), 'string2lines whitespace default')
    rst_ws = [c for c in range(0x110000) if rws.fullmatch(chr(c))]
    need(len(rst_ws) < 16 and rws.fullmatch('ab') is None, 'string2lines whitespace class')
    breaks = [c for c in range(0x110000) if c not in range(0xD800, 0xE000) and len(('a' + chr(c) + 'b').splitlines()) == 2]
    need(('a\r\nb').splitlines() == ['a', 'b'], 'splitlines CRLF')
    space = [c for c in range(0x110000) if chr(c).isspace()]
    need('a\x1fb \u2003c'.split() == ['a', 'b', 'c'] and ' \x0ca\u3000'.strip() == 'a', 'str.split/strip whitespace')
    return {'special': sorted(sc.items()), 'attval_ws': ws, 'rst_ws': rst_ws, 'breaks': breaks, 'space': space}


def _code_bytes(code: Any) -> List[bytes]:
    out: List[bytes] = []
    for c in code.co_consts:
        if isinstance(c, bytes):
            out.append(c)
        elif hasattr(c, 'co_consts'):
            out += _code_bytes(c)
    return out


def stanutils_tables() -> dict:
    """html2stan by its BEHAVIOUR: which bytes it rewrites before parsing and into what is observed on the live function;
    the wrapper and the XML-declaration test are read from the constants of its code (however the body is written, also
    in same-module helpers); a reference implementation built from these tables must then agree with the live function
    on a probe set (fail-closed otherwise)."""
    from pydoctor import stanutils
    from xml.sax import SAXParseException
    from twisted.web.template import XMLString, Tag
    h2s, flat = stanutils.html2stan, stanutils.flatten
    consts = list(_code_bytes(h2s.__code__))
    for fobj in vars(stanutils).values():         # same-module helpers that html2stan may delegate to
        if inspect.isfunction(fobj) and fobj.__module__ == stanutils.__name__ and fobj is not h2s \
                and fobj.__name__ in h2s.__code__.co_names:
            consts += _code_bytes(fobj.__code__)
    for v in vars(stanutils).values():            # module-level byte templates
        if isinstance(v, bytes):
            consts.append(v)
    wraps = sorted({c for c in consts if re.fullmatch(rb'<([a-z]+)>%s</\1>', c)})
    need(len(wraps) == 1, 'html2stan: wrapper <x>%%s</x> not found among its constants: %r' % consts)
    tag = re.fullmatch(rb'<([a-z]+)>%s</\1>', wraps[0]).group(1)
    decls = sorted({c for c in consts if c.startswith(b'<?xml')})
    need(decls == [b'<?xml'], 'html2stan: XML declaration test: %r' % decls)

    def observe(data: Any) -> Any:
        try:
            return ('ok', flat(h2s(data)))
        except SAXParseException:
            return ('sax',)
        except AssertionError:
            return ('assert',)
        except UnicodeError:
            return ('unicode',)
    repl = []
    for c in range(32):
        r = observe(b'a' + bytes([c]) + b'b')
        if r[0] != 'ok':
            continue
        want = 'a' + ('\n' if c == 13 else chr(c)) + 'b'
        if r[1] != want:
            need(r[1].startswith('a') and r[1].endswith('b') and len(r[1]) > 2, 'html2stan(%r) gives %r' % (bytes([c]), r[1]))
            sub = r[1][1:-1]
            need(sub.isascii() and all(ch not in '<>&\r\n' and ord(ch) >= 32 for ch in sub), 'substitute for byte %d is %r' % (c, sub))
            repl.append((c, sub.encode('ascii')))
    cls = [c for c, _ in repl]
    # bytes >= 32 are left alone
    for c in range(32, 128):
        if chr(c) in '<&':
            continue
        r = observe(b'a' + bytes([c]) + b'b')
        need(r == ('ok', 'a' + {'>': '&gt;'}.get(chr(c), chr(c)) + 'b'), 'html2stan changes byte %d: %r' % (c, r))
    table = dict(repl)

    def reference(data: Any) -> Any:
        try:
            b = data.encode('utf8') if isinstance(data, str) else data
            b = b''.join(table.get(x, bytes([x])) for x in b)
            if b.startswith(b'<?xml'):
                st = XMLString(b).load()[0]
                if not (isinstance(st, Tag) and st.tagName == 'html'):
                    return ('assert',)
            else:
                st = XMLString(wraps[0] % b).load()[0]
            st.tagName = ''
            return ('ok', flat(st))
        except SAXParseException:
            return ('sax',)
        except UnicodeError:
            return ('unicode',)
    probes: List[Any] = ['', 'x', 'a&amp;b<i>x</i>', '<p>a</p><p>b</p>', '<a href="u" class="c">t</a>', '<br/>', 'a<b', 'a&b', '</div><div>',
                         '<!-- c -->x', '<![CDATA[<x>]]>', '&lt;&gt;&quot;&#64;', '&nbsp;', '\x0c', '\x7f', '\xe9 ', ' \t\r\n ', 'a\r\nb\rc',
                         '<?xml version="1.0"?><html><p>x</p></html>', '<?xml version="1.0"?><p>x</p>', '<?xmlx', 'x<?xml',
                         b'bytes <b>x</b>', b'\x01\x02<i>\x1f</i>', '\x00<i a="\x01">\x0b</i>', '<div>x</div>', ']]>', '<i>' * 3 + '</i>' * 3,
                         '<span class="rst-x">y</span>\n', '<wbr></wbr>', "<a b='1' c=\"2\"/>"]
    probes += ['t%sx<i>%s</i>' % (chr(c), chr(c)) for c in range(32)]
    for pr in probes:
        a, b = observe(pr), reference(pr)
        need(a == b, 'html2stan(%r) = %r, neutralise + wrap + parse gives %r' % (pr, a, b))
    return {'ctrl': cls, 'ctrl_repl': repl, 'wrap_tag': tag, 'xml_decl': b'<?xml'}


FIELDS = {'name': 0, 'package': 1, 'version': 2, 'replacement': 3}


def template(t: str) -> List[Tuple[str, int]]:
    out = []
    for lit, field, spec, conv in string.Formatter().parse(t):
        need(not spec and not conv, 'format spec in deprecation template')
        if field is None:
            out.append((lit, 9))
        else:
            need(field in FIELDS, 'unknown field %r in deprecation template' % field)
            out.append((lit, FIELDS[field]))
    return out


# ---------------------------------------------------------------------------------------------------------------
# extensions.deprecate: the MEANING of deprecatedToUsefulText / getDeprecated is extracted by a small symbolic
# interpreter instead of matching source text.  Strings are symbolic concatenations of atoms
#     ('c', literal) | ('v', input name) | ('replace', a, b, inner) | ('splitjoin', sep, inner)
# booleans are evaluated under a scenario (is the replacement None? is it / is the package a dotted identifier?);
# a boolean expression over ONE input that the interpreter does not understand structurally is compiled and compared,
# on a probe set, with the reference predicate all(p.isidentifier() for p in t.split('.')) or its negation.
# Understood: assignments to names, if / elif / else, early return, raise, pass, nested and same-module helper
# functions (inlined), f-strings, + and % and str.format on (module-level or local) templates, str.replace with a
# one-character pattern, SEP.join(x.split()), `is None` tests, not / and / or, conditional expressions.
# Anything else raises Unrecognised (fail-closed).
NONE = ('none',)


class Raised(Exception):
    def __init__(self, cls: str):
        self.cls = cls


class Returned(Exception):
    def __init__(self, value: Any):
        self.value = value


def _probe_strings() -> List[str]:
    import itertools
    out = ['', '.', 'a', 'a.b', 'a..b', '.a', 'a.', '1a', 'a1', 'a-b', 'a b', ' a', 'a ', 'a\n', '\xe9', '\xb7a', 'a\xb7', '℘',
           'a.℘', '<b>', '`', 'a`', 'None', 'a.b.c', 'a.1', '_', '__a.b_', 'a\x00', 'a\r', 'A.B', 'a.b c', 'a,b']
    for c in list(range(0, 0x250)) + [0x2028, 0x2029, 0x3000, 0xfe33, 0xff3f, 0x1d7ce, 0x10000]:
        ch = chr(c)
        out += [ch, 'a' + ch, ch + 'a', 'a.' + ch, 'a.b' + ch]
    alpha = 'a.1_ -\xe9'
    for n in range(1, 5):
        out += [''.join(t) for t in itertools.product(alpha, repeat=n)]
    return out


_PROBES: List[str] = []


def _reference_valid(t: str) -> bool:
    return all(p.isidentifier() for p in t.split('.'))


class SymInterp:
    def __init__(self, module: Any, scenario: dict, inputs: dict):
        self.module = module
        self.scenario = scenario          # {'none': bool, 'valid': {input name: bool}}
        self.env: dict = dict(inputs)     # local name -> value
        self.helpers: dict = {}           # local def name -> ast.FunctionDef
        self.depth = 0

    # -- values
    @staticmethod
    def const(t: str) -> list:
        return [('c', t)] if t else []

    @staticmethod
    def norm(v: list) -> list:
        out: list = []
        for a in v:
            if a[0] == 'c':
                if not a[1]:
                    continue
                if out and out[-1][0] == 'c':
                    out[-1] = ('c', out[-1][1] + a[1])
                    continue
            out.append(a)
        return out

    def is_str(self, v: Any) -> bool:
        return isinstance(v, list)

    # -- expressions
    def ev(self, e: ast.expr) -> Any:
        if isinstance(e, ast.Constant):
            if isinstance(e.value, str):
                return self.const(e.value)
            if e.value is None:
                return NONE
            if isinstance(e.value, bool):
                return e.value
            need(False, 'constant ' + repr(e.value))
        if isinstance(e, ast.Name):
            if e.id in self.env:
                return self.env[e.id]
            if hasattr(self.module, e.id) and isinstance(getattr(self.module, e.id), str):
                return self.const(getattr(self.module, e.id))
            need(False, 'name ' + e.id)
        if isinstance(e, ast.JoinedStr):
            out: list = []
            for part in e.values:
                if isinstance(part, ast.Constant):
                    out += self.const(part.value)
                else:
                    need(isinstance(part, ast.FormattedValue) and part.conversion in (-1, 115) and part.format_spec is None,
                         'f-string field ' + ast.unparse(part))
                    out += self.strval(part.value)
            return self.norm(out)
        if isinstance(e, ast.BinOp) and isinstance(e.op, ast.Add):
            return self.norm(self.strval(e.left) + self.strval(e.right))
        if isinstance(e, ast.BinOp) and isinstance(e.op, ast.Mod):
            t = self.strval(e.left)
            need(len(t) <= 1 and all(a[0] == 'c' for a in t), '%-format template is not constant')
            tmpl = t[0][1] if t else ''
            args = [self.strval(x) for x in e.right.elts] if isinstance(e.right, ast.Tuple) else [self.strval(e.right)]
            pieces = re.split(r'(%s|%%)', tmpl)
            out = []
            k = 0
            for pc in pieces:
                if pc == '%s':
                    need(k < len(args), '%-format arity')
                    out += args[k]
                    k += 1
                elif pc == '%%':
                    out += self.const('%')
                else:
                    need('%' not in pc, '%-format directive in ' + repr(tmpl))
                    out += self.const(pc)
            need(k == len(args), '%-format arity')
            return self.norm(out)
        if isinstance(e, ast.IfExp):
            return self.ev(e.body) if self.truth(e.test) else self.ev(e.orelse)
        if isinstance(e, ast.Tuple):
            return tuple(self.ev(x) for x in e.elts)
        if isinstance(e, ast.Dict) and all(isinstance(k, ast.Constant) and isinstance(k.value, str) for k in e.keys):
            return {'dict': {k.value: self.strval(v) for k, v in zip(e.keys, e.values)}}
        if isinstance(e, (ast.BoolOp, ast.Compare)) or (isinstance(e, ast.UnaryOp) and isinstance(e.op, ast.Not)):
            return self.truth(e)
        if isinstance(e, ast.Call):
            return self.call(e)
        need(False, 'expression ' + ast.unparse(e))

    def strval(self, e: ast.expr) -> list:
        v = self.ev(e)
        need(self.is_str(v), 'not a string value: ' + ast.unparse(e))
        return v

    def call(self, e: ast.Call) -> Any:
        f = e.func
        if isinstance(f, ast.Attribute):
            if f.attr == 'replace' and len(e.args) == 2 and not e.keywords:
                a, b = self.strval(e.args[0]), self.strval(e.args[1])
                need(all(x[0] == 'c' for x in a + b), 'replace() with non-constant arguments')
                a_s = ''.join(x[1] for x in a)
                b_s = ''.join(x[1] for x in b)
                need(len(a_s) == 1, 'replace() pattern is not one character: ' + repr(a_s))
                # a one-character replace distributes over concatenation
                out = []
                for atom in self.strval(f.value):
                    out.append(('c', atom[1].replace(a_s, b_s)) if atom[0] == 'c' else ('replace', a_s, b_s, [atom]))
                return self.norm(out)
            if f.attr == 'split' and not e.args and not e.keywords:
                # the list of white-space separated words of a string: only ever joined again
                return {'words': self.strval(f.value)}
            if f.attr == 'join' and len(e.args) == 1 and not e.keywords:
                sep = self.strval(f.value)
                need(all(x[0] == 'c' for x in sep), 'join() separator is not constant')
                w = self.ev(e.args[0])
                need(isinstance(w, dict) and 'words' in w, 'join() argument is not the result of x.split(): ' + ast.unparse(e))
                x = w['words']
                sep_s = ''.join(a[1] for a in sep)
                if all(a[0] == 'c' for a in x):
                    return self.const(sep_s.join(''.join(a[1] for a in x).split()))
                need(len(x) == 1, 'split() of a concatenation: ' + ast.unparse(e))
                return [('splitjoin', sep_s, x)]
            if f.attr == 'format' and not e.args:
                t = self.strval(f.value)
                need(len(t) <= 1 and all(a[0] == 'c' for a in t), 'format() template is not constant')
                kw = {}
                for k in e.keywords:
                    if k.arg is None:
                        d = self.ev(k.value)
                        need(isinstance(d, dict) and 'dict' in d, 'format(**x) with something other than a dict display')
                        kw.update(d['dict'])
                        continue
                    kw[k.arg] = self.strval(k.value)
                out = []
                for lit, field, spec, conv in string.Formatter().parse(t[0][1] if t else ''):
                    out += self.const(lit)
                    if field is not None:
                        need(not spec and conv in (None, 's') and field in kw, 'format field ' + repr(field))
                        out += kw[field]
                return self.norm(out)
        if isinstance(f, ast.Name):
            if f.id == 'str' and len(e.args) == 1 and not e.keywords:
                return self.strval(e.args[0])
            fd = self.helpers.get(f.id)
            if fd is None:
                obj = getattr(self.module, f.id, None)
                if inspect.isfunction(obj) and obj.__module__ == self.module.__name__:
                    fd = fn_ast(obj)
            if fd is not None:
                # a boolean helper over one input is first tried as a predicate (see truth()); otherwise inline it
                return self.inline(fd, e)
        need(False, 'call ' + ast.unparse(e))

    def inline(self, fd: ast.FunctionDef, e: ast.Call) -> Any:
        need(self.depth < 4, 'helper recursion')
        need(not fd.args.vararg and not fd.args.kwarg and not fd.args.kwonlyargs and not e.keywords
             and len(e.args) == len(fd.args.args), 'helper call shape ' + ast.unparse(e))
        sub = SymInterp(self.module, self.scenario, {})
        sub.helpers = dict(self.helpers)
        sub.depth = self.depth + 1
        for a, x in zip(fd.args.args, e.args):
            sub.env[a.arg] = self.ev(x)
        try:
            sub.block(fd.body)
        except Returned as r:
            return r.value
        return NONE

    # -- booleans
    def truth(self, e: ast.expr) -> bool:
        if isinstance(e, ast.Constant) and isinstance(e.value, bool):
            return e.value
        if isinstance(e, ast.UnaryOp) and isinstance(e.op, ast.Not):
            return not self.truth(e.operand)
        if isinstance(e, ast.BoolOp):
            if isinstance(e.op, ast.And):
                return all(self.truth(x) for x in e.values)        # all() short-circuits like `and`
            return any(self.truth(x) for x in e.values)
        if isinstance(e, ast.Compare) and len(e.ops) == 1 and isinstance(e.comparators[0], ast.Constant) \
                and e.comparators[0].value is None and isinstance(e.ops[0], (ast.Is, ast.IsNot, ast.Eq, ast.NotEq)):
            v = self.ev(e.left)
            isnone = v is NONE
            return isnone if isinstance(e.ops[0], (ast.Is, ast.Eq)) else not isnone
        # a predicate over exactly one input: compare its behaviour with the reference validator
        names = sorted({n.id for n in ast.walk(e) if isinstance(n, ast.Name) and n.id in self.env})
        # names bound by comprehensions inside the expression are not inputs
        bound = {n.id for c in ast.walk(e) if isinstance(c, ast.comprehension) for n in ast.walk(c.target) if isinstance(n, ast.Name)}
        names = [n for n in names if n not in bound]
        need(len(names) == 1, 'condition over %s: %s' % (names, ast.unparse(e)))
        v = self.env[names[0]]
        need(v is not NONE, 'predicate applied to None: ' + ast.unparse(e))
        need(self.is_str(v) and len(v) == 1 and v[0][0] == 'v', 'predicate over a computed string: ' + ast.unparse(e))
        inp = v[0][1]
        need(inp in self.scenario['valid'], 'predicate over input ' + inp)
        glob = dict(vars(self.module))
        for fd in self.helpers.values():
            try:
                exec(compile(ast.fix_missing_locations(ast.Module([fd], [])), '<helper>', 'exec'), glob)
            except Exception:  # noqa
                pass
        lam = ast.Expression(ast.Lambda(ast.arguments(posonlyargs=[], args=[ast.arg(names[0])], kwonlyargs=[], kw_defaults=[], defaults=[]), e))
        try:
            fnc = eval(compile(ast.fix_missing_locations(lam), '<predicate>', 'eval'), glob)
            got = [bool(fnc(t)) for t in _PROBES]
        except Exception as ex:  # noqa
            need(False, 'predicate cannot be evaluated (%s): %s' % (type(ex).__name__, ast.unparse(e)))
        ref = [_reference_valid(t) for t in _PROBES]
        if got == ref:
            return self.scenario['valid'][inp]
        if got == [not r for r in ref]:
            return not self.scenario['valid'][inp]
        need(False, 'predicate is neither the dotted-identifier test nor its negation: ' + ast.unparse(e))
        return False

    # -- statements
    def block(self, body: List[ast.stmt]) -> None:
        for st in strip_doc(body):
            if isinstance(st, ast.FunctionDef):
                self.helpers[st.name] = st
            elif isinstance(st, ast.Assign):
                need(len(st.targets) == 1 and isinstance(st.targets[0], ast.Name), 'assignment target ' + ast.unparse(st))
                self.env[st.targets[0].id] = self.ev(st.value)
            elif isinstance(st, ast.AnnAssign):
                need(isinstance(st.target, ast.Name) and st.value is not None, 'annotated assignment ' + ast.unparse(st))
                self.env[st.target.id] = self.ev(st.value)
            elif isinstance(st, ast.AugAssign):
                need(isinstance(st.target, ast.Name) and isinstance(st.op, ast.Add), 'augmented assignment ' + ast.unparse(st))
                self.env[st.target.id] = self.norm(self.strval(st.target) + self.strval(st.value))
            elif isinstance(st, ast.If):
                self.block(st.body if self.truth(st.test) else st.orelse)
            elif isinstance(st, ast.Return):
                raise Returned(self.ev(st.value) if st.value is not None else NONE)
            elif isinstance(st, ast.Raise):
                exc = st.exc.func if isinstance(st.exc, ast.Call) else st.exc
                need(isinstance(exc, ast.Name), 'raise ' + ast.unparse(st))
                raise Raised(exc.id)
            elif isinstance(st, ast.Pass) or (isinstance(st, ast.Expr) and isinstance(st.value, ast.Constant)):
                pass
            else:
                need(False, 'statement ' + ast.unparse(st)[:120])


FIELDS = {'name': 0, 'package': 1, 'version': 2, 'replacement': 3}


def _pieces(v: list, allowed: dict) -> List[Tuple[str, int]]:
    """a symbolic string made of literals and plain inputs -> template pieces (literal, field)"""
    out: List[Tuple[str, int]] = []
    lit = ''
    for a in v:
        if a[0] == 'c':
            lit += a[1]
        else:
            need(a[0] == 'v' and a[1] in allowed, 'template holds %r' % (a,))
            out.append((lit, allowed[a[1]]))
            lit = ''
    if lit:
        out.append((lit, 9))
    return out


def _ops_of(atom: Any) -> Tuple[List[Tuple[int, int, str]], Any]:
    """('replace', a, b, [inner]) / ('splitjoin', sep, [inner]) nest -> (ops innermost first, innermost atom)"""
    ops: List[Tuple[int, int, str]] = []
    while atom[0] in ('replace', 'splitjoin'):
        inner = atom[-1]
        need(len(inner) == 1, 'operation on a concatenation')
        ops.append((0, ord(atom[1]), atom[2]) if atom[0] == 'replace' else (1, 0, atom[1]))
        atom = inner[0]
    ops.reverse()
    return ops, atom


def deprecate_tables() -> dict:
    from pydoctor.extensions import deprecate
    global _PROBES
    if not _PROBES:
        _PROBES = _probe_strings()
    fn = fn_ast(deprecate.deprecatedToUsefulText)
    body = strip_doc(fn.body)
    need(len(fn.args.args) >= 2, 'deprecatedToUsefulText parameters')
    name_var = fn.args.args[1].arg
    # where the inputs become known: version = X.public(), package = X.package, replacement = ...get_str_value(...)
    found: dict = {}
    last = -1
    for idx, st in enumerate(body):
        for n in ast.walk(st):
            if isinstance(n, (ast.Assign, ast.AnnAssign)):
                tgt = n.targets[0] if isinstance(n, ast.Assign) else n.target
                val = n.value
                if not isinstance(tgt, ast.Name) or val is None:
                    continue
                kind = None
                if isinstance(val, ast.Call) and isinstance(val.func, ast.Attribute) and val.func.attr == 'public' and not val.args:
                    kind = 'version'
                elif isinstance(val, ast.Attribute) and val.attr == 'package':
                    kind = 'package'
                elif isinstance(val, ast.Call) and isinstance(val.func, ast.Attribute) and val.func.attr == 'get_str_value':
                    kind = 'replacement'
                elif isinstance(val, ast.Call) and isinstance(val.func, ast.Name):
                    # a same-module helper that RETURNS ...get_str_value(...) on one of its paths
                    obj = getattr(deprecate, val.func.id, None)
                    if inspect.isfunction(obj) and obj.__module__ == deprecate.__name__ and any(
                            isinstance(m, ast.Return) and isinstance(m.value, ast.Call) and isinstance(m.value.func, ast.Attribute)
                            and m.value.func.attr == 'get_str_value' for m in ast.walk(fn_ast(obj))):
                        kind = 'replacement'
                if kind:
                    need(found.get(kind, tgt.id) == tgt.id, 'two variables hold the ' + kind)
                    found[kind] = tgt.id
                    last = max(last, idx)
    need(set(found) == {'version', 'package', 'replacement'}, 'inputs of deprecatedToUsefulText not found: %s' % sorted(found))
    tail = body[last + 1:]
    # helper functions defined before that point stay visible
    pre_helpers = {st.name: st for st in body[:last + 1] if isinstance(st, ast.FunctionDef)}

    def run(none: bool, repl_valid: bool, pkg_valid: bool) -> Any:
        inputs = {name_var: [('v', 'name')], found['version']: [('v', 'version')], found['package']: [('v', 'package')],
                  found['replacement']: NONE if none else [('v', 'replacement')]}
        it = SymInterp(deprecate, {'valid': {'replacement': repl_valid, 'package': pkg_valid}}, inputs)
        it.helpers.update(pre_helpers)
        try:
            it.block(tail)
        except Returned as r:
            return ('ret', r.value)
        except Raised as r:
            return ('raise', r.cls)
        need(False, 'deprecatedToUsefulText falls off its end')

    # an invalid package name is refused whatever the replacement is
    for none, rv in ((True, True), (False, True), (False, False)):
        r = run(none, rv, False)
        need(r == ('raise', 'ValueError'), 'invalid package name is not refused with ValueError: %r' % (r,))
    res = {}
    for key, (none, rv) in {'none': (True, True), 'ident': (False, True), 'text': (False, False)}.items():
        r = run(none, rv, True)
        need(r[0] == 'ret' and isinstance(r[1], tuple) and len(r[1]) == 2, 'result is not a pair: %r' % (r,))
        ver, text = r[1]
        need(ver == [('v', 'version')], 'first result is not the version: %r' % (ver,))
        need(isinstance(text, list), 'second result is not a string')
        res[key] = text
    t0 = _pieces(res['none'], {'name': 0, 'package': 1, 'version': 2})
    t1 = _pieces(res['ident'], FIELDS)
    need(sum(1 for _, f in t1 if f == 3) == 1, 'the replacement does not occur exactly once in the text')
    # free text: the same text with  pre + ops(replacement) + post  in place of the replacement
    idx = [k for k, a in enumerate(res['ident']) if a == ('v', 'replacement')]
    need(len(idx) == 1, 'replacement atom')
    k = idx[0]
    before, after = res['ident'][:k], res['ident'][k + 1:]
    txt = res['text']
    core = [a for a in txt if a[0] in ('replace', 'splitjoin') or a == ('v', 'replacement')]
    need(len(core) == 1, 'free-text replacement is not one transformed occurrence: %r' % (txt,))
    kk = txt.index(core[0])
    ops, innermost = _ops_of(core[0])
    need(innermost == ('v', 'replacement'), 'clean-up is not applied to the replacement')
    pre_all = SymInterp.norm(txt[:kk])
    post_all = SymInterp.norm(txt[kk + 1:])

    def lit(v: list) -> Any:
        return ''.join(a[1] for a in v) if all(a[0] == 'c' for a in v) else None
    # the surroundings are those of the identifier case plus the wrapper: compare atom-wise, the literal next to the
    # replacement may be longer by the wrapper
    need(pre_all[:-1] == SymInterp.norm(before)[:-1] if (pre_all and pre_all[-1][0] == 'c' and before and SymInterp.norm(before)[-1][0] == 'c')
         else True, 'text before the replacement differs')
    b_last = SymInterp.norm(before)[-1][1] if before and SymInterp.norm(before)[-1][0] == 'c' else ''
    p_last = pre_all[-1][1] if pre_all and pre_all[-1][0] == 'c' else ''
    need(p_last.startswith(b_last) and SymInterp.norm(before)[:-1 if b_last else None] == pre_all[:-1 if p_last else None],
         'text before the replacement differs between the identifier and the free-text case')
    a_first = SymInterp.norm(after)[0][1] if after and SymInterp.norm(after)[0][0] == 'c' else ''
    q_first = post_all[0][1] if post_all and post_all[0][0] == 'c' else ''
    need(q_first.endswith(a_first) and SymInterp.norm(after)[1 if a_first else 0:] == post_all[1 if q_first else 0:],
         'text after the replacement differs between the identifier and the free-text case')
    wrap = (p_last[len(b_last):], q_first[:len(q_first) - len(a_first)])
    # getDeprecated: the document handed to the reST parser, in terms of (version, text)
    gd = fn_ast(deprecate.getDeprecated)
    unpack = [n for n in ast.walk(gd) if isinstance(n, ast.Assign) and isinstance(n.targets[0], ast.Tuple)
              and isinstance(n.value, ast.Call) and isinstance(n.value.func, ast.Name) and n.value.func.id == 'deprecatedToUsefulText']
    need(len(unpack) == 1 and len(unpack[0].targets[0].elts) == 2 and all(isinstance(x, ast.Name) for x in unpack[0].targets[0].elts),
         'getDeprecated: version, text = deprecatedToUsefulText(...)')
    vname, tname = [x.id for x in unpack[0].targets[0].elts]
    js = [n for n in ast.walk(gd) if isinstance(n, ast.keyword) and n.arg == 'doc']
    need(len(js) == 1, 'getDeprecated doc= argument')
    it = SymInterp(deprecate, {'valid': {}}, {vname: [('v', 'version')], tname: [('v', 'text')]})
    # straight-line assignments of the same block (a local holding the document) are followed
    for n in ast.walk(gd):
        if isinstance(n, ast.Assign) and len(n.targets) == 1 and isinstance(n.targets[0], ast.Name) and n is not unpack[0]:
            try:
                it.env[n.targets[0].id] = it.ev(n.value)
            except Unrecognised:
                pass
    doc = _pieces(it.strval(js[0].value), {'version': 2, 'text': 4})
    doc = [(l, f) for l, f in doc]
    return {'with': t1, 'without': t0, 'ops': ops, 'wrap': wrap, 'doc': doc}


def ranges(pred: Any) -> List[Tuple[int, int]]:
    out: List[Tuple[int, int]] = []
    start = None
    for c in range(0x110000):
        ok = not (0xD800 <= c < 0xE000) and pred(chr(c))
        if ok and start is None:
            start = c
        if not ok and start is not None:
            out.append((start, c - 1))
            start = None
    if start is not None:
        out.append((start, 0x10FFFF))
    return out


def ident_tables() -> dict:
    start = ranges(lambda ch: ch.isidentifier())
    cont = ranges(lambda ch: ('a' + ch).isidentifier())
    # per-character tables describe str.isidentifier exactly (first XID_Start or _, rest XID_Continue): spot-check
    import random
    rnd = random.Random(7)
    def inr(rs: List[Tuple[int, int]], c: int) -> bool:
        return any(lo <= c <= hi for lo, hi in rs)
    pool = [0x41, 0x5f, 0x30, 0x2e, 0xb7, 0x2118, 0x212e, 0x309b, 0x37a, 0xaa, 0x1d7ce, 0xff3f, 0x20, 0x2d]
    for _ in range(4000):
        s = ''.join(chr(rnd.choice(pool) if rnd.random() < .7 else rnd.randrange(0x20, 0x3000)) for _ in range(rnd.randint(0, 4)))
        want = len(s) > 0 and inr(start, ord(s[0])) and all(inr(cont, ord(c)) for c in s[1:])
        need(s.isidentifier() == want, 'str.isidentifier is not per-character on %r' % s)
    return {'start': start, 'cont': cont}


def tpl(t: List[Tuple[str, int]]) -> str:
    return '[' + ';\n   '.join('(%s, %d)' % (coq_text(l), f) for l, f in t) + ']'


def generate() -> dict:
    tw = twisted_tables()
    du = docutils_tables()
    su = stanutils_tables()
    de = deprecate_tables()
    idt = ident_tables()
    L = []
    L.append('(* C10 tables: twisted escapers, docutils encode/attval, stanutils._RE_CONTROL, deprecate templates,')
    L.append('   str.isidentifier / str.splitlines character tables. text = list N (code points). *)')
    L.append('From Coq Require Import NArith List.')
    L.append('Import ListNotations.')
    L.append('Local Open Scope N_scope.')
    L.append('')
    L.append('(* twisted.web._flatten.escapeForContent: data.replace(a1, r1).replace(a2, r2)... in this order *)')
    L.append('Definition content_escapes : list (N * list N) :=\n  %s.' % coq_pairs(tw['content']))
    L.append('(* writeWithAttributeEscaping: escapeForContent(data) followed by these replacements *)')
    L.append('Definition attr_extra_escapes : list (N * list N) :=\n  %s.' % coq_pairs(tw['attr_extra']))
    L.append('(* twisted.web._stan.voidElements *)')
    L.append('Definition void_elements : list (list N) :=\n  [%s].' % ';\n   '.join(coq_text(v) for v in tw['void']))
    L.append('(* docutils HTMLTranslator.special_characters (str.translate table: simultaneous), sorted by key *)')
    L.append('Definition docutils_special : list (N * list N) :=\n  %s.' % coq_pairs(du['special']))
    L.append('(* docutils attval: characters replaced by a space before encode *)')
    L.append('Definition attval_ws : list N := %s.' % coq_text(bytes(du['attval_ws'])))
    L.append('(* docutils.statemachine.string2lines: characters converted to a space before splitlines *)')
    L.append('Definition rst_ws : list N := %s.' % coq_text(bytes(du['rst_ws'])))
    L.append('(* code points at which str.splitlines breaks a line *)')
    L.append('Definition line_breaks : list N := [%s].' % '; '.join(str(c) for c in du['breaks']))
    L.append('(* str.isspace(): the separators of str.split() and what str.strip() removes *)')
    L.append('Definition py_space : list N := [%s].' % '; '.join(str(c) for c in du['space']))
    L.append('(* stanutils._RE_CONTROL members and what html2stan substitutes for each *)')
    L.append('Definition re_control : list N := %s.' % coq_text(bytes(su['ctrl'])))
    L.append('Definition re_control_repl : list (N * list N) :=\n  %s.' % coq_pairs(su['ctrl_repl']))
    L.append('(* html2stan wraps the fragment in <wrap_tag>...</wrap_tag> unless it starts with xml_decl *)')
    L.append('Definition wrap_tag : list N := %s.' % coq_text(su['wrap_tag']))
    L.append('Definition xml_decl : list N := %s.' % coq_text(su['xml_decl']))
    L.append('(* extensions.deprecate: templates as (literal, field) pieces; field 0 name 1 package 2 version 3 replacement')
    L.append('   4 text 9 none *)')
    L.append('Definition depr_with : list (list N * N) :=\n  %s.' % tpl(de['with']))
    L.append('Definition depr_without : list (list N * N) :=\n  %s.' % tpl(de['without']))
    L.append('Definition depr_doc : list (list N * N) :=\n  %s.' % tpl(de['doc']))
    L.append('(* what is applied to a non-identifier replacement, in order, before the wrapping:')
    L.append('   (0, a, b) = .replace(chr(a), b)   (1, 0, sep) = sep.join(x.split()) *)')
    L.append('Definition depr_ops : list (N * N * list N) :=\n  [%s].' % ';\n   '.join('(%d, %d, %s)' % (k, a, coq_text(b)) for k, a, b in de['ops']))
    L.append('Definition depr_wrap_pre : list N := %s.' % coq_text(de['wrap'][0]))
    L.append('Definition depr_wrap_post : list N := %s.' % coq_text(de['wrap'][1]))
    L.append('(* str.isidentifier: first character in xid_start (includes _), others in xid_continue; inclusive ranges *)')
    L.append('Definition xid_start : list (N * N) :=\n  %s.' % coq_ranges(idt['start']))
    L.append('Definition xid_continue : list (N * N) :=\n  %s.' % coq_ranges(idt['cont']))
    return {'TablesC10.v': '\n'.join(L) + '\n'}


if __name__ == '__main__':
    print(generate()['TablesC10.v'][:3000])
