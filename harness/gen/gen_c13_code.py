"""Translator A for C13: the BODY of pydoctor/qnmatch.py : translate(), translated statement by statement into the
deep-embedded language of Model/QnMatchIR.v.  Proofs/QnMatchIRProofs.v proves, for every pattern, that the
interpretation of THIS output is Model/QnMatch.v : translate; so a change to the control flow or to a constant of
translate() changes Gen/QnMatchCode.v and breaks that proof obligation, not only the sampled correspondence.

Fail-closed: any statement, expression, method or name outside the recognised shapes aborts the generation with
`unrecognised shape`.  Purely syntactic desugarings done here (no meaning is decided by the translator):
   a, b = x, y        ->  a = x; b = y          (only when x, y do not mention a, b)
   x += e             ->  x = x + e
   x: T = e           ->  x = e
   a < b < c          rejected;   elif -> nested if;   and/or of several operands -> nested binary and/or
   s.startswith(p)    ->  s.startswith(p, 0);   s.find(c) -> s.find(c, 0);   x not in t -> not (x in t)
   x = f(a) / l.append(f(a)) with f a module-level helper of the same module whose body is straight-line/if statements
                      ending in its only `return e`  ->  the helper inlined (parameters and locals renamed apart,
                      arguments first, `return e` -> assignment to a fresh local); nested at most 3 deep
Pinned (checked here up to inlining of single-use locals, not translated):
   _compile_pattern(pat)  returns  re.compile(translate(pat)).match
   qnmatch(name, pattern) returns  _compile_pattern(pattern)(name) is not None
The file also emits ROLES (which local is the pattern, the index, the length, the accumulator): they are hints for the
proof script only -- a wrong hint makes the proof fail, it cannot make a wrong program pass.
"""
import ast, inspect, textwrap
from pathlib import Path


class Bad(ValueError):
    pass


def bad(what, node=None):
    raise Bad('unrecognised shape: %s%s' % (what, (' at line %d: %s' % (node.lineno, ast.unparse(node)[:90])) if node is not None and hasattr(node, 'lineno') else ''))


def strip_doc(body):
    if body and isinstance(body[0], ast.Expr) and isinstance(body[0].value, ast.Constant) and isinstance(body[0].value.value, str):
        return body[1:]
    return body


def coq_text(s):
    return '(tx [%s])' % '; '.join(str(ord(c)) for c in s)


CMP = {ast.Eq: 'CEq', ast.NotEq: 'CNe', ast.Lt: 'CLt', ast.LtE: 'CLe', ast.Gt: 'CGt', ast.GtE: 'CGe'}


class Fn:
    def __init__(self, fn, re_names, tree=None):
        self.fn = fn
        self.re_names = re_names              # names bound to the module `re`
        self.tree = tree                      # the module: same-module helpers are inlined (see `inline`)
        self.vars = {}
        self.ren = [{}]                       # stack of renamings of the locals of the helpers being inlined
        self.ninl = 0
        a = fn.args
        if a.vararg or a.kwarg or a.kwonlyargs or a.posonlyargs or a.defaults or len(a.args) != 1:
            bad('parameter list of %s' % fn.name, fn)
        if fn.decorator_list:
            bad('%s is decorated' % fn.name, fn)
        self.param = a.args[0].arg
        self.var(self.param)

    def var(self, name):
        if name not in self.vars:
            self.vars[name] = len(self.vars)
        return self.vars[name]

    def local(self, name):
        """the caller-level name of a local (inside an inlined helper its locals are renamed apart)"""
        r = self.ren[-1]
        if len(self.ren) > 1:
            if name not in r:
                r[name] = '%s$%d$%s' % (r['$fn'], r['$k'], name)
            return r[name]
        return name

    def helper(self, e):
        """e is a call f(a1, ..., an) of a module-level, undecorated function of the same module whose body is
        straight-line/if statements ending in its only `return <expr>` -> that FunctionDef"""
        if not (isinstance(e, ast.Call) and isinstance(e.func, ast.Name) and not e.keywords and self.tree is not None):
            return None
        if self.local(e.func.id) in self.vars or e.func.id in ('len', 'translate', 'qnmatch', '_compile_pattern'):
            return None
        fs = [n for n in self.tree.body if isinstance(n, ast.FunctionDef) and n.name == e.func.id]
        if len(fs) != 1:
            return None
        h = fs[0]
        a = h.args
        if h.decorator_list or a.vararg or a.kwarg or a.kwonlyargs or a.posonlyargs or a.defaults or len(a.args) != len(e.args):
            bad('helper %s: decorators / parameter list' % h.name, h)
        body = strip_doc(h.body)
        rets = [n for n in ast.walk(h) if isinstance(n, ast.Return)]
        if not body or not isinstance(body[-1], ast.Return) or len(rets) != 1 or body[-1].value is None:
            bad('helper %s does not end in its only `return <expr>`' % h.name, h)
        if any(isinstance(n, (ast.While, ast.For, ast.FunctionDef, ast.Lambda, ast.Global, ast.Nonlocal)) for n in ast.walk(h) if n is not h):
            bad('helper %s is not straight-line' % h.name, h)
        return h

    def inline(self, call, h):
        """statements that compute h(args) into a fresh local; returns (statements, name of that local).
        Standard inlining: parameters and locals of the helper renamed apart, arguments evaluated first in the caller,
        the final `return e` becomes the assignment of e to the result local.  The helper cannot see the caller's locals
        and the language has no side effects other than assignments to locals, so this is the call's meaning."""
        if len(self.ren) > 3:
            bad('helpers nested too deep', call)
        self.ninl += 1
        args = [self.expr(a) for a in call.args]                      # in the caller's scope
        self.ren.append({'$fn': h.name, '$k': self.ninl})
        out = []
        for prm, a in zip(h.args.args, args):
            out.append('(SAssign %d %s)' % (self.var(self.local(prm.arg)), a))
        body = strip_doc(h.body)
        out.append(self.block(body[:-1]))
        res = self.local('$result')
        out.append('(SAssign %d %s)' % (self.var(res), self.expr(body[-1].value)))
        self.ren.pop()
        return [o for o in out if o != 'SSkip'], res

    # ---- expressions
    def strconst(self, e):
        return isinstance(e, ast.Constant) and isinstance(e.value, str)

    def expr(self, e):
        E = self.expr
        if isinstance(e, ast.Constant):
            if isinstance(e.value, bool) or e.value is None:
                bad('constant', e)
            if isinstance(e.value, int):
                return '(EInt (%d)%%Z)' % e.value
            if isinstance(e.value, str):
                return '(EStr %s)' % coq_text(e.value)
            bad('constant', e)
        if isinstance(e, ast.UnaryOp) and isinstance(e.op, ast.USub) and isinstance(e.operand, ast.Constant) \
                and type(e.operand.value) is int:
            return '(EInt (%d)%%Z)' % (-e.operand.value)
        if isinstance(e, ast.UnaryOp) and isinstance(e.op, ast.Not):
            return '(ENot %s)' % E(e.operand)
        if isinstance(e, ast.Name):
            n = self.local(e.id)
            if n not in self.vars:
                bad('name %r is not a local bound before' % e.id, e)
            return '(EVar %d)' % self.vars[n]
        if isinstance(e, ast.List) and not e.elts:
            return 'EEmptyList'
        if isinstance(e, ast.Subscript):
            s = e.slice
            if isinstance(s, ast.Slice):
                if s.step is not None:
                    bad('slice step', e)
                lo = '(Some %s)' % E(s.lower) if s.lower is not None else 'None'
                hi = '(Some %s)' % E(s.upper) if s.upper is not None else 'None'
                return '(ESlice %s %s %s)' % (E(e.value), lo, hi)
            if isinstance(s, ast.Tuple):
                bad('subscript', e)
            return '(EIndex %s %s)' % (E(e.value), E(s))
        if isinstance(e, ast.BinOp) and isinstance(e.op, ast.Add):
            return '(EAdd %s %s)' % (E(e.left), E(e.right))
        if isinstance(e, ast.BinOp) and isinstance(e.op, ast.Mod) and self.strconst(e.left):
            args = e.right.elts if isinstance(e.right, ast.Tuple) else [e.right]
            return '(EFormat %s [%s])' % (coq_text(e.left.value), '; '.join(E(a) for a in args))
        if isinstance(e, ast.BoolOp):
            op = 'EAnd' if isinstance(e.op, ast.And) else 'EOr'
            r = E(e.values[-1])
            for v in reversed(e.values[:-1]):
                r = '(%s %s %s)' % (op, E(v), r)
            return r
        if isinstance(e, ast.Compare):
            if len(e.ops) != 1:
                bad('chained comparison', e)
            op, rhs = e.ops[0], e.comparators[0]
            if type(op) in CMP:
                return '(ECmp %s %s %s)' % (CMP[type(op)], E(e.left), E(rhs))
            if isinstance(op, (ast.In, ast.NotIn)) and isinstance(rhs, (ast.Tuple, ast.List)) and all(self.strconst(x) for x in rhs.elts):
                r = '(EInConsts %s [%s])' % (E(e.left), '; '.join(coq_text(x.value) for x in rhs.elts))
                return r if isinstance(op, ast.In) else '(ENot %s)' % r
            bad('comparison', e)
        if isinstance(e, ast.Call) and not e.keywords:
            f = e.func
            if isinstance(f, ast.Name) and f.id == 'len' and 'len' not in self.vars and len(e.args) == 1:
                return '(ELen %s)' % E(e.args[0])
            if isinstance(f, ast.Attribute):
                if isinstance(f.value, ast.Name) and f.value.id in self.re_names and f.value.id not in self.vars \
                        and f.attr == 'escape' and len(e.args) == 1:
                    return '(EReEscape %s)' % E(e.args[0])
                if self.strconst(f.value) and f.attr == 'join' and len(e.args) == 1:
                    return '(EJoin %s %s)' % (coq_text(f.value.value), E(e.args[0]))
                if f.attr == 'replace' and len(e.args) == 2:
                    return '(EReplace %s %s %s)' % (E(f.value), E(e.args[0]), E(e.args[1]))
                if f.attr == 'startswith' and len(e.args) in (1, 2):
                    return '(EStartsWith %s %s %s)' % (E(f.value), E(e.args[0]), E(e.args[1]) if len(e.args) == 2 else '(EInt 0%Z)')
                if f.attr == 'find' and len(e.args) in (1, 2):
                    return '(EFind %s %s %s)' % (E(f.value), E(e.args[0]), E(e.args[1]) if len(e.args) == 2 else '(EInt 0%Z)')
            bad('call', e)
        bad('expression %s' % type(e).__name__, e)

    # ---- statements
    def seq(self, items):
        items = [i for i in items if i is not None]
        if not items:
            return 'SSkip'
        r = items[-1]
        for o in reversed(items[:-1]):
            r = '(SSeq %s %s)' % (o, r)
        return r

    def block(self, stmts):
        return self.seq([self.stmt(s) for s in stmts])

    def names_in(self, e):
        return {n.id for n in ast.walk(e) if isinstance(n, ast.Name)}

    def assign(self, target, value_text, node):
        if not isinstance(target, ast.Name):
            bad('assignment target', node)
        if target.id in ('len',) or target.id in self.re_names:
            bad('assignment shadows a builtin/module used by the translation', node)
        return '(SAssign %d %s)' % (self.var(self.local(target.id)), value_text)

    def stmt(self, s):
        if isinstance(s, ast.Pass):
            return None
        if isinstance(s, ast.Assign):
            if len(s.targets) != 1:
                bad('chained assignment', s)
            t = s.targets[0]
            if isinstance(t, ast.Tuple):
                if not (isinstance(s.value, ast.Tuple) and len(s.value.elts) == len(t.elts) and all(isinstance(x, ast.Name) for x in t.elts)):
                    bad('tuple assignment', s)
                tnames = {x.id for x in t.elts}
                if len(tnames) != len(t.elts) or any(self.names_in(v) & tnames for v in s.value.elts):
                    bad('tuple assignment whose right side mentions its targets', s)
                vals = [self.expr(v) for v in s.value.elts]          # all right sides first (none mentions a target)
                return self.seq([self.assign(x, v, s) for x, v in zip(t.elts, vals)])
            h = self.helper(s.value)
            if h is not None:
                pre, res = self.inline(s.value, h)
                return self.seq(pre + [self.assign(t, '(EVar %d)' % self.vars[res], s)])
            v = self.expr(s.value)
            return self.assign(t, v, s)
        if isinstance(s, ast.AnnAssign):
            if s.value is None:
                return None
            v = self.expr(s.value)
            return self.assign(s.target, v, s)
        if isinstance(s, ast.AugAssign):
            if not (isinstance(s.op, ast.Add) and isinstance(s.target, ast.Name)):
                bad('augmented assignment', s)
            v = '(EAdd %s %s)' % (self.expr(ast.Name(id=s.target.id, ctx=ast.Load())), self.expr(s.value))
            return self.assign(s.target, v, s)
        if isinstance(s, ast.If):
            return '(SIf %s %s %s)' % (self.expr(s.test), self.block(s.body), self.block(s.orelse))
        if isinstance(s, ast.While):
            if s.orelse:
                bad('while ... else', s)
            return '(SWhile %s %s)' % (self.expr(s.test), self.block(s.body))
        if isinstance(s, ast.Return):
            if s.value is None:
                bad('return without a value', s)
            return '(SReturn %s)' % self.expr(s.value)
        if isinstance(s, ast.Expr) and isinstance(s.value, ast.Call):
            c = s.value
            if (isinstance(c.func, ast.Attribute) and c.func.attr == 'append' and isinstance(c.func.value, ast.Name)
                    and len(c.args) == 1 and not c.keywords and self.local(c.func.value.id) in self.vars):
                lst = self.vars[self.local(c.func.value.id)]
                h = self.helper(c.args[0])
                if h is not None:
                    pre, res = self.inline(c.args[0], h)
                    return self.seq(pre + ['(SAppend %d (EVar %d))' % (lst, self.vars[res])])
                return '(SAppend %d %s)' % (lst, self.expr(c.args[0]))
            bad('expression statement', s)
        bad('statement %s' % type(s).__name__, s)


def inline_locals(fn):
    """the returned expression of a straight-line function with every single-assignment local inlined"""
    body = strip_doc(fn.body)
    env = {}

    class Sub(ast.NodeTransformer):
        def visit_Name(self, n):
            return env.get(n.id, n)
    for s in body[:-1]:
        if not (isinstance(s, ast.Assign) and len(s.targets) == 1 and isinstance(s.targets[0], ast.Name)):
            bad('pinned function %s is not straight-line assignments + return' % fn.name, s)
        if s.targets[0].id in env:
            bad('pinned function %s assigns a local twice' % fn.name, s)
        env[s.targets[0].id] = Sub().visit(s.value)
    if not (body and isinstance(body[-1], ast.Return) and body[-1].value is not None):
        bad('pinned function %s does not end in return <expr>' % fn.name, fn)
    return ast.unparse(Sub().visit(body[-1].value))


def find_fn(tree, name):
    fs = [n for n in tree.body if isinstance(n, ast.FunctionDef) and n.name == name]
    if len(fs) != 1:
        bad('function %s not found exactly once at module level' % name)
    return fs[0]


def pin(cond, what):
    if not cond:
        bad('pinned function changed: ' + what)


def generate() -> dict:
    from pydoctor import qnmatch
    src = Path(inspect.getsourcefile(qnmatch)).read_text()
    tree = ast.parse(src)
    re_names = set()
    for n in tree.body:
        if isinstance(n, ast.Import):
            for a in n.names:
                if a.name == 're':
                    re_names.add(a.asname or 're')
    if not re_names:
        bad('module re is not imported')
    for n in ast.walk(tree):          # nothing at module level may rebind the names the translation relies on
        if isinstance(n, (ast.FunctionDef, ast.ClassDef)) and n.name in re_names | {'len'}:
            bad('module rebinds %s' % n.name, n)

    # ---- pinned wrappers
    cp = find_fn(tree, '_compile_pattern')
    pin(len(cp.args.args) == 1, '_compile_pattern parameters')
    a = cp.args.args[0].arg
    pin(inline_locals(cp) in ['%s.compile(translate(%s)).match' % (r, a) for r in re_names], '_compile_pattern: ' + inline_locals(cp))
    qn = find_fn(tree, 'qnmatch')
    pin([x.arg for x in qn.args.args] == ['name', 'pattern'] and not qn.args.defaults and not qn.decorator_list, 'qnmatch parameters')
    pin(inline_locals(qn) == '_compile_pattern(pattern)(name) is not None', 'qnmatch: ' + inline_locals(qn))

    # ---- translate(): prelude; while <i> < <n>: body; return <ret>
    fn = find_fn(tree, 'translate')
    F = Fn(fn, re_names, tree)
    body = strip_doc(fn.body)
    whiles = [k for k, s in enumerate(body) if isinstance(s, ast.While)]
    if len(whiles) != 1 or whiles[0] != len(body) - 2 or not isinstance(body[-1], ast.Return):
        bad('translate() is not  <assignments>; while ...; return ...', fn)
    prelude = F.block(body[:-2])
    w = body[-2]
    if w.orelse:
        bad('while ... else', w)
    cond = F.expr(w.test)
    wbody = F.block(w.body)
    if body[-1].value is None:
        bad('return without a value', body[-1])
    ret = F.expr(body[-1].value)

    # ---- roles
    t = w.test
    if not (isinstance(t, ast.Compare) and len(t.ops) == 1 and isinstance(t.ops[0], ast.Lt) and isinstance(t.left, ast.Name)):
        bad('loop test is not  <index> < <length>', w)
    role_i = F.vars[t.left.id]
    r = t.comparators[0]
    if isinstance(r, ast.Name):
        role_n = 'Some %d' % F.vars[r.id]
    elif ast.unparse(r) == 'len(%s)' % F.param:
        role_n = 'None'
    else:
        bad('loop bound', w)
    rv = body[-1].value
    names = [n for n in ast.walk(rv) if isinstance(n, ast.Name) and n.id in F.vars]
    if len(names) != 1:
        bad('return expression does not mention exactly one local', body[-1])
    joined = any(isinstance(c, ast.Call) and isinstance(c.func, ast.Attribute) and c.func.attr == 'join'
                 and c.args and isinstance(c.args[0], ast.Name) and c.args[0].id == names[0].id for c in ast.walk(rv))
    role_acc = '%s %d' % ('AccList' if joined else 'AccStr', F.vars[names[0].id])

    def wrap(name, typ, text):
        return 'Definition %s : %s :=\n%s.' % (name, typ, textwrap.fill(text, 116, initial_indent='  ', subsequent_indent='  ',
                                                                         break_long_words=False, break_on_hyphens=False))
    lines = ['From Coq Require Import ZArith NArith List.', 'Import ListNotations.',
             'From PydoctorVerif Require Import Base.Sexp Model.QnMatchIR.', 'Local Open Scope N_scope.',
             'Local Notation tx := (fun l : list N => l).', '',
             '(* locals of translate(): %s *)' % ', '.join('%d = %s' % (i, n) for n, i in F.vars.items()),
             wrap('tr_prelude', 'stmt', prelude), wrap('tr_cond', 'expr', cond), wrap('tr_body', 'stmt', wbody),
             wrap('tr_ret', 'expr', ret), '',
             'Definition translate_code : func :=',
             '  {| f_param := %d; f_body := SSeq tr_prelude (SSeq (SWhile tr_cond tr_body) (SReturn tr_ret)) |}.' % F.vars[F.param], '',
             '(* roles of the locals: hints for Proofs/QnMatchIRProofs.v *)',
             'Definition tr_pat : var := %d.' % F.vars[F.param],
             'Definition tr_i : var := %d.' % role_i,
             'Definition tr_n : option var := %s.' % role_n,
             'Definition tr_acc : acc_role := %s.' % role_acc]
    return {'QnMatchCode.v': '\n'.join(lines) + '\n'}


if __name__ == '__main__':
    print(generate()['QnMatchCode.v'])
