"""Translator A for C19: the push / pop / `raise self.SkipNode()` sites of astbuilder.ModuleVistor, in lexical order.
Fail-closed: every method of ModuleVistor that calls builder.push*/_push or builder.pop*/_pop or raises a pruning
exception is listed; an unknown pruning exception name or a push/pop through an unrecognised receiver aborts."""
import ast, inspect
from pathlib import Path

PUSH = {'push', 'pushClass', 'pushFunction', '_push'}
POP = {'pop', 'popClass', 'popFunction', '_pop'}
PRUNE = {'SkipNode': 'EvSkipNode', 'SkipChildren': 'EvSkipChildren', 'SkipSiblings': 'EvSkipSiblings',
         'SkipDeparture': 'EvSkipDeparture'}

def generate() -> dict:
    from pydoctor import astbuilder
    src = Path(inspect.getsourcefile(astbuilder)).read_text()
    tree = ast.parse(src)
    cls = [n for n in tree.body if isinstance(n, ast.ClassDef) and n.name == 'ModuleVistor']
    if len(cls) != 1:
        raise ValueError('class ModuleVistor not found exactly once')
    sites = []
    for fn in cls[0].body:
        if not isinstance(fn, (ast.FunctionDef, ast.AsyncFunctionDef)):
            continue
        evs = []
        for node in ast.walk(fn):
            if isinstance(node, ast.Call) and isinstance(node.func, ast.Attribute):
                recv = ast.unparse(node.func.value)
                if node.func.attr in PUSH | POP:
                    if recv not in ('self.builder',):
                        raise ValueError('unrecognised shape: %s.%s in %s' % (recv, node.func.attr, fn.name))
                    evs.append((node.lineno, node.col_offset, 'EvPush' if node.func.attr in PUSH else 'EvPop'))
            if isinstance(node, ast.Raise) and node.exc is not None:
                e = node.exc.func if isinstance(node.exc, ast.Call) else node.exc
                if isinstance(e, ast.Attribute) and ast.unparse(e.value) == 'self' and e.attr.startswith('Skip'):
                    if e.attr not in PRUNE:
                        raise ValueError('unknown pruning exception %s in %s' % (e.attr, fn.name))
                    evs.append((node.lineno, node.col_offset, PRUNE[e.attr]))
        if evs:
            evs.sort()
            sites.append((fn.name, [k for _, _, k in evs]))
    if not sites:
        raise ValueError('no push/pop/prune site found in ModuleVistor')
    lines = ['From Coq Require Import List String.', 'Import ListNotations.',
             'From PydoctorVerif Require Import Model.BuilderStack.', '',
             '(* (method of astbuilder.ModuleVistor, its push / pop / raise-pruning sites in lexical order) *)',
             'Definition skip_sites : list (string * list site_ev) := [']
    lines.append(';\n'.join('  ("%s"%%string, [%s])' % (n, '; '.join(evs)) for n, evs in sites))
    lines.append('].')
    return {'SkipSites.v': '\n'.join(lines) + '\n'}

if __name__ == '__main__':
    print(generate()['SkipSites.v'])
