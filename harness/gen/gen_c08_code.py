"""Translator A for C08 (second part): the BODIES of pydoctor/epydoc2stan.py reportErrors / parse_docstring /
ensure_parsed_docstring / safe_to_stan, translated statement by statement into the deep-embedded language of
Model/DocFlowIR.v.  Proofs/DocFlowIRProofs.v proves, for every state, configuration, argument and oracle behaviour, that
interpreting THIS output is the hand-written model of Model/DocFlow.v (the one the C08 theorems are about); so a change to
the fallback / report-once logic of epydoc2stan.py (an `except` that no longer falls back to plain text, errors reported
against another object, the once-per-object test dropped, ...) changes Gen/DocFlowCode.v and breaks a proof obligation,
not only the sampled correspondence.

Fail-closed: any statement, expression, receiver or call outside the recognised shapes aborts the generation with
`unrecognised shape`.  Dropped without trace: `<obj>.system.msg(...)` with effect-free arguments, and assignments of
message strings to locals that are only used there."""
import ast, inspect, textwrap
from pathlib import Path

FMT_ID = {'epytext': 0, 'restructuredtext': 1, 'google': 2, 'numpy': 3, 'plaintext': 4}
SEC_ID = {'docstring': 0}
ECLS = {'ImportError': 'CImportError', 'ParseError': 'CParseError', 'Exception': 'CException'}
FUN_ID = {'reportErrors': 'F_REPORT_ERRORS', 'parse_docstring': 'F_PARSE_DOCSTRING'}
PLAINTEXT_PARSER = 'pydoctor.epydoc.markup.plaintext.parse_docstring'


class Bad(ValueError):
    pass


def bad(what, node=None):
    raise Bad('unrecognised shape: %s%s' % (what, (' at line %d: %s' % (node.lineno, ast.unparse(node)[:90])) if node is not None else ''))


def strip_doc(body):
    if body and isinstance(body[0], ast.Expr) and isinstance(body[0].value, ast.Constant) and isinstance(body[0].value.value, str):
        return body[1:]
    return body


def pure(e) -> bool:
    """message-building expressions: no effect on the modelled state"""
    for sub in ast.walk(e):
        if isinstance(sub, ast.Call):
            f = sub.func
            ok = (isinstance(f, ast.Name) and f.id in ('len', 'str', 'repr')) or \
                 (isinstance(f, ast.Attribute) and f.attr in ('descr', 'linenum', 'fullName', 'format', 'join'))
            if not ok:
                return False
        elif isinstance(sub, (ast.Await, ast.Yield, ast.YieldFrom, ast.NamedExpr, ast.Lambda)):
            return False
    return True


def is_message(e) -> bool:
    """an expression that can only be a string (f-string, % or + on string constants)"""
    if isinstance(e, ast.JoinedStr):
        return pure(e)
    if isinstance(e, ast.Constant) and isinstance(e.value, str) and e.value not in FMT_ID and e.value not in SEC_ID:
        return True
    if isinstance(e, ast.BinOp) and isinstance(e.op, (ast.Mod, ast.Add)):
        return (is_message(e.left) or is_message(e.right)) and pure(e)
    return False


class Module:
    def __init__(self, tree):
        self.tree = tree
        self.funcs = {n.name: n for n in tree.body if isinstance(n, ast.FunctionDef)}
        self.consts = {}
        for n in tree.body:
            if isinstance(n, ast.Assign) and len(n.targets) == 1 and isinstance(n.targets[0], ast.Name):
                self.consts[n.targets[0].id] = n.value

    def fmt_tuple(self, e):
        """a tuple/list/set of docformat names, literally or through a module-level constant"""
        if isinstance(e, ast.Name) and e.id in self.consts:
            e = self.consts[e.id]
        if isinstance(e, (ast.Tuple, ast.List, ast.Set)) and e.elts and all(
                isinstance(x, ast.Constant) and x.value in FMT_ID for x in e.elts):
            return [FMT_ID[x.value] for x in e.elts]
        return None

    def to_stan_error_helper_ok(self, name):
        """get_to_stan_error(e) must be `return ParseError(<message>, 0)`"""
        fn = self.funcs.get(name)
        if fn is None:
            return False
        body = strip_doc(fn.body)
        if len(body) != 1 or not isinstance(body[0], ast.Return):
            return False
        v = body[0].value
        return (isinstance(v, ast.Call) and isinstance(v.func, ast.Name) and v.func.id == 'ParseError' and len(v.args) == 2
                and not v.keywords and is_message(v.args[0]) and isinstance(v.args[1], ast.Constant) and v.args[1].value == 0)


class Subst(ast.NodeTransformer):
    """replace parameter names by argument expressions (used for one-expression-statement helpers)"""
    def __init__(self, m):
        self.m = m

    def visit_Name(self, n):
        return ast.copy_location(self.m[n.id], n) if n.id in self.m else n


class Fn:
    def __init__(self, mod, fn, tag):
        self.mod, self.fn, self.tag = mod, fn, tag
        self.vars = {}
        self.assigned = set()
        self.opaque = set()        # locals holding a message string (dropped)
        self.scopes = [{}]         # python name -> internal name; one scope per function being translated (inlining)
        self.inlining = []         # helpers being inlined (no recursion)
        self.ntemp = 0
        a = fn.args
        if a.vararg or a.kwarg or a.kwonlyargs or a.posonlyargs:
            bad('parameter list of %s' % fn.name, fn)
        self.params = [x.arg for x in a.args]
        for p in self.params:
            self.var(p)
            self.assigned.add(self.iname(p))

    def iname(self, name):
        """the internal (renamed-apart) name of a python local in the function being translated"""
        sc = self.scopes[-1]
        if name not in sc:
            sc[name] = name if len(self.scopes) == 1 else '%s__%s' % ('__'.join(self.inlining), name)
        return sc[name]

    def var(self, name):
        i = self.iname(name)
        if i not in self.vars:
            self.vars[i] = len(self.vars)
        return 'v_%s_%s' % (self.tag, i)

    def temp(self):
        self.ntemp += 1
        name = 'tmp%d_' % self.ntemp
        self.scopes[-1][name] = name if len(self.scopes) == 1 else '%s__%s' % ('__'.join(self.inlining), name)
        return name

    def bind(self, name):
        self.assigned.add(self.iname(name))

    def use(self, name, node):
        i = self.iname(name)
        if i in self.opaque:
            bad('a message string is used for something else than a message', node)
        if i not in self.assigned:
            bad('local %r read before it is bound' % name, node)
        return self.var(name)

    # ---- expressions -------------------------------------------------------------------------------------------
    def is_plaintext_parser(self, e):
        return isinstance(e, ast.Attribute) and ast.unparse(e) == PLAINTEXT_PARSER

    def obj(self, e, node):
        """an expression denoting a Documentable: a bound local / parameter"""
        if isinstance(e, ast.Name):
            return 'EVar %s' % self.use(e.id, node)
        bad('expected a local holding a Documentable', node)

    def expr(self, e):
        if isinstance(e, ast.Constant):
            if e.value is None:
                return 'EConst VNone'
            if e.value is True or e.value is False:
                return 'EConst (VBool %s)' % ('true' if e.value else 'false')
            if isinstance(e.value, str) and e.value in SEC_ID:
                return 'EConst (VSec %d)' % SEC_ID[e.value]
            if isinstance(e.value, str) and e.value in FMT_ID:
                return 'EConst (VFmt %d)' % FMT_ID[e.value]
            bad('constant', e)
        if isinstance(e, ast.Name):
            return 'EVar %s' % self.use(e.id, e)
        if isinstance(e, ast.List) and not e.elts:
            return 'EConst (VErrs [])'
        if isinstance(e, ast.List) and len(e.elts) == 1:
            c = e.elts[0]
            if (isinstance(c, ast.Call) and isinstance(c.func, ast.Name) and len(c.args) == 1 and not c.keywords
                    and isinstance(c.args[0], ast.Name) and self.mod.to_stan_error_helper_ok(c.func.id)):
                return 'EConst (VErrs [EToStanExc])'
            bad('list', e)
        if self.is_plaintext_parser(e):
            return 'EConst (VParser PFPlain)'
        if isinstance(e, ast.UnaryOp) and isinstance(e.op, ast.Not):
            return 'ENot (%s)' % self.expr(e.operand)
        if isinstance(e, ast.BoolOp):
            parts = [self.expr(v) for v in e.values]
            ctor = 'EAnd' if isinstance(e.op, ast.And) else 'EOr'
            r = parts[-1]
            for q in reversed(parts[:-1]):
                r = '%s (%s) (%s)' % (ctor, q, r)
            return r
        if isinstance(e, ast.IfExp):
            return 'EIfExp (%s) (%s) (%s)' % (self.expr(e.test), self.expr(e.body), self.expr(e.orelse))
        if isinstance(e, ast.Compare) and len(e.ops) == 1:
            op, l, r = e.ops[0], e.left, e.comparators[0]
            if isinstance(op, (ast.Is, ast.IsNot)) and isinstance(r, ast.Constant) and r.value is None:
                return '%s (%s)' % ('EIsNone' if isinstance(op, ast.Is) else 'EIsNotNone', self.expr(l))
            if isinstance(op, (ast.In, ast.NotIn)):
                fmts = self.mod.fmt_tuple(r)
                t = ('EInFmts (%s) [%s]' % (self.expr(l), '; '.join(str(x) for x in fmts))) if fmts is not None \
                    else 'EIn (%s) (%s)' % (self.expr(l), self.expr(r))
                return t if isinstance(op, ast.In) else 'ENot (%s)' % t
            bad('comparison', e)
        if isinstance(e, ast.Subscript) and isinstance(e.value, ast.Attribute) and e.value.attr == 'parse_errors' \
                and isinstance(e.value.value, ast.Attribute) and e.value.value.attr == 'system':
            self.obj(e.value.value.value, e)
            return 'EParseErrors (%s)' % self.expr(e.slice)
        if isinstance(e, ast.Attribute):
            if ast.unparse(e).endswith('.system.options.processtypes') and isinstance(e.value.value.value, ast.Name):
                self.obj(e.value.value.value, e)
                return 'EProcesstypes'
            if e.attr == 'parsed_docstring':
                return 'EParsedDocOf (%s)' % self.obj(e.value, e)
            if e.attr == 'parent':
                return 'EParentOf (%s)' % self.obj(e.value, e)
            bad('attribute', e)
        if isinstance(e, ast.Call) and not e.keywords:
            f = e.func
            if isinstance(f, ast.Attribute) and f.attr == 'fullName' and not e.args:
                return 'EFullName (%s)' % self.obj(f.value, e)
            if isinstance(f, ast.Name) and f.id == '_get_docformat' and len(e.args) == 1:
                return 'EGetDocformat (%s)' % self.obj(e.args[0], e)
            if isinstance(f, ast.Name) and f.id == 'processtypes' and len(e.args) == 1:
                return 'EWrapTypes (%s)' % self.expr(e.args[0])
            if isinstance(f, ast.Name) and f.id == 'isinstance' and len(e.args) == 2 and isinstance(e.args[1], ast.Name) \
                    and e.args[1].id in ECLS:
                return 'EIsInstance (%s) %s' % (self.expr(e.args[0]), ECLS[e.args[1].id])
        bad('expression', e)

    # ---- calls of the translated functions: positional + keyword arguments + defaults -> full argument list --------
    def resolve_call(self, c):
        callee = self.mod.funcs[c.func.id]
        names = [x.arg for x in callee.args.args]
        defaults = callee.args.defaults
        vals = {}
        if len(c.args) > len(names):
            bad('too many arguments', c)
        for n, a in zip(names, c.args):
            vals[n] = a
        for k in c.keywords:
            if k.arg is None or k.arg not in names or k.arg in vals:
                bad('keyword argument', c)
            vals[k.arg] = k.value
        for n, d in zip(names[len(names) - len(defaults):], defaults):
            vals.setdefault(n, d)
        if set(vals) != set(names):
            bad('missing argument', c)
        return '[%s]' % '; '.join(self.expr(vals[n]) for n in names)

    # ---- statements --------------------------------------------------------------------------------------------
    def block(self, stmts):
        out = [o for o in (self.stmt(s) for s in stmts) if o is not None]
        if not out:
            return 'SSkip'
        r = out[-1]
        for o in reversed(out[:-1]):
            r = 'SSeq (%s) (%s)' % (o, r)
        return r

    def branch(self, bodies):
        """translate alternative blocks; a local is bound afterwards only if every alternative binds it"""
        before = set(self.assigned)
        res, sets = [], []
        for b in bodies:
            self.assigned = set(before)
            res.append(self.block(b))
            sets.append(self.assigned)
        self.assigned = set.intersection(*sets) if sets else before
        return res

    def is_helper(self, f):
        """a same-module function that is neither translated as such nor one of the primitives: inlined"""
        return (isinstance(f, ast.Name) and f.id in self.mod.funcs and f.id not in FUN_ID
                and f.id not in ('_get_docformat', 'processtypes', 'get_parser_by_name', 'get_to_stan_error')
                and self.scopes[-1].get(f.id, f.id) not in self.assigned)

    def inline(self, result, call, node):
        """result = helper(args): the helper's body, its locals renamed apart; a parameter bound to a bare local of the
        caller that the helper never rebinds IS that local (same Python object: appends are seen by the caller)"""
        h = self.mod.funcs[call.func.id]
        if h.name in self.inlining or len(self.inlining) >= 3:
            bad('recursive helper', node)
        a = h.args
        if a.vararg or a.kwarg or a.kwonlyargs or a.posonlyargs or h.decorator_list:
            bad('parameter list of helper %s' % h.name, h)
        names = [p.arg for p in a.args]
        vals = {}
        if len(call.args) > len(names):
            bad('too many arguments', call)
        for n, v in zip(names, call.args):
            vals[n] = v
        for k in call.keywords:
            if k.arg is None or k.arg not in names or k.arg in vals:
                bad('keyword argument', call)
            vals[k.arg] = k.value
        for n, d in zip(names[len(names) - len(a.defaults):], a.defaults):
            vals.setdefault(n, d)
        if set(vals) != set(names):
            bad('missing argument', call)
        rebound = {t.id for sub in ast.walk(h) for t in ast.walk(sub)
                   if isinstance(t, ast.Name) and isinstance(t.ctx, (ast.Store, ast.Del))}
        pre, scope = [], {}
        for n in names:
            v = vals[n]
            if isinstance(v, ast.Name) and n not in rebound:
                self.use(v.id, node)
                scope[n] = self.iname(v.id)                  # alias
            else:
                scope[n] = None                              # evaluated in the caller's scope, bound below
                pre.append((n, self.expr(v) if not is_message(v) else None))
        self.inlining.append(h.name)
        self.scopes.append({k: v for k, v in scope.items() if v is not None})
        out = []
        for n, e in pre:
            if e is None:
                self.opaque.add(self.iname(n))
            else:
                out.append('SAssign %s (%s)' % (self.var(n), e))
                self.bind(n)
        body = self.block(strip_doc(h.body))
        self.scopes.pop()
        self.inlining.pop()
        x = self.var(result)
        r = 'SInline %s (%s)' % (x, body)
        for o in reversed(out):
            r = 'SSeq (%s) (%s)' % (o, r)
        return r

    def call_value(self, name, v, s):
        """x = <call>: the statement forms whose right-hand side is a primitive or a translated function"""
        f = v.func
        x = self.var(name)
        if isinstance(f, ast.Name) and f.id == 'get_parser_by_name' and len(v.args) == 2 and not v.keywords:
            self.obj(v.args[1], s)
            return 'SGetParser %s (%s)' % (x, self.expr(v.args[0]))
        if isinstance(f, ast.Name) and f.id in FUN_ID and f.id in self.mod.funcs:
            return 'SAssignCall %s %s %s' % (x, FUN_ID[f.id], self.resolve_call(v))
        if self.is_helper(f):
            return self.inline(name, v, s)
        if isinstance(f, ast.Attribute) and f.attr == 'to_stan' and len(v.args) == 1 and not v.keywords:
            return 'SToStan %s (%s)' % (x, self.expr(f.value))
        if (isinstance(f, ast.Name) or self.is_plaintext_parser(f)) and len(v.args) == 2 and not v.keywords \
                and isinstance(v.args[1], ast.Name):
            # a parser function applied to (doc, errs)
            return 'SCallParser %s (%s) (%s) %s' % (x, self.expr(f), self.expr(v.args[0]), self.use(v.args[1].id, s))
        if isinstance(f, ast.Name) and len(v.args) == 3 and not v.keywords:
            # fallback(errs, parsed_doc, ctx)
            self.expr(v.args[0]); self.expr(v.args[1])
            return 'SFallback %s (%s) (%s)' % (x, self.expr(f), self.obj(v.args[2], s))
        return None

    def stmt(self, s):
        if isinstance(s, ast.Pass):
            return None
        if isinstance(s, ast.Assert):
            return 'SAssert (%s)' % self.expr(s.test)
        if isinstance(s, ast.Return):
            if isinstance(s.value, ast.Call):
                t = self.temp()
                c = self.call_value(t, s.value, s)
                if c is not None:                            # return <call>  ==  tmp = <call>; return tmp
                    self.bind(t)
                    return 'SSeq (%s) (SReturn (EVar %s))' % (c, self.var(t))
            return 'SReturn (%s)' % (self.expr(s.value) if s.value is not None else 'EConst VNone')
        if isinstance(s, ast.If):
            c = self.expr(s.test)
            th, el = self.branch([s.body, s.orelse])
            return 'SIf (%s) (%s) (%s)' % (c, th, el)
        if isinstance(s, ast.Try):
            if s.orelse or s.finalbody or not s.handlers:
                bad('try with else/finally', s)
            before = set(self.assigned)
            body = self.block(s.body)
            after_body = self.assigned
            hs, sets = [], [after_body]
            for h in s.handlers:
                if not (isinstance(h.type, ast.Name) and h.type.id in ECLS):
                    bad('except clause', h)
                self.assigned = set(before)      # the body may have raised anywhere
                v = 'None'
                if h.name:
                    v = 'Some %s' % self.var(h.name)
                    self.bind(h.name)
                hb = self.block(h.body)
                if h.name:
                    self.assigned.discard(self.iname(h.name))
                sets.append(self.assigned)
                hs.append((ECLS[h.type.id], v, hb))
            self.assigned = set.intersection(*sets)
            r = 'HNil'
            for k, v, hb in reversed(hs):
                r = 'HCons %s (%s) (%s) (%s)' % (k, v, hb, r)
            return 'STry (%s) (%s)' % (body, r)
        if isinstance(s, ast.FunctionDef):
            # a local alias of the plaintext parser:  def f(a, b): return pydoctor.epydoc.markup.plaintext.parse_docstring(a, b)
            body = strip_doc(s.body)
            ps = [x.arg for x in s.args.args]
            if (len(body) == 1 and isinstance(body[0], ast.Return) and isinstance(body[0].value, ast.Call) and len(ps) == 2
                    and not s.args.defaults and not s.args.vararg and not s.args.kwarg and not s.decorator_list
                    and self.is_plaintext_parser(body[0].value.func) and not body[0].value.keywords
                    and [ast.unparse(a) for a in body[0].value.args] == ps):
                self.bind(s.name)
                return 'SAssign %s (EConst (VParser PFPlain))' % self.var(s.name)
            bad('nested function', s)
        if isinstance(s, ast.For):
            # for err in errs: obj.report('bad <section>: ' + err.descr(), lineno_offset=..., section=section)
            if s.orelse or not isinstance(s.target, ast.Name) or len(s.body) != 1:
                bad('for loop', s)
            b = s.body[0]
            if isinstance(b, ast.Expr) and isinstance(b.value, ast.Call) and self.is_helper(b.value.func) and not b.value.keywords:
                # a helper that is one expression statement: substitute the arguments for its parameters
                h = self.mod.funcs[b.value.func.id]
                hb = strip_doc(h.body)
                hp = [p.arg for p in h.args.args]
                if (len(hb) == 1 and isinstance(hb[0], ast.Expr) and len(hp) == len(b.value.args) and not h.args.defaults
                        and all(isinstance(x, ast.Name) for x in b.value.args)):
                    import copy
                    b = ast.fix_missing_locations(Subst(dict(zip(hp, b.value.args))).visit(copy.deepcopy(hb[0])))
            if not (isinstance(b, ast.Expr) and isinstance(b.value, ast.Call) and isinstance(b.value.func, ast.Attribute)
                    and b.value.func.attr == 'report' and len(b.value.args) == 1 and pure(b.value.args[0])):
                bad('for loop body', s)
            kws = {k.arg: k.value for k in b.value.keywords}
            if set(kws) - {'lineno_offset', 'section', 'thresh'} or 'section' not in kws \
                    or not all(pure(v) for v in kws.values()):
                bad('keywords of obj.report', b)
            if s.target.id not in [n.id for n in ast.walk(b.value.args[0]) if isinstance(n, ast.Name)]:
                bad('the reported message does not mention the error', b)
            return 'SReportEach (%s) (%s) (%s)' % (self.obj(b.value.func.value, b), self.expr(s.iter), self.expr(kws['section']))
        if isinstance(s, (ast.Assign, ast.AnnAssign)):
            tgt = s.targets[0] if isinstance(s, ast.Assign) and len(s.targets) == 1 else getattr(s, 'target', None)
            v = s.value
            if tgt is None or v is None:
                bad('assignment', s)
            if isinstance(tgt, ast.Tuple) and len(tgt.elts) == 2 and all(isinstance(t, ast.Name) for t in tgt.elts) \
                    and isinstance(v, ast.Call) and ast.unparse(v.func) == 'model.get_docstring' and len(v.args) == 1 and not v.keywords:
                o = self.obj(v.args[0], s)
                a, b = tgt.elts[0].id, tgt.elts[1].id
                self.bind(a); self.bind(b)
                return 'SGetDocstring %s %s (%s)' % (self.var(a), self.var(b), o)
            if isinstance(tgt, ast.Attribute) and tgt.attr == 'parsed_docstring':
                if isinstance(v, ast.Call):
                    t = self.temp()
                    c = self.call_value(t, v, s)
                    if c is not None:                        # o.parsed_docstring = <call>  ==  tmp = <call>; o.parsed_docstring = tmp
                        self.bind(t)
                        return 'SSeq (%s) (SSetParsedDoc (%s) (EVar %s))' % (c, self.obj(tgt.value, s), self.var(t))
                return 'SSetParsedDoc (%s) (%s)' % (self.obj(tgt.value, s), self.expr(v))
            if not isinstance(tgt, ast.Name):
                bad('assignment target', s)
            name = tgt.id
            if is_message(v):
                self.opaque.add(self.iname(name))
                return None
            self.opaque.discard(self.iname(name))
            out = self.call_value(name, v, s) if isinstance(v, ast.Call) else None
            if out is None:
                out = 'SAssign %s (%s)' % (self.var(name), self.expr(v))
            self.bind(name)
            return out
        if isinstance(s, ast.Expr) and isinstance(s.value, ast.Call):
            c, f = s.value, s.value.func
            if isinstance(f, ast.Name) and f.id in FUN_ID and f.id in self.mod.funcs:
                return 'SCall %s %s' % (FUN_ID[f.id], self.resolve_call(c))
            if self.is_helper(f):
                t = self.temp()
                r = self.inline(t, c, s)
                self.bind(t)
                return r
            if isinstance(f, ast.Attribute) and f.attr == 'msg' and isinstance(f.value, ast.Attribute) and f.value.attr == 'system':
                self.obj(f.value.value, s)
                if not all(pure(a) for a in c.args) or not all(pure(k.value) for k in c.keywords):
                    bad('arguments of a dropped call have effects', s)
                return None
            if isinstance(f, ast.Attribute) and f.attr == 'add' and isinstance(f.value, ast.Name) and len(c.args) == 1 and not c.keywords:
                return 'SSetAdd (%s) (%s)' % (self.expr(f.value), self.expr(c.args[0]))
            if isinstance(f, ast.Attribute) and f.attr == 'append' and isinstance(f.value, ast.Name) and len(c.args) == 1 and not c.keywords:
                a = c.args[0]
                if (isinstance(a, ast.Call) and isinstance(a.func, ast.Name) and a.func.id == 'ParseError' and len(a.args) == 2
                        and not a.keywords and is_message(a.args[0]) and isinstance(a.args[1], ast.Constant) and a.args[1].value == 1):
                    return 'SAppendExcError %s' % self.use(f.value.id, s)
            bad('call', s)
        bad('statement %s' % type(s).__name__, s)


TARGETS = [('reportErrors', 're', 'report_errors', ['obj', 'errs', 'section']),
           ('parse_docstring', 'pd', 'parse_docstring', ['obj', 'doc', 'source', 'markup', 'section']),
           ('ensure_parsed_docstring', 'en', 'ensure_parsed_docstring', ['obj']),
           ('safe_to_stan', 'st', 'safe_to_stan', ['parsed_doc', 'linker', 'ctx', 'fallback', 'report', 'section'])]


def generate() -> dict:
    from pydoctor import epydoc2stan
    tree = ast.parse(Path(inspect.getsourcefile(epydoc2stan)).read_text())
    mod = Module(tree)
    lines = ['From Coq Require Import NArith List.', 'Import ListNotations.',
             'From PydoctorVerif Require Import Base.Sexp Model.DocFlow Model.DocFlowIR.', 'Local Open Scope N_scope.', '']
    for pyname, tag, coqname, want_params in TARGETS:
        fn = mod.funcs.get(pyname)
        if fn is None:
            bad('function %s not found' % pyname)
        if fn.decorator_list:
            bad('decorated function', fn)
        m = Fn(mod, fn, tag)
        # the theorems pass the arguments by position: the parameter list is part of the meaning
        if m.params != want_params:
            bad('parameters of %s are %s, expected %s' % (pyname, m.params, want_params), fn)
        text = m.block(strip_doc(fn.body))
        lines.append('(* parameters and locals of %s *)' % pyname)
        for py, i in m.vars.items():
            lines.append('Definition v_%s_%s : var := %d.' % (tag, py, i))
        lines.append('Definition code_%s : stmt :=' % coqname)
        lines.append(textwrap.fill(text, 110, initial_indent='  ', subsequent_indent='  ', break_long_words=False) + '.')
        lines.append('')
    lines.append('Definition docflow_code : code :=')
    lines.append('  {| c_report_errors := code_report_errors; c_parse_docstring := code_parse_docstring;')
    lines.append('     c_ensure_parsed_docstring := code_ensure_parsed_docstring; c_safe_to_stan := code_safe_to_stan |}.')
    return {'DocFlowCode.v': '\n'.join(lines) + '\n'}


if __name__ == '__main__':
    print(generate()['DocFlowCode.v'])
