"""Translator A for C20: what pydoctor's option machinery says NOW.

Read from the live modules (PYTHONPATH=/repo):
  * pydoctor.options.get_parser()         -> option_table (dest, option strings, action class, type, choices,
                                             default, config-file keys as configargparse computes them)
  * pydoctor.options.CONFIG_SECTIONS / DEFAULT_CONFIG_FILES / PydoctorConfigParser (parser order, split flag)
  * pydoctor._configparser.parse_toml_section_name on every CONFIG_SECTIONS entry
  * pydoctor._configparser._QUOTED_STR_REGEX / _TRIPLE_QUOTED_STR_REGEX: the compiled patterns are parsed with
    re._parser.parse and translated into Model.ReDeriv.re terms (closed set of node kinds)
  * the character class \\s of `re` for str patterns (probed on every code point)

Fail-closed: every unrecognised shape raises Unrecognised, which makes gen_tables.py exit 1.
Output: Gen/TablesC20.v (definitions only)."""
from __future__ import annotations
import argparse
import re
from typing import Any, List, Tuple


class Unrecognised(Exception):
    pass


def need(cond: Any, what: str) -> None:
    if not cond:
        raise Unrecognised('unrecognised shape: ' + what)


def coq_text(s: str) -> str:
    return '[' + '; '.join(str(ord(c)) for c in s) + ']'


def coq_texts(l: List[str]) -> str:
    return '[' + '; '.join(coq_text(x) for x in l) + ']'


def comment_safe(s: str) -> str:
    return ''.join(c if (32 <= ord(c) < 127 and c not in '*()"') else '?' for c in s)


# ------------------------------------------------------------------------------------ regexes
def space_ranges() -> List[Tuple[int, int]]:
    pat = re.compile(r'\s')
    out: List[Tuple[int, int]] = []
    start = None
    for c in range(0x110000):
        m = pat.match(chr(c)) is not None
        if m and start is None:
            start = c
        if not m and start is not None:
            out.append((start, c - 1))
            start = None
    if start is not None:
        out.append((start, 0x10FFFF))
    need(out and out[0][0] == 9, r'\s does not start at TAB')
    return out


def translate_regex(rx: 're.Pattern[str]', name: str) -> List[str]:
    """One Coq term per top-level alternative.  Every alternative must be  ( ^ ... $ ) ."""
    P = re._parser          # type: ignore[attr-defined]
    K = re._constants       # type: ignore[attr-defined]
    need(isinstance(rx.pattern, str), name + ': not a str pattern')
    allowed = re.UNICODE | re.DOTALL
    need(rx.flags & ~allowed == 0, '%s: flags %r' % (name, rx.flags))
    dotall = bool(rx.flags & re.DOTALL)
    tree = P.parse(rx.pattern, rx.flags)
    spaces = space_ranges()

    def cls_item(op: Any, av: Any) -> List[str]:
        if op is K.LITERAL:
            return ['ILit %d' % av]
        if op is K.RANGE:
            return ['IRange %d %d' % (av[0], av[1])]
        if op is K.CATEGORY:
            need(av is K.CATEGORY_SPACE, '%s: category %r' % (name, av))
            return ['IRange %d %d' % r for r in spaces]
        raise Unrecognised('%s: set item %r' % (name, op))

    def one(op: Any, av: Any) -> str:
        if op is K.LITERAL:
            return 'Chr (CLit %d)' % av
        if op is K.NOT_LITERAL:
            return 'Chr (CNotLit %d)' % av
        if op is K.ANY:
            return 'Chr CAny' if dotall else 'Chr CAnyNoNl'
        if op is K.IN:
            items = list(av)
            neg = False
            if items and items[0][0] is K.NEGATE:
                neg = True
                items = items[1:]
            its: List[str] = []
            for o, a in items:
                its.extend(cls_item(o, a))
            return 'Chr (CIn %s [%s])' % ('true' if neg else 'false', '; '.join(its))
        if op is K.BRANCH:
            need(av[0] is None, name + ': branch with flags')
            return '(alt_of [%s])' % '; '.join(seq(b) for b in av[1])
        if op is K.SUBPATTERN:
            group, add_flags, del_flags, sub = av
            need(add_flags == 0 and del_flags == 0, name + ': inline flags')
            return seq(sub)
        if op is K.MAX_REPEAT:
            lo, hi, sub = av
            body = seq(sub)
            if (lo, hi) == (0, 1):
                return '(Opt %s)' % body
            if lo == 0 and hi is K.MAXREPEAT:
                return '(Star %s)' % body
            if lo == 1 and hi is K.MAXREPEAT:
                return '(Plus %s)' % body
            raise Unrecognised('%s: repeat {%r,%r}' % (name, lo, hi))
        raise Unrecognised('%s: node %r' % (name, op))

    def seq(sub: Any) -> str:
        parts = ['(%s)' % one(op, av) for op, av in sub]
        if len(parts) == 1:
            return parts[0]
        return '(seq_of [%s])' % '; '.join(parts)

    items = list(tree)
    need(len(items) == 1 and items[0][0] is K.BRANCH, name + ': top level is not an alternation')
    out = []
    for alt in items[0][1][1]:
        alt = list(alt)
        need(len(alt) == 1 and alt[0][0] is K.SUBPATTERN, name + ': alternative is not one group')
        sub = list(alt[0][1][3])
        need(len(sub) >= 3 and sub[0] == (K.AT, K.AT_BEGINNING) and sub[-1] == (K.AT, K.AT_END),
             name + ': alternative is not anchored ^...$')
        for op, av in sub[1:-1]:
            need(op is not K.AT, name + ': inner anchor')
        inner = ['(%s)' % one(op, av) for op, av in sub[1:-1]]
        # `$` (no MULTILINE) matches at the end and before one final LF
        out.append('(seq_of [%s; Opt (Chr (CLit 10))])' % '; '.join(inner))
    return out


# ------------------------------------------------------------------------------------ options
def translate_options() -> Tuple[str, int]:
    from pydoctor import options
    import configargparse
    parser = options.get_parser()
    need(parser.prefix_chars == '-', 'prefix_chars %r' % parser.prefix_chars)
    kinds = {
        argparse._StoreAction: 'KStore', argparse._StoreTrueAction: 'KStoreTrue',
        argparse._StoreFalseAction: 'KStoreFalse', argparse._AppendAction: 'KAppend',
        argparse._CountAction: 'KCount', argparse._HelpAction: 'KHelp', argparse._VersionAction: 'KVersion',
    }
    sentinels: List[Any] = []
    rows = []
    npos = 0
    for a in parser._actions:
        if not a.option_strings:
            # the positional SOURCEPATH: no config key, not part of the table
            need(a.dest == 'sourcepath' and a.nargs == '*' and a.default == []
                 and parser.get_possible_config_keys(a) == [], 'positional %r' % a.dest)
            npos += 1
            continue
        need(type(a) in kinds, 'action class %s of %s' % (type(a).__name__, a.dest))
        kind = kinds[type(a)]
        if kind in ('KStore', 'KAppend'):
            need(a.nargs is None, 'nargs %r of %s' % (a.nargs, a.dest))
        else:
            need(a.nargs == 0, 'nargs %r of %s' % (a.nargs, a.dest))
        need(a.const is None or kind in ('KStoreTrue', 'KStoreFalse'), 'const of %s' % a.dest)
        if a.type is None:
            ty = 'TyStr'
        elif a.type is int:
            ty = 'TyInt'
        else:
            raise Unrecognised('type %r of %s' % (a.type, a.dest))
        need(not (ty == 'TyInt' and kind != 'KStore'), 'typed non-store %s' % a.dest)
        choices = list(a.choices) if a.choices is not None else []
        need(all(isinstance(c, str) for c in choices), 'choices of %s' % a.dest)
        need(not (choices and (kind != 'KStore' or ty != 'TyStr')), 'choices on %s' % a.dest)
        d = a.default
        if d is None:
            dflt = 'DNone'
        elif d is argparse.SUPPRESS:
            dflt = 'DSuppress'
        elif isinstance(d, bool):
            dflt = 'DBool %s' % ('true' if d else 'false')
        elif isinstance(d, int):
            dflt = 'DInt (%d)%%Z' % d
        elif isinstance(d, str):
            dflt = 'DStr %s' % coq_text(d)
        elif isinstance(d, list):
            need(d == [], 'list default of %s' % a.dest)
            dflt = 'DEmptyList'
        elif type(d) is object:
            if not any(d is s for s in sentinels):
                sentinels.append(d)
            dflt = 'DSentinel %d' % [i for i, s in enumerate(sentinels) if s is d][0]
        else:
            raise Unrecognised('default %r of %s' % (d, a.dest))
        if ty == 'TyInt':
            need(isinstance(d, int), 'int option %s with default %r' % (a.dest, d))
        keys = parser.get_possible_config_keys(a)
        need(all(isinstance(k, str) for k in keys), 'keys of %s' % a.dest)
        is_cf = bool(getattr(a, 'is_config_file_arg', False))
        need(not getattr(a, 'is_write_out_config_file_arg', False), 'write-out arg %s' % a.dest)
        need(getattr(a, 'env_var', None) is None, 'env var on %s' % a.dest)
        rows.append(
            '  (* %s %s *)\n'
            '  {| o_dest := %s; o_strings := %s; o_kind := %s; o_type := %s;\n'
            '     o_choices := %s; o_default := %s;\n'
            '     o_keys := %s; o_is_config_file := %s |}'
            % (comment_safe(a.dest), comment_safe(' '.join(a.option_strings)), coq_text(a.dest),
               coq_texts(list(a.option_strings)), kind, ty, coq_texts(choices), dflt, coq_texts(keys),
               'true' if is_cf else 'false'))
    need(npos == 1, 'expected exactly one positional')
    need(set(configargparse.ACTION_TYPES_THAT_DONT_NEED_A_VALUE) >= {
        argparse._StoreTrueAction, argparse._StoreFalseAction, argparse._CountAction},
        'configargparse flag action classes')
    need(argparse._HelpAction not in configargparse.ACTION_TYPES_THAT_DONT_NEED_A_VALUE and
         argparse._VersionAction not in configargparse.ACTION_TYPES_THAT_DONT_NEED_A_VALUE,
         'help/version became flag classes for configargparse')
    need(parser._ignore_unknown_config_file_keys is False, 'ignore_unknown_config_file_keys')
    return 'Definition option_table : list opt := [\n' + ';\n'.join(rows) + '\n].\n', len(rows)


def generate() -> dict:
    from pydoctor import options, _configparser as C
    out = ['From Coq Require Import ZArith NArith List Bool.',
           'From PydoctorVerif Require Import Base.Sexp Model.ReDeriv Model.OptTypes.',
           'Import ListNotations.', 'Local Open Scope N_scope.', '']
    q = translate_regex(C._QUOTED_STR_REGEX, '_QUOTED_STR_REGEX')
    t = translate_regex(C._TRIPLE_QUOTED_STR_REGEX, '_TRIPLE_QUOTED_STR_REGEX')
    out.append('(* %s *)' % comment_safe(C._QUOTED_STR_REGEX.pattern))
    out.append('Definition quoted_re_alts : list re := [\n  %s\n].' % ';\n  '.join(q))
    out.append('Definition quoted_re : re := alt_of quoted_re_alts.')
    out.append('Definition triple_re_alts : list re := [\n  %s\n].' % ';\n  '.join(t))
    out.append('Definition triple_re : re := alt_of triple_re_alts.')
    out.append('')
    tab, n = translate_options()
    out.append(tab)
    need(isinstance(options.CONFIG_SECTIONS, list) and all(isinstance(s, str) for s in options.CONFIG_SECTIONS),
         'CONFIG_SECTIONS')
    out.append('Definition config_sections : list text := %s.' % coq_texts(options.CONFIG_SECTIONS))
    paths = [list(C.parse_toml_section_name(s)) for s in options.CONFIG_SECTIONS]
    out.append('Definition config_section_paths : list (list text) := [%s].'
               % '; '.join(coq_texts(p) for p in paths))
    out.append('Definition default_config_files : list text := %s.' % coq_texts(options.DEFAULT_CONFIG_FILES))
    comp = options.PydoctorConfigParser
    need(type(comp) is C.CompositeConfigParser and [type(p) for p in comp.parsers] ==
         [C.TomlConfigParser, C.IniConfigParser], 'PydoctorConfigParser is not Composite[Toml, Ini]')
    need(comp.parsers[0].sections == options.CONFIG_SECTIONS and comp.parsers[1].sections == options.CONFIG_SECTIONS,
         'parsers are not bound to CONFIG_SECTIONS')
    out.append('Definition ini_split_ml : bool := %s.' % ('true' if comp.parsers[1].split_ml_text_to_list else 'false'))
    p = options.get_parser()
    need(type(p._config_file_parser) is C.ValidatorParser and p._config_file_parser.config_parser is comp
         and p._config_file_parser.argument_parser is p, 'the parser is not wrapped in ValidatorParser')
    out.append('')
    return {'TablesC20.v': '\n'.join(out) + '\n'}
