"""Translator A for C06/C07: the BODIES of
     pydoctor/astbuilder.py  ModuleVistor._getCurrentModuleExports, ModuleVistor._handleReExport
     pydoctor/model.py       Documentable.reparent, Documentable._handle_reparenting_pre, Documentable._handle_reparenting_post
translated statement by statement into the deep-embedded language of Model/ReexportIR.v (-> Gen/ReexportCode.v).
Proofs/ReexportIRProofs.v proves, for every state and all arguments, that interpreting THIS output is
Model/Project.v's exports_of / handle_reexport / reparent / unregister / register (the functions the C06/C07 theorems are
about); so a change to the decision chain of _handleReExport (a guard dropped or reordered with a different meaning, the
wrong name tested against __all__, ...) or to the bookkeeping of reparent changes Gen/ReexportCode.v and breaks a proof
obligation (C06_code_* / C07_code_*), not only the sampled correspondence.

Fail-closed: any statement, expression, receiver or call outside the recognised shapes aborts the generation with
`unrecognised shape`.  Dropped (no effect on the modelled state), only when their arguments are side-effect free and refer
to bound names: <obj>.report(...), self.system.msg(...)."""
import ast, inspect, textwrap
from pathlib import Path


class Bad(ValueError):
    pass


def bad(what, node=None):
    raise Bad('unrecognised shape: %s%s' % (what, (' at line %d: %s' % (node.lineno, ast.unparse(node)[:100])) if node is not None else ''))


def strip_doc(body):
    if body and isinstance(body[0], ast.Expr) and isinstance(body[0].value, ast.Constant) and isinstance(body[0].value.value, str):
        return body[1:]
    return body


CLASSES = {'Module': 'CModule', 'CanContainImportsDocumentable': 'CScope'}


def class_name(e):
    """model.Module | Module | model.CanContainImportsDocumentable | CanContainImportsDocumentable"""
    if isinstance(e, ast.Attribute) and isinstance(e.value, ast.Name) and e.value.id == 'model' and e.attr in CLASSES:
        return CLASSES[e.attr]
    if isinstance(e, ast.Name) and e.id in CLASSES:
        return CLASSES[e.id]
    return None


def is_none(e):
    return isinstance(e, ast.Constant) and e.value is None


class Fn:
    def __init__(self, fn, tag, visitor):
        self.fn, self.tag = fn, tag
        self.visitor = visitor           # `self` is the ModuleVistor (not an object of the model)
        self.vars = {}
        self.assigned = set()
        a = fn.args
        if a.vararg or a.kwarg or a.kwonlyargs or a.posonlyargs or a.defaults:
            bad('parameter list of %s' % fn.name, fn)
        self.params = [x.arg for x in a.args]
        if not self.params or self.params[0] != 'self':
            bad('first parameter of %s' % fn.name, fn)
        for q in self.params[1:] if visitor else self.params:
            self.var(q)
            self.assigned.add(q)

    def var(self, name):
        # variables are emitted as numerals (parameters first, in the order of the signature, then locals in the order of
        # their first binding): the proofs never mention a local by name
        if name not in self.vars:
            self.vars[name] = len(self.vars)
        return str(self.vars[name])

    def use(self, name, node):
        if name == 'self' and self.visitor:
            bad('the visitor itself used as a value', node)
        if name not in self.assigned:
            bad('local %r read before it is bound' % name, node)
        return self.var(name)

    # ---- recognisers ---------------------------------------------------------------------------------------------
    def is_current(self, e):
        return (self.visitor and isinstance(e, ast.Attribute) and e.attr == 'current' and isinstance(e.value, ast.Attribute)
                and e.value.attr == 'builder' and isinstance(e.value.value, ast.Name) and e.value.value.id == 'self')

    def is_allobjects(self, e):
        """self.system.allobjects"""
        return (isinstance(e, ast.Attribute) and e.attr == 'allobjects' and isinstance(e.value, ast.Attribute)
                and e.value.attr == 'system' and isinstance(e.value.value, ast.Name) and e.value.value.id == 'self')

    def is_msg(self, f):
        return (isinstance(f, ast.Attribute) and f.attr == 'msg' and isinstance(f.value, ast.Attribute) and f.value.attr == 'system'
                and isinstance(f.value.value, ast.Name) and f.value.value.id == 'self')

    def pure(self, e, node):
        """argument expressions of the dropped calls: no effect on the modelled state, every name bound"""
        for sub in ast.walk(e):
            if isinstance(sub, ast.Call):
                f = sub.func
                ok = (isinstance(f, ast.Name) and f.id in ('len', 'str', 'repr')) or \
                     (isinstance(f, ast.Attribute) and f.attr in ('fullName', 'format', 'join') and not sub.keywords)
                if not ok:
                    bad('argument of a dropped call has a call with effects', node)
            elif isinstance(sub, (ast.Await, ast.Yield, ast.YieldFrom, ast.NamedExpr, ast.Lambda, ast.Subscript, ast.Starred,
                                  ast.ListComp, ast.SetComp, ast.DictComp, ast.GeneratorExp)):
                bad('argument of a dropped call', node)
            elif isinstance(sub, ast.Name) and isinstance(sub.ctx, ast.Load) and sub.id not in ('len', 'str', 'repr'):
                if sub.id == 'self':
                    continue
                self.use(sub.id, node)

    # ---- expressions ---------------------------------------------------------------------------------------------
    def expr(self, e):
        if isinstance(e, ast.Constant):
            if e.value is None:
                return 'EConst VNone'
            if e.value is True or e.value is False:
                return 'EConst (VBool %s)' % ('true' if e.value else 'false')
            bad('constant', e)
        if isinstance(e, (ast.List, ast.Tuple)) and not e.elts:
            return 'EConst (VNames [])'
        if self.is_current(e):
            return 'ECurrent'
        if isinstance(e, ast.Name):
            return 'EVar %s' % self.use(e.id, e)
        if isinstance(e, ast.Attribute):
            if e.attr == 'all':
                return 'EAll (%s)' % self.expr(e.value)
            if e.attr == 'parent':
                return 'EParent (%s)' % self.expr(e.value)
            if e.attr == 'name':
                return 'ENameOf (%s)' % self.expr(e.value)
            bad('attribute', e)
        if isinstance(e, ast.UnaryOp) and isinstance(e.op, ast.Not):
            return 'ENot (%s)' % self.expr(e.operand)
        if isinstance(e, ast.BoolOp):
            parts = [self.expr(v) for v in e.values]
            ctor = 'EAnd' if isinstance(e.op, ast.And) else 'EOr'
            r = parts[-1]
            for q in reversed(parts[:-1]):
                r = '%s (%s) (%s)' % (ctor, q, r)
            return r
        if isinstance(e, ast.Compare) and len(e.ops) == 1:
            op, l, r = e.ops[0], e.left, e.comparators[0]
            if isinstance(op, (ast.Is, ast.IsNot)) and is_none(r):
                t = 'EIsNone (%s)' % self.expr(l)
                return t if isinstance(op, ast.Is) else 'ENot (%s)' % t
            if isinstance(op, (ast.In, ast.NotIn)):
                t = 'EIn (%s) (%s)' % (self.expr(l), self.expr(r))
                return t if isinstance(op, ast.In) else 'ENot (%s)' % t
            bad('comparison', e)
        if isinstance(e, ast.Call) and not e.keywords:
            f = e.func
            if isinstance(f, ast.Name) and f.id == 'isinstance' and len(e.args) == 2 and class_name(e.args[1]):
                return 'EIsInstance (%s) %s' % (self.expr(e.args[0]), class_name(e.args[1]))
            if isinstance(f, ast.Attribute):
                if f.attr == 'fullName' and not e.args:
                    return 'EFullName (%s)' % self.expr(f.value)
                if f.attr == 'resolveName' and len(e.args) == 1:
                    return 'EResolveName (%s) (%s)' % (self.expr(f.value), self.expr(e.args[0]))
                if f.attr == 'get' and len(e.args) == 1 and isinstance(f.value, ast.Attribute) and f.value.attr == 'contents':
                    return 'EContentsGet (%s) (%s)' % (self.expr(f.value.value), self.expr(e.args[0]))
        bad('expression', e)

    # ---- statements ----------------------------------------------------------------------------------------------
    @staticmethod
    def always_returns(stmts):
        for s in stmts:
            if isinstance(s, (ast.Return, ast.Raise)):
                return True
            if isinstance(s, ast.If) and Fn.always_returns(s.body) and Fn.always_returns(s.orelse):
                return True
        return False

    def attr_target(self, t):
        """(<object expr>, attribute) for  <obj>.parent / .parentMod / .name  as an assignment target"""
        if isinstance(t, ast.Attribute) and t.attr in ('parent', 'parentMod', 'name') and isinstance(t.value, ast.Name):
            return t.value.id, t.attr
        return None

    def block(self, stmts):
        out = []
        i = 0
        while i < len(stmts):
            s = stmts[i]
            # adjacent assignments to .parent / .parentMod / .name of the same object whose right-hand sides are plain
            # bound names: one simultaneous update (the order among them does not matter)
            group = {}
            obj = None
            j = i
            while j < len(stmts):
                t = stmts[j]
                tg = None
                if isinstance(t, ast.Assign) and isinstance(t.value, ast.Name):
                    tg = [self.attr_target(x) for x in t.targets]
                elif isinstance(t, ast.AnnAssign) and t.value is not None and isinstance(t.value, ast.Name):
                    tg = [self.attr_target(t.target)]
                if not tg or any(x is None for x in tg) or (obj is not None and any(x[0] != obj for x in tg)):
                    break
                obj = tg[0][0]
                if any(x[0] != obj for x in tg):
                    break
                for _, a in tg:
                    if a in group:
                        bad('attribute assigned twice in a row', t)
                    group[a] = t.value.id
                j += 1
            if group:
                node = stmts[i]
                if 'parent' in group or 'parentMod' in group:
                    if group.get('parent') != group.get('parentMod'):
                        bad('.parent and .parentMod are not assigned the same value together', node)
                nm = 'Some (EVar %s)' % self.use(group['name'], node) if 'name' in group else 'None'
                pa = 'Some (EVar %s)' % self.use(group['parent'], node) if 'parent' in group else 'None'
                out.append('SSetNP (EVar %s) (%s) (%s)' % (self.use(obj, node), nm, pa))
                i = j
                continue
            o = self.stmt(s)
            if o is not None:
                out.append(o)
            i += 1
        if not out:
            return 'SSkip'
        r = out[-1]
        for o in reversed(out[:-1]):
            r = 'SSeq (%s) (%s)' % (o, r)
        return r

    def subscript(self, t):
        """d[k] as a target: ('contents'|'alias'|'reg', object expr or None, key expr)"""
        if not isinstance(t, ast.Subscript):
            return None
        k = t.slice
        d = t.value
        if self.is_allobjects(d):
            return 'reg', None, k
        if isinstance(d, ast.Attribute) and d.attr == 'contents':
            return 'contents', d.value, k
        if isinstance(d, ast.Attribute) and d.attr == '_localNameToFullName_map':
            return 'alias', d.value, k
        return None

    def stmt(self, s):
        if isinstance(s, ast.Pass):
            return None
        if isinstance(s, ast.Assert):
            return 'SAssert (%s)' % self.expr(s.test)
        if isinstance(s, ast.Return):
            return 'SReturn (%s)' % (self.expr(s.value) if s.value is not None else 'EConst VNone')
        if isinstance(s, ast.If):
            c = self.expr(s.test)
            before = set(self.assigned)
            th = self.block(s.body)
            a1 = self.assigned
            self.assigned = set(before)
            el = self.block(s.orelse)
            a2 = self.assigned
            if self.always_returns(s.body):
                self.assigned = a2
            elif self.always_returns(s.orelse):
                self.assigned = a1
            else:
                self.assigned = a1 & a2
            return 'SIf (%s) (%s) (%s)' % (c, th, el)
        if isinstance(s, ast.For):
            it = s.iter
            if s.orelse or not isinstance(s.target, ast.Name):
                bad('for loop', s)
            if not (isinstance(it, ast.Call) and not it.args and not it.keywords and isinstance(it.func, ast.Attribute)
                    and it.func.attr == 'values' and isinstance(it.func.value, ast.Attribute) and it.func.value.attr == 'contents'):
                bad('for loop: expected `for x in <obj>.contents.values():`', s)
            src = self.expr(it.func.value.value)
            x = self.var(s.target.id)
            before = set(self.assigned)
            self.assigned.add(s.target.id)
            body = self.block(s.body)
            self.assigned = before
            return 'SForContents (%s) %s (%s)' % (src, x, body)
        if isinstance(s, ast.Delete):
            if len(s.targets) != 1:
                bad('del', s)
            sub = self.subscript(s.targets[0])
            if sub is None:
                bad('del target', s)
            kind, obj, k = sub
            if kind == 'reg':
                return 'SDelReg (%s)' % self.expr(k)
            if kind == 'contents':
                return 'SDelContents (%s) (%s)' % (self.expr(obj), self.expr(k))
            bad('del target', s)
        if isinstance(s, (ast.Assign, ast.AnnAssign)):
            tgt = s.targets[0] if isinstance(s, ast.Assign) and len(s.targets) == 1 else getattr(s, 'target', None)
            v = s.value
            if tgt is None or v is None:
                bad('assignment', s)
            if isinstance(tgt, ast.Name):
                e = self.expr(v)
                out = 'SAssign %s (%s)' % (self.var(tgt.id), e)
                self.assigned.add(tgt.id)
                return out
            sub = self.subscript(tgt)
            if sub is not None:
                kind, obj, k = sub
                if kind == 'reg':
                    return 'SSetReg (%s) (%s)' % (self.expr(k), self.expr(v))
                if kind == 'contents':
                    return 'SSetContents (%s) (%s) (%s)' % (self.expr(obj), self.expr(k), self.expr(v))
                return 'SSetAlias (%s) (%s) (%s)' % (self.expr(obj), self.expr(k), self.expr(v))
            bad('assignment target', s)
        if isinstance(s, ast.Expr) and isinstance(s.value, ast.Call) and isinstance(s.value.func, ast.Attribute):
            c, f = s.value, s.value.func
            if f.attr in ('_handle_reparenting_pre', '_handle_reparenting_post') and not c.args and not c.keywords:
                return '%s (%s)' % ('SPre' if f.attr.endswith('pre') else 'SPost', self.expr(f.value))
            if f.attr == 'reparent' and len(c.args) == 2 and not c.keywords:
                return 'SReparent (%s) (%s) (%s)' % (self.expr(f.value), self.expr(c.args[0]), self.expr(c.args[1]))
            if (f.attr == 'report' and (self.is_current(f.value) or isinstance(f.value, ast.Name))) or self.is_msg(f):
                if isinstance(f.value, ast.Name):
                    self.use(f.value.id, s)
                for a in c.args:
                    self.pure(a, s)
                for k in c.keywords:
                    self.pure(k.value, s)
                return None
            bad('call', s)
        bad('statement %s' % type(s).__name__, s)


def find_method(tree, cls, name):
    cs = [n for n in tree.body if isinstance(n, ast.ClassDef) and n.name == cls]
    if len(cs) != 1:
        bad('class %s not found exactly once' % cls)
    fs = [n for n in cs[0].body if isinstance(n, ast.FunctionDef) and n.name == name]
    if len(fs) != 1:
        bad('method %s.%s not found exactly once' % (cls, name))
    return fs[0]


def generate() -> dict:
    from pydoctor import model, astbuilder
    t_ast = ast.parse(Path(inspect.getsourcefile(astbuilder)).read_text())
    t_mod = ast.parse(Path(inspect.getsourcefile(model)).read_text())
    spec = [
        ('exports', t_ast, 'ModuleVistor', '_getCurrentModuleExports', True, 1),
        ('handle', t_ast, 'ModuleVistor', '_handleReExport', True, 5),
        ('reparent', t_mod, 'Documentable', 'reparent', False, 3),
        ('pre', t_mod, 'Documentable', '_handle_reparenting_pre', False, 1),
        ('post', t_mod, 'Documentable', '_handle_reparenting_post', False, 1),
    ]
    lines = ['From Coq Require Import NArith List.', 'Import ListNotations.',
             'From PydoctorVerif Require Import Model.Project Model.ReexportIR.', 'Local Open Scope N_scope.', '']
    for tag, tree, cls, name, visitor, nparams in spec:
        fn = find_method(tree, cls, name)
        if fn.decorator_list:
            bad('decorated method %s' % name, fn)
        F = Fn(fn, tag, visitor)
        if len(F.params) != nparams:
            bad('number of parameters of %s.%s' % (cls, name), fn)
        text = F.block(strip_doc(fn.body))
        lines.append('(* %s.%s(%s): parameters first (in the order of the signature), then locals *)' % (cls, name, ', '.join(F.params)))
        lines.append('(* variables: %s *)' % ', '.join('%d = %s' % (i, py) for py, i in F.vars.items()))
        lines.append('Definition code_%s : stmt :=' % tag)
        lines.append(textwrap.fill(text, 110, initial_indent='  ', subsequent_indent='  ', break_long_words=False) + '.')
        lines.append('')
    lines.append('Definition reexport_code : code :=')
    lines.append('  {| c_exports := code_exports; c_handle := code_handle; c_reparent := code_reparent; c_pre := code_pre;')
    lines.append('     c_post := code_post |}.')
    return {'ReexportCode.v': '\n'.join(lines) + '\n'}


if __name__ == '__main__':
    print(generate()['ReexportCode.v'])
