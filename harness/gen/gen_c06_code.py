"""Translator A for C06/C07: the BODIES of
     pydoctor/astbuilder.py  ModuleVistor._getCurrentModuleExports, ModuleVistor._handleReExport
     pydoctor/model.py       Documentable.reparent, Documentable._handle_reparenting_pre, Documentable._handle_reparenting_post
translated statement by statement into the deep-embedded language of Model/ReexportIR.v (-> Gen/ReexportCode.v).
Proofs/ReexportIRProofs.v proves, for every state and all arguments, that interpreting THIS output is
Model/Project.v's exports_of / handle_reexport / reparent / unregister / register (the functions the C06/C07 theorems are
about); so a change to the decision chain of _handleReExport (a guard dropped or reordered with a different meaning, the
wrong name tested against __all__, ...) or to the bookkeeping of reparent changes Gen/ReexportCode.v and breaks a proof
obligation (C06_code_* / C07_code_*), not only the sampled correspondence.

Fail-closed: any statement, expression, receiver or call outside the recognised shapes aborts the generation with
`unrecognised shape`.  Dropped (no effect on the modelled state), only when their arguments are side-effect free and refer
to bound names: <obj>.report(...), self.system.msg(...).

Normalisations (each keeps the meaning; anything else is rejected):
  * `a, b = e1, e2` whose targets are fresh locals                     -> two assignments
  * `x if c else y`                                                   -> ECond
  * a local bound to <obj>.contents / <obj>._localNameToFullName_map / <x>.system.allobjects is a NAME for that dictionary:
    `d[k] = v` and `del d[k]` on it are the updates of the dictionary; no other use; neither local may be rebound
  * adjacent assignments to .name / .parent / .parentMod of one object  -> one simultaneous update
  * a call to a function of the same module, or to a method of the same class, whose body is in the language, is inlined
    (SBlock): parameters and locals become fresh variables; in expression position the call is hoisted in front of the
    statement when it is the whole right-hand side / return value / condition, possibly under `not`
  * `for x in _walk_with_members(e)` when the generator has exactly the text of the explicit-stack pre-order walk
    (up to the names of its locals) and the loop body only touches the registry                          -> SForSubtree"""
import ast, inspect, textwrap
from pathlib import Path


class Bad(ValueError):
    pass


def bad(what, node=None):
    raise Bad('unrecognised shape: %s%s' % (what, (' at line %d: %s' % (node.lineno, ast.unparse(node)[:100])) if node is not None else ''))


def strip_doc(body):
    if body and isinstance(body[0], ast.Expr) and isinstance(body[0].value, ast.Constant) and isinstance(body[0].value.value, str):
        return body[1:]
    return body


CLASSES = {'Module': 'CModule', 'CanContainImportsDocumentable': 'CScope'}


def class_name(e):
    """model.Module | Module | model.CanContainImportsDocumentable | CanContainImportsDocumentable"""
    if isinstance(e, ast.Attribute) and isinstance(e.value, ast.Name) and e.value.id == 'model' and e.attr in CLASSES:
        return CLASSES[e.attr]
    if isinstance(e, ast.Name) and e.id in CLASSES:
        return CLASSES[e.id]
    return None


def is_none(e):
    return isinstance(e, ast.Constant) and e.value is None


WALK_TEMPLATE = (
    "FunctionDef(args=[v0], body=[Assign(targets=[v1], value=List(elts=[v0])), While(test=v1, body=[Assign(targets=[v2], "
    "value=Call(func=Attribute(value=v1, attr='pop'), args=[])), Expr(value=Yield(value=v2)), Expr(value=Call(func=Attribute("
    "value=v1, attr='extend'), args=[Call(func=Name('reversed'), args=[Call(func=Name('list'), args=[Call(func=Attribute("
    "value=Attribute(value=v2, attr='contents'), attr='values'), args=[])])])]))], orelse=[])])")


def canon_walk(fn):
    """a canonical text of a function: parameters and locals renamed v0, v1, ... in order of appearance; docstring,
    annotations and comments ignored"""
    names = {}

    def nm(x):
        if x not in names:
            names[x] = 'v%d' % len(names)
        return names[x]

    def go(n):
        if isinstance(n, ast.FunctionDef):
            a = n.args
            if a.vararg or a.kwarg or a.kwonlyargs or a.posonlyargs or a.defaults or n.decorator_list:
                return '?'
            return 'FunctionDef(args=[%s], body=[%s])' % (', '.join(nm(x.arg) for x in a.args), ', '.join(go(x) for x in strip_doc(n.body)))
        if isinstance(n, ast.Assign):
            return 'Assign(targets=[%s], value=%s)' % (', '.join(go(t) for t in n.targets), go(n.value))
        if isinstance(n, ast.AnnAssign) and n.value is not None:
            return 'Assign(targets=[%s], value=%s)' % (go(n.target), go(n.value))
        if isinstance(n, ast.While):
            return 'While(test=%s, body=[%s], orelse=[%s])' % (go(n.test), ', '.join(go(x) for x in n.body), ', '.join(go(x) for x in n.orelse))
        if isinstance(n, ast.Expr):
            return 'Expr(value=%s)' % go(n.value)
        if isinstance(n, ast.Yield):
            return 'Yield(value=%s)' % (go(n.value) if n.value is not None else 'None')
        if isinstance(n, ast.Call) and not n.keywords:
            return 'Call(func=%s, args=[%s])' % (go(n.func), ', '.join(go(x) for x in n.args))
        if isinstance(n, ast.Attribute):
            return 'Attribute(value=%s, attr=%r)' % (go(n.value), n.attr)
        if isinstance(n, ast.List):
            return 'List(elts=[%s])' % ', '.join(go(x) for x in n.elts)
        if isinstance(n, ast.Name):
            return 'Name(%r)' % n.id if n.id in ('reversed', 'list') else nm(n.id)
        return '?'
    return go(fn)


class Fn:
    def __init__(self, fn, tag, visitor, tree=None, cls=None, parent=None):
        self.fn, self.tag = fn, tag
        self.visitor = visitor           # `self` is the ModuleVistor (not an object of the model)
        self.tree, self.cls = tree, cls  # where helpers are looked up: the module, the class of the method
        self.parent = parent             # the context this body is inlined into
        self.alloc = parent.alloc if parent is not None else [0]
        self.inlining = (parent.inlining if parent is not None else []) + [fn.name]
        self.vars = {}
        self.assigned = set()
        self.dict_alias = {}             # local -> ('contents' | 'alias', <object local>) | ('reg', None)
        self.frozen = set()              # locals that must not be rebound
        self.pre = []                    # hoisted statements of the statement being translated
        a = fn.args
        if a.vararg or a.kwarg or a.kwonlyargs or a.posonlyargs or a.defaults:
            bad('parameter list of %s' % fn.name, fn)
        self.params = [x.arg for x in a.args]
        if parent is None and (not self.params or self.params[0] != 'self'):
            bad('first parameter of %s' % fn.name, fn)
        self.depth = 0
        if parent is None:
            for q in self.params[1:] if visitor else self.params:
                self.var(q)
                self.assigned.add(q)

    def var(self, name):
        # variables are emitted as numerals (parameters first, in the order of the signature, then locals in the order of
        # their first binding): the proofs never mention a local by name
        if name not in self.vars:
            self.vars[name] = self.alloc[0]
            self.alloc[0] += 1
        return str(self.vars[name])

    def fresh(self):
        self.alloc[0] += 1
        return str(self.alloc[0] - 1)

    def bind(self, name, node):
        if name in self.frozen:
            bad('a local that names a dictionary (or the object it belongs to) is rebound', node)
        if name in self.dict_alias:
            del self.dict_alias[name]
        self.assigned.add(name)
        return self.var(name)

    def use(self, name, node):
        if name == 'self' and self.visitor:
            bad('the visitor itself used as a value', node)
        if name in self.dict_alias:
            bad('a local that names a dictionary is used as a value', node)
        if name not in self.assigned:
            bad('local %r read before it is bound' % name, node)
        return self.var(name)

    # ---- recognisers ---------------------------------------------------------------------------------------------
    def is_current(self, e):
        return (self.visitor and isinstance(e, ast.Attribute) and e.attr == 'current' and isinstance(e.value, ast.Attribute)
                and e.value.attr == 'builder' and isinstance(e.value.value, ast.Name) and e.value.value.id == 'self')

    def is_allobjects(self, e):
        """self.system.allobjects, <bound object local>.system.allobjects (one System), or a local that names it"""
        if isinstance(e, ast.Name) and self.dict_alias.get(e.id) == ('reg', None):
            return True
        if (isinstance(e, ast.Attribute) and e.attr == 'allobjects' and isinstance(e.value, ast.Attribute)
                and e.value.attr == 'system' and isinstance(e.value.value, ast.Name)):
            who = e.value.value.id
            if who == 'self':
                return True
            if who in self.assigned and who not in self.dict_alias:
                return True
        return False

    def is_msg(self, f):
        return (isinstance(f, ast.Attribute) and f.attr == 'msg' and isinstance(f.value, ast.Attribute) and f.value.attr == 'system'
                and isinstance(f.value.value, ast.Name) and f.value.value.id == 'self')

    def pure(self, e, node):
        """argument expressions of the dropped calls: no effect on the modelled state, every name bound"""
        for sub in ast.walk(e):
            if isinstance(sub, ast.Call):
                f = sub.func
                ok = (isinstance(f, ast.Name) and f.id in ('len', 'str', 'repr')) or \
                     (isinstance(f, ast.Attribute) and f.attr in ('fullName', 'format', 'join') and not sub.keywords)
                if not ok:
                    bad('argument of a dropped call has a call with effects', node)
            elif isinstance(sub, (ast.Await, ast.Yield, ast.YieldFrom, ast.NamedExpr, ast.Lambda, ast.Subscript, ast.Starred,
                                  ast.ListComp, ast.SetComp, ast.DictComp, ast.GeneratorExp)):
                bad('argument of a dropped call', node)
            elif isinstance(sub, ast.Name) and isinstance(sub.ctx, ast.Load) and sub.id not in ('len', 'str', 'repr'):
                if sub.id == 'self':
                    continue
                self.use(sub.id, node)

    # ---- expressions ---------------------------------------------------------------------------------------------
    def expr(self, e):
        if isinstance(e, ast.Constant):
            if e.value is None:
                return 'EConst VNone'
            if e.value is True or e.value is False:
                return 'EConst (VBool %s)' % ('true' if e.value else 'false')
            bad('constant', e)
        if isinstance(e, (ast.List, ast.Tuple)) and not e.elts:
            return 'EConst (VNames [])'
        if self.is_current(e):
            return 'ECurrent'
        if isinstance(e, ast.Name):
            return 'EVar %s' % self.use(e.id, e)
        if isinstance(e, ast.Attribute):
            if e.attr == 'all':
                return 'EAll (%s)' % self.expr(e.value)
            if e.attr == 'parent':
                return 'EParent (%s)' % self.expr(e.value)
            if e.attr == 'name':
                return 'ENameOf (%s)' % self.expr(e.value)
            bad('attribute', e)
        if isinstance(e, ast.UnaryOp) and isinstance(e.op, ast.Not):
            return 'ENot (%s)' % self.expr(e.operand)
        if isinstance(e, ast.BoolOp):
            parts = [self.expr(v) for v in e.values]
            ctor = 'EAnd' if isinstance(e.op, ast.And) else 'EOr'
            r = parts[-1]
            for q in reversed(parts[:-1]):
                r = '%s (%s) (%s)' % (ctor, q, r)
            return r
        if isinstance(e, ast.Compare) and len(e.ops) == 1:
            op, l, r = e.ops[0], e.left, e.comparators[0]
            if isinstance(op, (ast.Is, ast.IsNot)) and is_none(r):
                t = 'EIsNone (%s)' % self.expr(l)
                return t if isinstance(op, ast.Is) else 'ENot (%s)' % t
            if isinstance(op, (ast.In, ast.NotIn)):
                t = 'EIn (%s) (%s)' % (self.expr(l), self.expr(r))
                return t if isinstance(op, ast.In) else 'ENot (%s)' % t
            bad('comparison', e)
        if isinstance(e, ast.IfExp):
            return 'ECond (%s) (%s) (%s)' % (self.expr(e.test), self.expr(e.body), self.expr(e.orelse))
        if isinstance(e, ast.Call) and not e.keywords:
            f = e.func
            if isinstance(f, ast.Name) and f.id == 'isinstance' and len(e.args) == 2 and class_name(e.args[1]):
                return 'EIsInstance (%s) %s' % (self.expr(e.args[0]), class_name(e.args[1]))
            if isinstance(f, ast.Attribute):
                if f.attr == 'fullName' and not e.args:
                    return 'EFullName (%s)' % self.expr(f.value)
                if f.attr == 'resolveName' and len(e.args) == 1:
                    return 'EResolveName (%s) (%s)' % (self.expr(f.value), self.expr(e.args[0]))
                if f.attr == 'get' and len(e.args) == 1 and isinstance(f.value, ast.Attribute) and f.value.attr == 'contents':
                    return 'EContentsGet (%s) (%s)' % (self.expr(f.value.value), self.expr(e.args[0]))
        bad('expression', e)

    # ---- helpers of the same module / class, inlined ---------------------------------------------------------------
    PRIMITIVE_METHODS = ('reparent', '_handle_reparenting_pre', '_handle_reparenting_post', 'fullName', 'resolveName', 'report',
                         'msg', 'get', 'values')

    def helper(self, e):
        """(FunctionDef, is_method) when e is a call of a module-level function of this module or of a method of this
        class through `self`, that is not one of the primitives"""
        if not (isinstance(e, ast.Call) and not e.keywords and self.tree is not None):
            return None
        f = e.func
        if isinstance(f, ast.Name) and f.id not in ('isinstance', 'len', 'str', 'repr', 'list', 'reversed'):
            fs = [n for n in self.tree.body if isinstance(n, ast.FunctionDef) and n.name == f.id]
            if len(fs) == 1:
                return fs[0], False
        if isinstance(f, ast.Attribute) and isinstance(f.value, ast.Name) and f.value.id == 'self' and f.attr not in self.PRIMITIVE_METHODS \
                and self.cls is not None:
            fs = [n for n in self.cls.body if isinstance(n, ast.FunctionDef) and n.name == f.attr]
            if len(fs) == 1:
                return fs[0], True
        return None

    def inline(self, e, target):
        """the statement  target = <helper>(args)  (target None: the value is dropped)"""
        fn, is_method = self.helper(e)
        if fn.name in self.inlining or len(self.inlining) > 4:
            bad('recursive or too deeply nested helper', e)
        if fn.decorator_list:
            bad('decorated helper', fn)
        for sub in ast.walk(fn):
            if isinstance(sub, (ast.Yield, ast.YieldFrom, ast.Await, ast.Global, ast.Nonlocal, ast.FunctionDef)) and sub is not fn:
                bad('helper %s is not a plain function' % fn.name, e)
        child = Fn(fn, self.tag, self.visitor if is_method else False, self.tree, self.cls if is_method else None, parent=self)
        params = child.params
        if is_method:
            params = params[1:]
            if not self.visitor:
                child.vars['self'] = self.vars['self']
                child.assigned.add('self')
        elif params and params[0] == 'self':
            bad('module-level helper with a parameter called self', fn)
        if not is_method:
            child.params = ['self'] + params        # not used; keeps the shape
        if len(params) != len(e.args):
            bad('arity of helper %s' % fn.name, e)
        pre = []
        for q, a in zip(params, e.args):
            if isinstance(a, ast.Starred):
                bad('starred argument', e)
            ae = self.expr(a)
            pre.append('SAssign %s (%s)' % (child.var(q), ae))
            child.assigned.add(q)
        body = child.block(strip_doc(fn.body))
        for o in reversed(pre):
            body = 'SSeq (%s) (%s)' % (o, body)
        return 'SBlock (%s) (%s)' % ('Some %s' % target if target is not None else 'None', body)

    def top_expr(self, e):
        """an expression in a position from which a helper call can be hoisted in front of the statement"""
        if self.helper(e) is not None:
            t = self.fresh()
            self.pre.append(self.inline(e, t))
            return 'EVar %s' % t
        if isinstance(e, ast.UnaryOp) and isinstance(e.op, ast.Not) and self.helper(e.operand) is not None:
            return 'ENot (%s)' % self.top_expr(e.operand)
        return self.expr(e)

    # ---- statements ----------------------------------------------------------------------------------------------
    @staticmethod
    def always_returns(stmts):
        for s in stmts:
            if isinstance(s, (ast.Return, ast.Raise)):
                return True
            if isinstance(s, ast.If) and Fn.always_returns(s.body) and Fn.always_returns(s.orelse):
                return True
        return False

    def attr_target(self, t):
        """(<object expr>, attribute) for  <obj>.parent / .parentMod / .name  as an assignment target"""
        if isinstance(t, ast.Attribute) and t.attr in ('parent', 'parentMod', 'name') and isinstance(t.value, ast.Name):
            return t.value.id, t.attr
        return None

    def block(self, stmts):
        out = []
        i = 0
        while i < len(stmts):
            s = stmts[i]
            # adjacent assignments to .parent / .parentMod / .name of the same object whose right-hand sides are plain
            # bound names: one simultaneous update (the order among them does not matter)
            group = {}
            obj = None
            j = i
            while j < len(stmts):
                t = stmts[j]
                tg = None
                if isinstance(t, ast.Assign) and isinstance(t.value, ast.Name):
                    tg = [self.attr_target(x) for x in t.targets]
                elif isinstance(t, ast.AnnAssign) and t.value is not None and isinstance(t.value, ast.Name):
                    tg = [self.attr_target(t.target)]
                if not tg or any(x is None for x in tg) or (obj is not None and any(x[0] != obj for x in tg)):
                    break
                obj = tg[0][0]
                if any(x[0] != obj for x in tg):
                    break
                for _, a in tg:
                    if a in group:
                        bad('attribute assigned twice in a row', t)
                    group[a] = t.value.id
                j += 1
            if group:
                node = stmts[i]
                if 'parent' in group or 'parentMod' in group:
                    if group.get('parent') != group.get('parentMod'):
                        bad('.parent and .parentMod are not assigned the same value together', node)
                nm = 'Some (EVar %s)' % self.use(group['name'], node) if 'name' in group else 'None'
                pa = 'Some (EVar %s)' % self.use(group['parent'], node) if 'parent' in group else 'None'
                out.append('SSetNP (EVar %s) (%s) (%s)' % (self.use(obj, node), nm, pa))
                i = j
                continue
            outer = self.pre
            self.pre = []
            o = self.stmt(s)
            out.extend(self.pre)
            self.pre = outer
            if o is not None:
                out.append(o)
            i += 1
        if not out:
            return 'SSkip'
        r = out[-1]
        for o in reversed(out[:-1]):
            r = 'SSeq (%s) (%s)' % (o, r)
        return r

    def subscript(self, t):
        """d[k] as a target: ('contents'|'alias'|'reg', object expr or None, key expr)"""
        if not isinstance(t, ast.Subscript):
            return None
        k = t.slice
        d = t.value
        if self.is_allobjects(d):
            return 'reg', None, k
        if isinstance(d, ast.Name) and d.id in self.dict_alias:
            kind, obj = self.dict_alias[d.id]
            return kind, ast.Name(id=obj, ctx=ast.Load(), lineno=t.lineno, col_offset=0), k
        if isinstance(d, ast.Attribute) and d.attr == 'contents':
            return 'contents', d.value, k
        if isinstance(d, ast.Attribute) and d.attr == '_localNameToFullName_map':
            return 'alias', d.value, k
        return None

    def stmt(self, s):
        if isinstance(s, ast.Pass):
            return None
        if isinstance(s, ast.Assert):
            return 'SAssert (%s)' % self.expr(s.test)
        if isinstance(s, ast.Return):
            return 'SReturn (%s)' % (self.top_expr(s.value) if s.value is not None else 'EConst VNone')
        if isinstance(s, ast.If):
            c = self.top_expr(s.test)
            before = set(self.assigned)
            self.depth += 1
            th = self.block(s.body)
            a1 = self.assigned
            self.assigned = set(before)
            el = self.block(s.orelse)
            self.depth -= 1
            a2 = self.assigned
            if self.always_returns(s.body):
                self.assigned = a2
            elif self.always_returns(s.orelse):
                self.assigned = a1
            else:
                self.assigned = a1 & a2
            return 'SIf (%s) (%s) (%s)' % (c, th, el)
        if isinstance(s, ast.For):
            it = s.iter
            if s.orelse or not isinstance(s.target, ast.Name):
                bad('for loop', s)
            if (isinstance(it, ast.Call) and isinstance(it.func, ast.Name) and it.func.id == '_walk_with_members' and len(it.args) == 1
                    and not it.keywords and self.tree is not None):
                fs = [n for n in self.tree.body if isinstance(n, ast.FunctionDef) and n.name == '_walk_with_members']
                if len(fs) != 1 or canon_walk(fs[0]) != WALK_TEMPLATE:
                    bad('_walk_with_members is not the explicit-stack pre-order walk of `contents`', s)
                src = self.expr(it.args[0])
                x = self.bind(s.target.id, s)
                before = set(self.assigned)
                self.depth += 1
                body = self.block(s.body)
                self.depth -= 1
                self.assigned = before
                import re as _re
                if _re.search(r'SSetNP|SDelContents|SSetContents|SSetAlias|SReparent|SPre|SPost|SBlock|SFor|SReturn', body):
                    bad('body of a loop over _walk_with_members does more than touch the registry', s)
                return 'SForSubtree (%s) %s (%s)' % (src, x, body)
            if not (isinstance(it, ast.Call) and not it.args and not it.keywords and isinstance(it.func, ast.Attribute)
                    and it.func.attr == 'values' and isinstance(it.func.value, ast.Attribute) and it.func.value.attr == 'contents'):
                bad('for loop: expected `for x in <obj>.contents.values():`', s)
            src = self.expr(it.func.value.value)
            x = self.bind(s.target.id, s)
            before = set(self.assigned)
            self.depth += 1
            body = self.block(s.body)
            self.depth -= 1
            self.assigned = before
            return 'SForContents (%s) %s (%s)' % (src, x, body)
        if isinstance(s, ast.Delete):
            if len(s.targets) != 1:
                bad('del', s)
            sub = self.subscript(s.targets[0])
            if sub is None:
                bad('del target', s)
            kind, obj, k = sub
            if kind == 'reg':
                return 'SDelReg (%s)' % self.expr(k)
            if kind == 'contents':
                return 'SDelContents (%s) (%s)' % (self.expr(obj), self.expr(k))
            bad('del target', s)
        if isinstance(s, (ast.Assign, ast.AnnAssign)):
            tgt = s.targets[0] if isinstance(s, ast.Assign) and len(s.targets) == 1 else getattr(s, 'target', None)
            v = s.value
            if tgt is None or v is None:
                bad('assignment', s)
            if isinstance(tgt, ast.Tuple) and isinstance(v, ast.Tuple) and len(tgt.elts) == len(v.elts) \
                    and all(isinstance(t, ast.Name) for t in tgt.elts):
                names = [t.id for t in tgt.elts]
                for sub in ast.walk(v):
                    if isinstance(sub, ast.Name) and sub.id in names:
                        bad('parallel assignment whose right-hand side reads a target', s)
                if len(set(names)) != len(names):
                    bad('parallel assignment with a repeated target', s)
                es = [self.expr(x) for x in v.elts]
                outs = ['SAssign %s (%s)' % (self.bind(n, s), e) for n, e in zip(names, es)]
                r = outs[-1]
                for o in reversed(outs[:-1]):
                    r = 'SSeq (%s) (%s)' % (o, r)
                return r
            if isinstance(tgt, ast.Name):
                # a name for a dictionary
                kind = None
                if isinstance(v, ast.Attribute) and self.is_allobjects(v):
                    kind = ('reg', None)
                elif isinstance(v, ast.Attribute) and v.attr in ('contents', '_localNameToFullName_map') and isinstance(v.value, ast.Name):
                    self.use(v.value.id, s)
                    kind = ('contents' if v.attr == 'contents' else 'alias', v.value.id)
                if kind is not None:
                    if self.depth or tgt.id in self.assigned or tgt.id in self.vars:
                        bad('a name for a dictionary bound conditionally or re-using a local', s)
                    self.dict_alias[tgt.id] = kind
                    self.frozen.add(tgt.id)
                    if kind[1] is not None:
                        self.frozen.add(kind[1])
                    return None
                if self.helper(v) is not None:
                    x = self.var(tgt.id) if tgt.id not in self.frozen else self.bind(tgt.id, s)
                    out = self.inline(v, x)
                    self.bind(tgt.id, s)
                    return out
                e = self.expr(v)
                return 'SAssign %s (%s)' % (self.bind(tgt.id, s), e)
            sub = self.subscript(tgt)
            if sub is not None:
                kind, obj, k = sub
                if kind == 'reg':
                    return 'SSetReg (%s) (%s)' % (self.expr(k), self.expr(v))
                if kind == 'contents':
                    return 'SSetContents (%s) (%s) (%s)' % (self.expr(obj), self.expr(k), self.expr(v))
                return 'SSetAlias (%s) (%s) (%s)' % (self.expr(obj), self.expr(k), self.expr(v))
            bad('assignment target', s)
        if isinstance(s, ast.Expr) and isinstance(s.value, ast.Call) and isinstance(s.value.func, ast.Attribute):
            c, f = s.value, s.value.func
            if f.attr in ('_handle_reparenting_pre', '_handle_reparenting_post') and not c.args and not c.keywords:
                return '%s (%s)' % ('SPre' if f.attr.endswith('pre') else 'SPost', self.expr(f.value))
            if f.attr == 'reparent' and len(c.args) == 2 and not c.keywords:
                return 'SReparent (%s) (%s) (%s)' % (self.expr(f.value), self.expr(c.args[0]), self.expr(c.args[1]))
            if (f.attr == 'report' and (self.is_current(f.value) or isinstance(f.value, ast.Name))) or self.is_msg(f):
                if isinstance(f.value, ast.Name):
                    self.use(f.value.id, s)
                for a in c.args:
                    self.pure(a, s)
                for k in c.keywords:
                    self.pure(k.value, s)
                return None
        if isinstance(s, ast.Expr) and self.helper(s.value) is not None:
            return self.inline(s.value, None)
        if isinstance(s, ast.Expr) and isinstance(s.value, ast.Call):
            bad('call', s)
        bad('statement %s' % type(s).__name__, s)


def find_method(tree, cls, name):
    cs = [n for n in tree.body if isinstance(n, ast.ClassDef) and n.name == cls]
    if len(cs) != 1:
        bad('class %s not found exactly once' % cls)
    fs = [n for n in cs[0].body if isinstance(n, ast.FunctionDef) and n.name == name]
    if len(fs) != 1:
        bad('method %s.%s not found exactly once' % (cls, name))
    return fs[0]


def generate() -> dict:
    from pydoctor import model, astbuilder
    t_ast = ast.parse(Path(inspect.getsourcefile(astbuilder)).read_text())
    t_mod = ast.parse(Path(inspect.getsourcefile(model)).read_text())
    spec = [
        ('exports', t_ast, 'ModuleVistor', '_getCurrentModuleExports', True, 1),
        ('handle', t_ast, 'ModuleVistor', '_handleReExport', True, 5),
        ('reparent', t_mod, 'Documentable', 'reparent', False, 3),
        ('pre', t_mod, 'Documentable', '_handle_reparenting_pre', False, 1),
        ('post', t_mod, 'Documentable', '_handle_reparenting_post', False, 1),
    ]
    lines = ['From Coq Require Import NArith List.', 'Import ListNotations.',
             'From PydoctorVerif Require Import Model.Project Model.ReexportIR.', 'Local Open Scope N_scope.', '']
    for tag, tree, cls, name, visitor, nparams in spec:
        fn = find_method(tree, cls, name)
        if fn.decorator_list:
            bad('decorated method %s' % name, fn)
        cdef = [n for n in tree.body if isinstance(n, ast.ClassDef) and n.name == cls][0]
        F = Fn(fn, tag, visitor, tree, cdef)
        if len(F.params) != nparams:
            bad('number of parameters of %s.%s' % (cls, name), fn)
        text = F.block(strip_doc(fn.body))
        lines.append('(* %s.%s(%s): parameters first (in the order of the signature), then locals *)' % (cls, name, ', '.join(F.params)))
        lines.append('(* variables: %s; %d in all with those of inlined helpers *)' % (', '.join('%d = %s' % (i, py) for py, i in F.vars.items()), F.alloc[0]))
        lines.append('Definition code_%s : stmt :=' % tag)
        lines.append(textwrap.fill(text, 110, initial_indent='  ', subsequent_indent='  ', break_long_words=False) + '.')
        lines.append('')
    lines.append('Definition reexport_code : code :=')
    lines.append('  {| c_exports := code_exports; c_handle := code_handle; c_reparent := code_reparent; c_pre := code_pre;')
    lines.append('     c_post := code_post |}.')
    return {'ReexportCode.v': '\n'.join(lines) + '\n'}


if __name__ == '__main__':
    print(generate()['ReexportCode.v'])
