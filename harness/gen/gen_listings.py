"""Translator A for C11 / C12: the LISTING SKELETON of the template writer (DESIGN.md 2.3 A).

For a fixed list of listing / link producers the AST of the CURRENT /repo source is reduced to
    (iteration domain, is there an `isVisible` guard, is there a `' ' not in name` guard)
and for the markers / link builder to booleans (does css_class add `private`, does taglink drop the href of a
target that is not visible, ...).  The functions that Model/Site.v mirrors by hand (Documentable.url,
page_object, isVisible, isPrivate, Module.privacyClass) are PINNED: their normalised source (ast.unparse of the
body without docstring) must equal the text recorded here.

Fail-closed: a target that cannot be found, an iteration source or a guard atom outside the closed set of recognised
shapes, or a pinned function whose text changed raises ValueError('unrecognised shape ...') and the run is reported.

Output: Gen/Listings.v  (Definition table_now : table := {| ... |}) over the types of Model/SiteTable.v."""
from __future__ import annotations
import ast, importlib, inspect, os
from pathlib import Path
from typing import Any, Dict, List, Optional, Tuple

REPO = Path(os.environ.get('PYTHONPATH', '/repo').split(':')[0])


class Shape(ValueError):
    pass


def bad(msg: str, node: Optional[ast.AST] = None, where: str = '') -> Shape:
    loc = ' at %s:%s' % (where, getattr(node, 'lineno', '?')) if node is not None or where else ''
    return Shape('unrecognised shape: %s%s' % (msg, loc))


_trees: Dict[str, ast.Module] = {}


def tree_of(modname: str) -> ast.Module:
    if modname not in _trees:
        mod = importlib.import_module(modname)
        f = Path(inspect.getsourcefile(mod))
        if REPO not in f.resolve().parents:
            raise Shape('module %s is not loaded from %s but from %s' % (modname, REPO, f))
        _trees[modname] = ast.parse(f.read_text(encoding='utf-8'))
    return _trees[modname]


def find_def(modname: str, qualname: str) -> ast.FunctionDef:
    body: List[ast.stmt] = tree_of(modname).body
    node: Any = None
    for part in qualname.split('.'):
        node = None
        for st in body:
            if isinstance(st, (ast.FunctionDef, ast.AsyncFunctionDef, ast.ClassDef)) and st.name == part:
                node = st      # the last definition wins, as in Python
        if node is None:
            raise bad('%s.%s not found' % (modname, qualname))
        body = node.body
    if not isinstance(node, (ast.FunctionDef, ast.AsyncFunctionDef)):
        raise bad('%s.%s is not a function' % (modname, qualname))
    return node


def body_text(fn: ast.FunctionDef) -> str:
    body = fn.body
    if body and isinstance(body[0], ast.Expr) and isinstance(body[0].value, ast.Constant) and isinstance(body[0].value.value, str):
        body = body[1:]
    return ast.unparse(ast.Module(body=body, type_ignores=[]))


# ------------------------------------------------------------------------------- iteration domains
def domain_of(it: ast.expr, where: str) -> str:
    """Closed set of iteration sources."""
    s = ast.unparse(it)
    if isinstance(it, ast.Call) and isinstance(it.func, ast.Attribute) and it.func.attr == 'values' and not it.args:
        inner = it.func.value
        if isinstance(inner, ast.Attribute) and inner.attr == 'contents':
            return 'DContents'
        if isinstance(inner, ast.Attribute) and inner.attr == 'allobjects':
            return 'DAllobjects'
    if isinstance(it, ast.Attribute) and it.attr == 'rootobjects':
        return 'DRootobjects'
    if isinstance(it, ast.Attribute) and it.attr == 'subclasses':
        return 'DSubclasses'
    if isinstance(it, ast.Call) and isinstance(it.func, ast.Attribute) and it.func.attr == 'objectsOfType' \
            and len(it.args) == 1 and ast.unparse(it.args[0]) in ('model.Class', 'Class'):
        return 'DAllobjects'        # System.objectsOfType iterates allobjects.values() (pinned below)
    if s == 'util.inherited_members(self.ob)':
        return 'DInherited'
    if s == 'self.children':
        return 'DGiven'
    if s in ('lst', 'subjects'):
        return 'DGiven'
    raise bad('iteration source %r' % s, it, where)


def atoms_of(cond: Optional[ast.expr], var: str, where: str, negated: bool = False) -> Tuple[bool, bool]:
    """cond is the KEEP condition (negated=False) or the SKIP condition (negated=True, `if skip: continue`).
    Returns (visible guard present, no-space guard present).  Other atoms only narrow further and must come from
    the closed list below."""
    if cond is None:
        return (False, False)
    if negated:
        # skip = A or B or ...   ==>   keep = not A and not B ...
        parts = cond.values if isinstance(cond, ast.BoolOp) and isinstance(cond.op, ast.Or) else [cond]
        vis = sp = False
        for p in parts:
            if isinstance(p, ast.UnaryOp) and isinstance(p.op, ast.Not):
                v, s_ = atoms_of(p.operand, var, where)
                vis, sp = vis or v, sp or s_
            elif isinstance(p, ast.Compare) and len(p.ops) == 1 and isinstance(p.ops[0], ast.In) \
                    and isinstance(p.left, ast.Constant) and p.left.value == ' ':
                sp = True
            else:
                raise bad('skip-condition atom %r' % ast.unparse(p), p, where)
        return (vis, sp)
    parts = cond.values if isinstance(cond, ast.BoolOp) and isinstance(cond.op, ast.And) else [cond]
    vis = sp = False
    for p in parts:
        s = ast.unparse(p)
        if isinstance(p, ast.Attribute) and p.attr == 'isVisible' and isinstance(p.value, ast.Name) and p.value.id == var:
            vis = True
        elif isinstance(p, ast.BoolOp) and isinstance(p.op, ast.Or) and len(p.values) == 2 \
                and ast.unparse(p.values[0]) == '%s is None' % var and ast.unparse(p.values[1]) == '%s.isVisible' % var:
            vis = True          # `o is None or o.isVisible`: names that are not objects are kept as plain text
        elif isinstance(p, ast.Compare) and len(p.ops) == 1 and isinstance(p.ops[0], ast.NotIn) \
                and isinstance(p.left, ast.Constant) and p.left.value == ' ' \
                and s in ("' ' not in %s.name" % var, "' ' not in %s.fullName()" % var):
            sp = True
        elif s in ('isinstance(%s, Module)' % var, 'not isinstance(%s, model.Module)' % var,
                   '%s.documentation_location is model.DocLocation.PARENT_PAGE' % var,
                   '%s.name not in maybe_masking' % var, '%s.system is hostsystem' % var,
                   'not hasdocstring(%s)' % var):
            pass                # narrowing atoms that do not concern visibility
        else:
            raise bad('guard atom %r' % s, p, where)
    return (vis, sp)


def comp_listing(comp: ast.AST, where: str) -> Tuple[str, bool, bool]:
    if not isinstance(comp, (ast.GeneratorExp, ast.ListComp)) or len(comp.generators) != 1:
        raise bad('expected one comprehension with one generator, got %s' % type(comp).__name__, comp, where)
    g = comp.generators[0]
    if not isinstance(g.target, ast.Name):
        raise bad('comprehension target', comp, where)
    cond: Optional[ast.expr] = None
    if len(g.ifs) == 1:
        cond = g.ifs[0]
    elif len(g.ifs) > 1:
        cond = ast.BoolOp(op=ast.And(), values=list(g.ifs))
    vis, sp = atoms_of(cond, g.target.id, where)
    if isinstance(g.iter, (ast.GeneratorExp, ast.ListComp)):
        d, v2, s2 = comp_listing(g.iter, where)
        return (d, vis or v2, sp or s2)
    if isinstance(g.iter, ast.Call) and isinstance(g.iter.func, ast.Attribute) and g.iter.func.attr == 'submodules':
        d, v2, s2 = submodules_listing()
        return (d, vis or v2, sp or s2)
    return (domain_of(g.iter, where), vis, sp)


def unwrap(e: ast.expr) -> ast.expr:
    """sorted(X, key=..) / list(X) / tuple(X) -> X"""
    while isinstance(e, ast.Call) and isinstance(e.func, ast.Name) and e.func.id in ('sorted', 'list', 'tuple') and e.args:
        e = e.args[0]
    return e


def submodules_listing() -> Tuple[str, bool, bool]:
    fn = find_def('pydoctor.model', 'Module.submodules')
    rets = [s for s in fn.body if isinstance(s, ast.Return)]
    if len(rets) != 1 or rets[0].value is None:
        raise bad('Module.submodules: expected a single return', fn, 'pydoctor.model')
    return comp_listing(unwrap(rets[0].value), 'pydoctor.model.Module.submodules')


def expr_listing(e: ast.expr, where: str) -> Tuple[str, bool, bool]:
    e = unwrap(e)
    if isinstance(e, ast.Call) and isinstance(e.func, ast.Attribute) and e.func.attr == 'submodules' and not e.args:
        return submodules_listing()
    return comp_listing(e, where)


def single_return(fn: ast.FunctionDef, where: str) -> ast.expr:
    rets = [s for s in ast.walk(fn) if isinstance(s, ast.Return) and s.value is not None]
    if len(rets) != 1:
        raise bad('expected exactly one return with a value (found %d)' % len(rets), fn, where)
    return rets[0].value  # type: ignore


def assigned(fn: ast.FunctionDef, name: str, where: str) -> ast.expr:
    hits = [s for s in ast.walk(fn) if isinstance(s, ast.Assign) and len(s.targets) == 1
            and isinstance(s.targets[0], ast.Name) and s.targets[0].id == name]
    if len(hits) != 1:
        raise bad('expected exactly one assignment to %r (found %d)' % (name, len(hits)), fn, where)
    return hits[0].value


def for_listing(fn: ast.FunctionDef, where: str, top_guard: bool = False) -> Tuple[str, bool, bool]:
    """A single `for x in ITER:` whose body either starts with `if SKIP: continue`, or is one `if KEEP:` statement,
    or has no guard.  With top_guard the function itself must start with `if not <param>.isVisible: return`."""
    loops = [s for s in ast.walk(fn) if isinstance(s, ast.For)]
    outer = [l for l in loops if not any(l is not o and l in list(ast.walk(o)) for o in loops)]
    if len(outer) != 1:
        raise bad('expected exactly one outermost for loop (found %d)' % len(outer), fn, where)
    loop = outer[0]
    if not isinstance(loop.target, ast.Name):
        if isinstance(loop.target, ast.Tuple) and ast.unparse(loop.iter).startswith('zip('):
            raise bad('zip loop is not a listing', loop, where)
        raise bad('loop target', loop, where)
    var = loop.target.id
    vis = sp = False
    first = loop.body[0]
    if isinstance(first, ast.If) and len(first.body) == 1 and isinstance(first.body[0], ast.Continue) and not first.orelse:
        vis, sp = atoms_of(first.test, var, where, negated=True)
    elif isinstance(first, ast.If) and len(loop.body) == 1 and not first.orelse:
        vis, sp = atoms_of(first.test, var, where)
    dom = domain_of(loop.iter, where)
    if top_guard:
        g = fn.body[0]
        if isinstance(g, ast.Expr) and isinstance(g.value, ast.Constant):
            g = fn.body[1]
        param = fn.args.args[1].arg if fn.args.args and fn.args.args[0].arg in ('self', 'cls') else fn.args.args[0].arg
        ok = isinstance(g, ast.If) and ast.unparse(g.test) == 'not %s.isVisible' % param and len(g.body) == 1 \
            and isinstance(g.body[0], ast.Return) and g.body[0].value is None and not g.orelse
        vis = vis or ok
    return (dom, vis, sp)


# ------------------------------------------------------------------------------- pinned functions
PINNED = {
    ('pydoctor.model', 'Documentable.page_object'):
        'location = self.documentation_location\nif location is DocLocation.OWN_PAGE:\n    return self\nelif location is DocLocation.PARENT_PAGE:\n    parent = self.parent\n    assert parent is not None\n    return parent\nelse:\n    assert False, location',
    ('pydoctor.model', 'Documentable.url'):
        "page_obj = self.page_object\nif list(self.system.root_names) == [page_obj.fullName()]:\n    page_url = 'index.html'\nelse:\n    page_url = f'{quote(page_obj.fullName())}.html'\nif page_obj is self:\n    return page_url\nelse:\n    return f'{page_url}#{quote(self.name)}'",
    ('pydoctor.model', 'Documentable.isVisible'):
        'isVisible = self.privacyClass is not PrivacyClass.HIDDEN\nif isVisible and self.parent:\n    isVisible = self.parent.isVisible\nreturn isVisible',
    ('pydoctor.model', 'Module.privacyClass'):
        "if self.name == '__main__':\n    return PrivacyClass.PRIVATE\nelse:\n    return super().privacyClass",
    ('pydoctor.model', 'Documentable.privacyClass'):
        'return self.system.privacyClass(self)',
    ('pydoctor.model', 'Documentable.isPrivate'):
        'return self.privacyClass is not PrivacyClass.PUBLIC',
    ('pydoctor.model', 'Documentable.fullName'):
        "parent = self.parent\nif parent is None:\n    return self.name\nelse:\n    return f'{parent.fullName()}.{self.name}'",
    ('pydoctor.model', 'System.objectsOfType'):
        "if isinstance(cls, str):\n    cls = utils.findClassFromDottedName(cls, 'objectsOfType', base_class=cast(Type['DocumentableT'], Documentable))\nassert isinstance(cls, type)\nfor o in self.allobjects.values():\n    if isinstance(o, cls):\n        yield o",
    ('pydoctor.templatewriter.util', 'nested_bases'):
        '_mro = classobj.mro()\nfor i, _ in enumerate(_mro):\n    yield tuple(reversed(_mro[:i + 1]))',
    ('pydoctor.templatewriter.util', 'inherited_members'):
        'children: List[model.Documentable] = []\nfor inherited_via, attrs in class_members(cls):\n    if len(inherited_via) > 1:\n        children.extend(attrs)\nreturn children',
    ('pydoctor.templatewriter.util', 'class_members'):
        'baselists = []\nfor baselist in nested_bases(cls):\n    attrs = unmasked_attrs(baselist)\n    if attrs:\n        baselists.append((baselist, attrs))\nreturn baselists',
    ('pydoctor.templatewriter.pages.functionchild', 'FunctionChild.functionAnchor'): 'return self.ob.fullName()',
    ('pydoctor.templatewriter.pages.functionchild', 'FunctionChild.shortFunctionAnchor'): 'return self.ob.name',
    ('pydoctor.templatewriter.pages.functionchild', 'FunctionChild.anchorHref'):
        "name = self.shortFunctionAnchor(request, tag)\nreturn f'#{name}'",
    ('pydoctor.templatewriter.pages.attributechild', 'AttributeChild.functionAnchor'): 'return self.ob.fullName()',
    ('pydoctor.templatewriter.pages.attributechild', 'AttributeChild.shortFunctionAnchor'): 'return self.ob.name',
    ('pydoctor.templatewriter.pages.attributechild', 'AttributeChild.anchorHref'):
        "name = self.shortFunctionAnchor(request, tag)\nreturn f'#{name}'",
}


def check_compact_condition() -> None:
    """summary.moduleSummary switches to the compact form on exactly the condition Model/Site.compact_listing mirrors"""
    fn = find_def('pydoctor.templatewriter.summary', 'moduleSummary')
    tests = [ast.unparse(s.test) for s in ast.walk(fn) if isinstance(s, ast.If)]
    want = 'len(contents) > 50 and (not any((any(s.submodules()) for s in contents)))'
    if want not in tests:
        raise bad('moduleSummary: the compact-form condition changed; expected `%s`, found %s' % (want, tests), fn, 'summary')


def check_pinned() -> None:
    for (m, q), want in PINNED.items():
        got = body_text(find_def(m, q))
        if got != want:
            raise bad('%s.%s no longer has the body Model/Site.v mirrors:\n--- expected\n%s\n--- found\n%s' % (m, q, want, got))


# ------------------------------------------------------------------------------- markers and the link builder
def taglink_drops_hidden() -> bool:
    fn = find_def('pydoctor.linker', 'taglink')
    guards = [s for s in fn.body if isinstance(s, ast.If) and ast.unparse(s.test) == 'not o.isVisible']
    if len(guards) != 1:
        raise bad('taglink: expected exactly one `if not o.isVisible:` statement (found %d)' % len(guards), fn, 'pydoctor.linker')
    g = guards[0]
    if g.orelse:
        raise bad('taglink: else branch on the visibility guard', g, 'pydoctor.linker')
    # everything after the guard builds the <a href>; the guard drops the link iff it ends with a return whose
    # value mentions neither tags.a nor href nor url
    last = g.body[-1]
    if isinstance(last, ast.Return) and last.value is not None:
        txt = ast.unparse(last.value)
        if 'tags.a' in txt or 'href' in txt or 'url' in txt:
            return False
        if txt not in ('tags.transparent(label)', 'tags.span(label)', 'tags.code(label)', 'label'):
            raise bad('taglink: value returned for a hidden target %r' % txt, last, 'pydoctor.linker')
        return True
    for s in g.body:
        if not (isinstance(s, ast.Expr) and isinstance(s.value, ast.Call)):
            raise bad('taglink: statement inside the visibility guard %r' % ast.unparse(s), s, 'pydoctor.linker')
    return False            # only logs and falls through to the <a href>


def taglink_rest_pinned() -> None:
    fn = find_def('pydoctor.linker', 'taglink')
    rest = [s for s in fn.body if not (isinstance(s, ast.If) and ast.unparse(s.test) == 'not o.isVisible')]
    fn2 = ast.FunctionDef(name='f', args=fn.args, body=rest, decorator_list=[], returns=None, type_comment=None, lineno=0, col_offset=0)
    got = body_text(fn2)  # type: ignore
    want = ("if label is None:\n    label = o.fullName()\nurl = o.url\nif page_url and url.startswith(page_url + '#'):\n"
            "    url = url[len(page_url):]\nret: Tag = tags.a(label, href=url, class_='internal-link')\n"
            "if label != o.fullName():\n    ret(title=o.fullName())\nreturn ret")
    if got != want:
        raise bad('linker.taglink (outside the visibility guard) changed:\n--- expected\n%s\n--- found\n%s' % (want, got))


def marks_private(modname: str, qual: str, test_src: List[str], what: str, require_all: bool = False) -> bool:
    """Is there an `if <test>:` (test from the closed list) whose body adds the `private` class?
    With require_all every listed test must guard such a body (moduleSummary: the normal and the compact form)."""
    fn = find_def(modname, qual)
    found = False
    hit = set()
    for s in ast.walk(fn):
        if isinstance(s, ast.If) and ast.unparse(s.test) in test_src:
            body = ast.unparse(ast.Module(body=s.body, type_ignores=[]))
            if 'private' in body:
                found = True
                hit.add(ast.unparse(s.test))
    if require_all:
        found = found and hit == set(test_src)
    if not found:
        # the marker may only be absent, not replaced by something we do not understand
        for s in ast.walk(fn):
            if isinstance(s, ast.Constant) and isinstance(s.value, str) and 'private' in s.value:
                raise bad('%s.%s mentions "private" outside a recognised test (%s)' % (modname, qual, what), s, modname)
    return found


def uses_css_class(modname: str, qual: str, arg: str) -> bool:
    fn = find_def(modname, qual)
    for s in ast.walk(fn):
        if isinstance(s, ast.Call) and ast.unparse(s.func) in ('util.css_class', 'css_class') \
                and len(s.args) == 1 and ast.unparse(s.args[0]) == arg:
            return True
    return False


def search_privacy_field() -> bool:
    fn = find_def('pydoctor.templatewriter.search', 'get_all_documents_flattenable')
    comp = unwrap(single_return(fn, 'search.get_all_documents_flattenable'))
    if not isinstance(comp, ast.GeneratorExp) or not isinstance(comp.elt, ast.Dict):
        raise bad('get_all_documents_flattenable: expected a generator of dict literals', fn, 'search')
    for k, v in zip(comp.elt.keys, comp.elt.values):
        if isinstance(k, ast.Constant) and k.value == 'privacy':
            return ast.unparse(v) in ('str(ob.privacyClass.name)', 'ob.privacyClass.name')
    return False


# ------------------------------------------------------------------------------- generate
def generate() -> Dict[str, str]:
    check_pinned()
    check_compact_condition()
    taglink_rest_pinned()
    P = 'pydoctor.templatewriter.pages'
    U = 'pydoctor.templatewriter.util'
    S = 'pydoctor.templatewriter.summary'
    L: List[Tuple[str, str, Tuple[str, bool, bool]]] = []

    def add(field: str, src: str, res: Tuple[str, bool, bool]) -> None:
        L.append((field, src, res))

    add('t_children', 'pages.CommonPage.children',
        expr_listing(single_return(find_def(P, 'CommonPage.children'), 'CommonPage.children'), 'CommonPage.children'))
    add('t_methods', 'pages.CommonPage.methods',
        expr_listing(single_return(find_def(P, 'CommonPage.methods'), 'CommonPage.methods'), 'CommonPage.methods'))
    add('t_pkg_children', 'pages.PackagePage.children -> model.Module.submodules',
        expr_listing(single_return(find_def(P, 'PackagePage.children'), 'PackagePage.children'), 'PackagePage.children'))
    add('t_pkg_init', 'pages.PackagePage.packageInitTable',
        expr_listing(assigned(find_def(P, 'PackagePage.packageInitTable'), 'children', 'PackagePage.packageInitTable'),
                     'PackagePage.packageInitTable'))
    add('t_pkg_methods', 'pages.PackagePage.methods',
        expr_listing(single_return(find_def(P, 'PackagePage.methods'), 'PackagePage.methods'), 'PackagePage.methods'))
    add('t_table_rows', 'pages.table.ChildTable.rows',
        expr_listing(single_return(find_def(P + '.table', 'ChildTable.rows'), 'ChildTable.rows'), 'ChildTable.rows'))
    add('t_unmasked', 'util.unmasked_attrs',
        expr_listing(single_return(find_def(U, 'unmasked_attrs'), 'unmasked_attrs'), 'unmasked_attrs'))
    # sidebar: if inherited: return sorted(gen over inherited_members) else: return sorted(gen over contents)
    sc = find_def(P + '.sidebar', 'ObjContent._children')
    ifs = [s for s in sc.body if isinstance(s, ast.If)]
    if len(ifs) != 1 or ast.unparse(ifs[0].test) != 'inherited':
        raise bad('ObjContent._children: expected `if inherited: ... else: ...`', sc, 'sidebar')
    r1 = [s for s in ifs[0].body if isinstance(s, ast.Return)]
    r2 = [s for s in ifs[0].orelse if isinstance(s, ast.Return)]
    if len(r1) != 1 or len(r2) != 1:
        raise bad('ObjContent._children: expected one return per branch', sc, 'sidebar')
    add('t_sidebar_inherited', 'sidebar.ObjContent._children(inherited=True)', expr_listing(r1[0].value, 'ObjContent._children'))
    add('t_sidebar_direct', 'sidebar.ObjContent._children(inherited=False)', expr_listing(r2[0].value, 'ObjContent._children'))
    add('t_modsummary_sub', 'summary.moduleSummary -> model.Module.submodules',
        expr_listing(assigned(find_def(S, 'moduleSummary'), 'contents', 'moduleSummary'), 'moduleSummary'))
    mi = find_def(S, 'ModuleIndexPage.stuff')
    comps = [n for n in ast.walk(mi) if isinstance(n, (ast.ListComp, ast.GeneratorExp))]
    if len(comps) == 1:
        add('t_modindex_roots', 'summary.ModuleIndexPage.stuff', comp_listing(comps[0], 'ModuleIndexPage.stuff'))
    else:
        add('t_modindex_roots', 'summary.ModuleIndexPage.stuff', for_listing(mi, 'ModuleIndexPage.stuff'))
    ir = find_def(S, 'IndexPage.roots')
    comps = [n for n in ast.walk(ir) if isinstance(n, (ast.ListComp, ast.GeneratorExp))]
    if comps:
        if len(comps) != 1:
            raise bad('IndexPage.roots: more than one comprehension', ir, 'summary')
        add('t_index_roots', 'summary.IndexPage.roots', comp_listing(comps[0], 'IndexPage.roots'))
    else:
        add('t_index_roots', 'summary.IndexPage.roots', for_listing(ir, 'IndexPage.roots'))
    add('t_rootclasses', 'summary.findRootClasses', for_listing(find_def(S, 'findRootClasses'), 'findRootClasses'))
    add('t_subclasses_from', 'summary.subclassesFrom',
        expr_listing(assigned(find_def(S, 'subclassesFrom'), 'scs', 'subclassesFrom'), 'subclassesFrom'))
    add('t_nameindex', 'summary.NameIndexPage.__init__', for_listing(find_def(S, 'NameIndexPage.__init__'), 'NameIndexPage.__init__'))
    add('t_undocced', 'summary.UndocumentedSummaryPage.stuff',
        expr_listing(assigned(find_def(S, 'UndocumentedSummaryPage.stuff'), 'undoccedpublic', 'UndocumentedSummaryPage.stuff'),
                     'UndocumentedSummaryPage.stuff'))
    add('t_alldocs', 'search.get_all_documents_flattenable',
        expr_listing(single_return(find_def('pydoctor.templatewriter.search', 'get_all_documents_flattenable'),
                                   'get_all_documents_flattenable'), 'get_all_documents_flattenable'))
    add('t_corpus', 'search.LunrIndexWriter.get_corpus',
        expr_listing(single_return(find_def('pydoctor.templatewriter.search', 'LunrIndexWriter.get_corpus'), 'get_corpus'),
                     'get_corpus'))
    inv = find_def('pydoctor.sphinx', 'SphinxInventoryWriter._generateContent')
    rec = [n for n in ast.walk(inv) if isinstance(n, ast.Call) and ast.unparse(n.func) == 'self._generateContent']
    if len(rec) != 1 or ast.unparse(rec[0].args[0]) != 'obj.contents.values()':
        raise bad('_generateContent: expected one recursive call on obj.contents.values()', inv, 'sphinx')
    d, v, s_ = for_listing(inv, 'SphinxInventoryWriter._generateContent')
    add('t_inventory', 'sphinx.SphinxInventoryWriter._generateContent (recursion on obj.contents.values())', ('DContents', v, s_))
    wr = find_def('pydoctor.templatewriter.writer', 'TemplateWriter._writeDocsFor')
    rec = [n for n in ast.walk(wr) if isinstance(n, ast.Call) and ast.unparse(n.func) == 'self._writeDocsFor']
    if len(rec) != 1 or ast.unparse(rec[0].args[0]) != 'o':
        raise bad('_writeDocsFor: expected one recursive call', wr, 'writer')
    add('t_writer', 'writer.TemplateWriter._writeDocsFor', for_listing(wr, 'TemplateWriter._writeDocsFor', top_guard=True))
    # assembleList: for name in lst: o = system.allobjects.get(name); if o is None or o.isVisible: lst2.append(name)
    al = find_def(P, 'assembleList')
    loops = [s for s in al.body if isinstance(s, ast.For)]
    if len(loops) != 1 or ast.unparse(loops[0].iter) != 'lst':
        raise bad('assembleList: expected one top-level loop over lst', al, 'pages')
    ifs2 = [s for s in loops[0].body if isinstance(s, ast.If)]
    vis = len(ifs2) == 1 and ast.unparse(ifs2[0].test) == 'o is None or o.isVisible' and not ifs2[0].orelse
    if ifs2 and not vis:
        raise bad('assembleList: guard %r' % ast.unparse(ifs2[0].test), ifs2[0], 'pages')
    add('t_assemble', 'pages.assembleList', ('DGiven', vis, False))
    add('t_overriding', 'util.overriding_subclasses', for_listing_nested(find_def(U, 'overriding_subclasses')))

    flags = [
        ('t_taglink_drops_hidden', 'linker.taglink returns only the label for a target that is not visible', taglink_drops_hidden()),
        ('t_css_private', "util.css_class adds ' private' when privacyClass is PRIVATE",
         marks_private(U, 'css_class', ['o.privacyClass is model.PrivacyClass.PRIVATE', 'o.isPrivate'], 'css_class')),
        ('t_sidebar_private', 'sidebar.ContentItem.class_ adds private when child.isPrivate',
         marks_private(P + '.sidebar', 'ContentItem.class_', ['self.child.isPrivate',
                                                              'self.child.privacyClass is model.PrivacyClass.PRIVATE'], 'sidebar item')),
        ('t_modsummary_private', "summary.moduleSummary sets class_='private' when module.isPrivate",
         marks_private(S, 'moduleSummary', ['module.isPrivate', 'm.isPrivate'], 'moduleSummary', require_all=True)),
        ('t_search_privacy', "search documents carry 'privacy': ob.privacyClass.name", search_privacy_field()),
        ('t_row_uses_css', 'table.TableRow.class_ is util.css_class(self.child)',
         uses_css_class(P + '.table', 'TableRow.class_', 'self.child')),
        ('t_child_uses_css', 'FunctionChild.class_ and AttributeChild.class_ are util.css_class(self.ob)',
         uses_css_class(P + '.functionchild', 'FunctionChild.class_', 'self.ob')
         and uses_css_class(P + '.attributechild', 'AttributeChild.class_', 'self.ob')),
    ]

    lines = ['From Coq Require Import List Bool.', 'Import ListNotations.',
             'From PydoctorVerif Require Import Model.SiteTable.', '',
             '(* listing skeleton of the template writer as it is in the working tree of /repo NOW *)',
             'Definition table_now : table := {|']
    rows = []
    for field, src, (d, v, s_) in L:
        rows.append('  %s := {| l_domain := %s; l_visible := %s; l_nospace := %s |}  (* %s *)'
                    % (field, d, 'true' if v else 'false', 'true' if s_ else 'false', src))
    for field, what, val in flags:
        rows.append('  %s := %s  (* %s *)' % (field, 'true' if val else 'false', what))
    body = ';\n'.join(rows)
    # comments must follow the separator, not precede it
    out_rows = []
    for i, r in enumerate(rows):
        code, _, com = r.partition('  (*')
        sep = ';' if i < len(rows) - 1 else ''
        out_rows.append('%s%s  (*%s' % (code, sep, com))
    lines.append('\n'.join(out_rows))
    lines.append('|}.')
    return {'Listings.v': '\n'.join(lines) + '\n'}


def for_listing_nested(fn: ast.FunctionDef) -> Tuple[str, bool, bool]:
    """overriding_subclasses: if ...: yield classobj else: for subclass in classobj.subclasses: if subclass.isVisible: yield from ..."""
    loops = [s for s in ast.walk(fn) if isinstance(s, ast.For)]
    if len(loops) != 1 or not isinstance(loops[0].target, ast.Name):
        raise bad('overriding_subclasses: expected one loop', fn, 'util')
    loop = loops[0]
    vis = sp = False
    if len(loop.body) == 1 and isinstance(loop.body[0], ast.If) and not loop.body[0].orelse:
        vis, sp = atoms_of(loop.body[0].test, loop.target.id, 'overriding_subclasses')
    return (domain_of(loop.iter, 'overriding_subclasses'), vis, sp)


if __name__ == '__main__':
    print(generate()['Listings.v'])
