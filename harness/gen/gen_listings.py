"""Translator A for C11 / C12: the LISTING SKELETON of the template writer (DESIGN.md 2.3 A).

Two kinds of facts are read from the CURRENT /repo and written to Gen/Listings.v (table_now : table):

(1) STATIC, from the AST, for every listing / link producer: which collection is iterated and which guards every
    emitted element has passed:  (iteration domain, `isVisible` guard present, `' ' not in name` guard present).
    The MEANING is extracted, not the source text:
      * an element stream is followed through comprehensions, generator expressions, sorted()/list()/tuple()/reversed(),
        local variables, lists built by a loop with .append (then .sort()), and calls into helper functions / methods of
        pydoctor itself (util.visible_objects(system), Module.submodules(), System.objectsOfType, ...), whose bodies are
        analysed the same way;
      * inside a loop the guards are the PATH CONDITION of the statements that use the element: `if c: continue/return`
        guard clauses, nested `if c:` blocks, conjunctions, early returns and derived locals (`o = allobjects.get(name)`)
        are normalised away; only atoms about visibility / the ' ' test matter, any other conjunct merely narrows;
      * a disjunction that mentions isVisible in a shape that is not understood is rejected (fail-closed).

(2) BEHAVIOURAL, by running the LIVE functions on small fixture systems built with the real System / builder and
    comparing them with a reference implementation of what Model/Site.v mirrors by hand:
    Documentable.fullName / privacyClass (Module's `__main__` rule) / isVisible / isPrivate / page_object / url,
    linker.taglink (every object x context x label; whether the href of a hidden target is dropped is MEASURED),
    util.css_class, TableRow / FunctionChild / AttributeChild / ContentItem class_ renderers (the private markers,
    own and inherited rows), summary.moduleSummary (marker, normal and compact form, the > 50 threshold),
    the `privacy` field of search documents, System.objectsOfType, util.nested_bases / class_members /
    inherited_members, the anchor renderers of FunctionChild / AttributeChild.
    Any refactoring that keeps the behaviour on the fixtures passes; a live function that cannot be run on the
    fixtures, or whose results are inconsistent (neither "always" nor "never"), aborts the generation.

Fail-closed: a producer that cannot be found, an iteration source or a visibility guard that cannot be interpreted, or
a behavioural difference raises Shape('unrecognised shape ...') and the run is reported."""
from __future__ import annotations
import ast, importlib, inspect, os
from pathlib import Path
from typing import Any, Dict, List, Optional, Set, Tuple
from urllib.parse import quote as _quote

REPO = Path(os.environ.get('PYTHONPATH', '/repo').split(':')[0])


class Shape(ValueError):
    pass


def bad(msg: str, node: Optional[ast.AST] = None, where: str = '') -> Shape:
    loc = ' at %s:%s' % (where, getattr(node, 'lineno', '?')) if node is not None or where else ''
    return Shape('unrecognised shape: %s%s' % (msg, loc))


# =============================================================================== source access
_trees: Dict[str, ast.Module] = {}


def tree_of(modname: str) -> ast.Module:
    if modname not in _trees:
        mod = importlib.import_module(modname)
        f = Path(inspect.getsourcefile(mod))  # type: ignore
        if REPO.resolve() not in f.resolve().parents:
            raise Shape('module %s is not loaded from %s but from %s' % (modname, REPO, f))
        _trees[modname] = ast.parse(f.read_text(encoding='utf-8'))
    return _trees[modname]


def find_def(modname: str, qualname: str) -> ast.FunctionDef:
    body: List[ast.stmt] = tree_of(modname).body
    node: Any = None
    for part in qualname.split('.'):
        node = None
        for st in body:
            if isinstance(st, (ast.FunctionDef, ast.AsyncFunctionDef, ast.ClassDef)) and st.name == part:
                node = st      # the last definition wins, as in Python
        if node is None:
            raise bad('%s.%s not found' % (modname, qualname))
        body = node.body
    if not isinstance(node, (ast.FunctionDef, ast.AsyncFunctionDef)):
        raise bad('%s.%s is not a function' % (modname, qualname))
    return node


def defs_named(modname: str, name: str) -> List[Tuple[str, ast.FunctionDef]]:
    """every function / method called `name` in the module (qualified name, node)"""
    out = []

    def walk(body: List[ast.stmt], prefix: str) -> None:
        for st in body:
            if isinstance(st, (ast.FunctionDef, ast.AsyncFunctionDef)) and st.name == name:
                out.append((prefix + st.name, st))
            elif isinstance(st, ast.ClassDef):
                walk(st.body, prefix + st.name + '.')
    walk(tree_of(modname).body, '')
    return out


def module_aliases(modname: str) -> Dict[str, str]:
    """local name -> pydoctor module it is bound to by an import of the module"""
    res: Dict[str, str] = {}
    for st in ast.walk(tree_of(modname)):
        if isinstance(st, ast.ImportFrom) and st.module and st.module.startswith('pydoctor') and st.level == 0:
            for a in st.names:
                full = st.module + '.' + a.name
                try:
                    importlib.import_module(full)
                    res[a.asname or a.name] = full
                except Exception:
                    res.setdefault(a.asname or a.name, st.module + ':' + a.name)   # an object of that module
        elif isinstance(st, ast.Import):
            for a in st.names:
                if a.name.startswith('pydoctor'):
                    res[a.asname or a.name.split('.')[0]] = a.name if a.asname else a.name.split('.')[0]
    return res


# =============================================================================== element streams
class Stream:
    """what is known about the elements of an iterable: the collection they come from and the guards they passed"""
    def __init__(self, domain: str, vis: bool = False, nospace: bool = False, why: str = ''):
        self.domain, self.vis, self.nospace, self.why = domain, vis, nospace, why

    def plus(self, vis: bool, nospace: bool) -> 'Stream':
        return Stream(self.domain, self.vis or vis, self.nospace or nospace, self.why)

    def triple(self) -> Tuple[str, bool, bool]:
        return (self.domain, self.vis, self.nospace)


HELPER_MODULES = ['pydoctor.model', 'pydoctor.templatewriter.util', 'pydoctor.templatewriter.summary',
                  'pydoctor.templatewriter.pages', 'pydoctor.templatewriter.search']
VIS_WORDS = ('isVisible', 'privacyClass', 'isPrivate', 'HIDDEN')


class Fn:
    """analysis context of one function"""
    def __init__(self, modname: str, qual: str, node: Optional[ast.FunctionDef] = None, depth: int = 0):
        self.modname, self.qual = modname, qual
        self.node = node if node is not None else find_def(modname, qual)
        self.where = '%s.%s' % (modname.split('.')[-1], qual)
        self.depth = depth
        a = self.node.args
        self.params = [x.arg for x in a.posonlyargs + a.args + a.kwonlyargs]

    # ---------------------------------------------------------------- guards
    def aliases_of(self, var: str, scope: List[ast.stmt]) -> Set[str]:
        """var and the locals derived from it by a plain assignment (`o = system.allobjects.get(name)`)"""
        names = {var}
        changed = True
        while changed:
            changed = False
            for st in scope:
                for sub in ast.walk(st):
                    if isinstance(sub, ast.Assign) and len(sub.targets) == 1 and isinstance(sub.targets[0], ast.Name):
                        t = sub.targets[0].id
                        if t not in names and any(isinstance(n, ast.Name) and n.id in names for n in ast.walk(sub.value)):
                            # a derived OBJECT (lookup by name / attribute), not a derived collection
                            if not isinstance(sub.value, (ast.ListComp, ast.GeneratorExp, ast.SetComp, ast.DictComp, ast.List)):
                                names.add(t)
                                changed = True
        return names

    def keep_atoms(self, cond: ast.expr, names: Set[str]) -> Tuple[bool, bool]:
        """guards established when `cond` is TRUE"""
        if isinstance(cond, ast.BoolOp) and isinstance(cond.op, ast.And):
            v = s = False
            for p in cond.values:
                a, b = self.keep_atoms(p, names)
                v, s = v or a, s or b
            return (v, s)
        if isinstance(cond, ast.UnaryOp) and isinstance(cond.op, ast.Not):
            return self.skip_atoms(cond.operand, names)
        txt = ast.unparse(cond)
        # x.isVisible
        if isinstance(cond, ast.Attribute) and cond.attr == 'isVisible' and isinstance(cond.value, ast.Name) and cond.value.id in names:
            return (True, False)
        # x is None or x.isVisible   (names that are not objects are kept as plain text)
        if isinstance(cond, ast.BoolOp) and isinstance(cond.op, ast.Or) and len(cond.values) == 2:
            a, b = cond.values
            for p, q in ((a, b), (b, a)):
                if isinstance(p, ast.Compare) and len(p.ops) == 1 and isinstance(p.ops[0], ast.Is) \
                        and isinstance(p.left, ast.Name) and p.left.id in names \
                        and isinstance(p.comparators[0], ast.Constant) and p.comparators[0].value is None \
                        and isinstance(q, ast.Attribute) and q.attr == 'isVisible' and isinstance(q.value, ast.Name) \
                        and q.value.id == p.left.id:
                    return (True, False)
        # ' ' not in x.name / x.fullName()
        if isinstance(cond, ast.Compare) and len(cond.ops) == 1 and isinstance(cond.ops[0], ast.NotIn) \
                and isinstance(cond.left, ast.Constant) and cond.left.value == ' ' and self.is_name_of(cond.comparators[0], names):
            return (False, True)
        if isinstance(cond, ast.Compare) and len(cond.ops) == 1 and isinstance(cond.ops[0], ast.Is) \
                and ast.unparse(cond.comparators[0]) in ('True',) and isinstance(cond.left, ast.Attribute) \
                and cond.left.attr == 'isVisible' and isinstance(cond.left.value, ast.Name) and cond.left.value.id in names:
            return (True, False)
        if any(w in txt for w in VIS_WORDS) and any(isinstance(n, ast.Name) and n.id in names for n in ast.walk(cond)):
            raise bad('guard %r mentions visibility in a way that is not understood' % txt, cond, self.where)
        return (False, False)      # any other conjunct only narrows

    def skip_atoms(self, cond: ast.expr, names: Set[str]) -> Tuple[bool, bool]:
        """guards established when `cond` is FALSE (`if cond: continue`)"""
        if isinstance(cond, ast.BoolOp) and isinstance(cond.op, ast.Or):
            v = s = False
            for p in cond.values:
                a, b = self.skip_atoms(p, names)
                v, s = v or a, s or b
            return (v, s)
        if isinstance(cond, ast.UnaryOp) and isinstance(cond.op, ast.Not):
            return self.keep_atoms(cond.operand, names)
        txt = ast.unparse(cond)
        if isinstance(cond, ast.Compare) and len(cond.ops) == 1 and isinstance(cond.ops[0], ast.In) \
                and isinstance(cond.left, ast.Constant) and cond.left.value == ' ' and self.is_name_of(cond.comparators[0], names):
            return (False, True)
        if isinstance(cond, ast.Compare) and len(cond.ops) == 1 and isinstance(cond.ops[0], ast.Is) \
                and ast.unparse(cond.comparators[0]) == 'False' and isinstance(cond.left, ast.Attribute) \
                and cond.left.attr == 'isVisible' and isinstance(cond.left.value, ast.Name) and cond.left.value.id in names:
            return (True, False)
        if isinstance(cond, ast.BoolOp) and isinstance(cond.op, ast.And):
            # skip only when ALL hold: nothing is guaranteed for the elements that pass -- unless visibility is involved
            if any(w in txt for w in VIS_WORDS) and any(isinstance(n, ast.Name) and n.id in names for n in ast.walk(cond)):
                raise bad('skip condition %r mentions visibility in a way that is not understood' % txt, cond, self.where)
            return (False, False)
        if any(w in txt for w in VIS_WORDS) and any(isinstance(n, ast.Name) and n.id in names for n in ast.walk(cond)):
            raise bad('skip condition %r mentions visibility in a way that is not understood' % txt, cond, self.where)
        return (False, False)

    @staticmethod
    def is_name_of(e: ast.expr, names: Set[str]) -> bool:
        if isinstance(e, ast.Attribute) and e.attr == 'name' and isinstance(e.value, ast.Name) and e.value.id in names:
            return True
        if isinstance(e, ast.Call) and isinstance(e.func, ast.Attribute) and e.func.attr == 'fullName' \
                and isinstance(e.func.value, ast.Name) and e.func.value.id in names and not e.args:
            return True
        return False

    @staticmethod
    def mentions(node: ast.AST, names: Set[str]) -> bool:
        return any(isinstance(n, ast.Name) and n.id in names for n in ast.walk(node))

    def body_guards(self, body: List[ast.stmt], names: Set[str], emit: Any) -> Optional[Tuple[bool, bool]]:
        """The guards common to every EMIT statement of `body` (None: no emit statement).  emit(stmt) says whether a
        statement uses the element; `if c: continue / return / break / raise` are guard clauses for what follows."""
        v = s = False            # guards established so far on this path
        result: Optional[Tuple[bool, bool]] = None

        def meet(r: Tuple[bool, bool]) -> None:
            nonlocal result
            result = r if result is None else (result[0] and r[0], result[1] and r[1])
        for st in body:
            if isinstance(st, ast.If):
                exits = bool(st.body) and isinstance(st.body[-1], (ast.Continue, ast.Return, ast.Break, ast.Raise)) \
                    and not any(emit(x) for x in st.body[:-1]) \
                    and not (isinstance(st.body[-1], ast.Return) and st.body[-1].value is not None and emit(st.body[-1]))
                if exits and not st.orelse:
                    a, b = self.skip_atoms(st.test, names)
                    v, s = v or a, s or b
                    continue
                if exits and st.orelse:
                    a, b = self.skip_atoms(st.test, names)
                    r = self.body_guards(st.orelse, names, emit)
                    if r is not None:
                        meet((v or a or r[0], s or b or r[1]))
                    v, s = v or a, s or b
                    continue
                a, b = self.keep_atoms(st.test, names)
                r1 = self.body_guards(st.body, names, emit)
                if r1 is not None:
                    meet((v or a or r1[0], s or b or r1[1]))
                if st.orelse:
                    a2, b2 = self.skip_atoms(st.test, names)
                    r2 = self.body_guards(st.orelse, names, emit)
                    if r2 is not None:
                        meet((v or a2 or r2[0], s or b2 or r2[1]))
                continue
            if isinstance(st, (ast.With, ast.Try)):
                inner = list(st.body) + (list(getattr(st, 'orelse', [])) + list(getattr(st, 'finalbody', [])))
                for h in getattr(st, 'handlers', []):
                    inner += h.body
                if isinstance(st, ast.With) and any(emit(ast.Expr(value=i.context_expr)) for i in st.items):
                    meet((v, s))
                r = self.body_guards(inner, names, emit)
                if r is not None:
                    meet((v or r[0], s or r[1]))
                continue
            if emit(st):
                meet((v, s))
        return result

    # ---------------------------------------------------------------- streams
    def stream_of_expr(self, e: ast.expr, scope: List[ast.stmt]) -> Stream:
        # wrappers that keep the elements
        while isinstance(e, ast.Call) and isinstance(e.func, ast.Name) and e.func.id in ('sorted', 'list', 'tuple', 'reversed', 'iter', 'peek_iter') and e.args:
            e = e.args[0]
        if isinstance(e, (ast.GeneratorExp, ast.ListComp, ast.SetComp)):
            if len(e.generators) != 1 or not isinstance(e.generators[0].target, ast.Name):
                raise bad('comprehension with several generators / a tuple target', e, self.where)
            g = e.generators[0]
            base = self.stream_of_expr(g.iter, scope)
            names = {g.target.id}
            v = s = False
            for c in g.ifs:
                a, b = self.keep_atoms(c, names)
                v, s = v or a, s or b
            return base.plus(v, s)
        if isinstance(e, ast.Call) and isinstance(e.func, ast.Name) and e.func.id == 'filter' and len(e.args) == 2 \
                and isinstance(e.args[0], ast.Lambda) and len(e.args[0].args.args) == 1:
            base = self.stream_of_expr(e.args[1], scope)
            a, b = self.keep_atoms(e.args[0].body, {e.args[0].args.args[0].arg})
            return base.plus(a, b)
        if isinstance(e, ast.Call) and isinstance(e.func, ast.Attribute) and e.func.attr == 'values' and not e.args:
            inner = e.func.value
            if isinstance(inner, ast.Attribute) and inner.attr == 'contents':
                return Stream('DContents', why=ast.unparse(e))
            if isinstance(inner, ast.Attribute) and inner.attr == 'allobjects':
                return Stream('DAllobjects', why=ast.unparse(e))
        if isinstance(e, ast.Attribute) and e.attr == 'rootobjects':
            return Stream('DRootobjects', why=ast.unparse(e))
        if isinstance(e, ast.Attribute) and e.attr == 'subclasses':
            return Stream('DSubclasses', why=ast.unparse(e))
        if isinstance(e, ast.Attribute) and isinstance(e.value, ast.Name) and e.value.id == 'self':
            return Stream('DGiven', why=ast.unparse(e))           # handed to the constructor by the caller
        if isinstance(e, ast.Name):
            if e.id in self.params and not self.assigned_anywhere(e.id):
                return Stream('DGiven', why='parameter ' + e.id)
            return self.stream_of_local(e.id, scope)
        if isinstance(e, ast.Call):
            return self.stream_of_call(e, scope)
        raise bad('iteration source %r' % ast.unparse(e), e, self.where)

    def assigned_anywhere(self, name: str) -> bool:
        for sub in ast.walk(self.node):
            if isinstance(sub, (ast.Assign, ast.AnnAssign, ast.AugAssign)):
                tg = sub.targets if isinstance(sub, ast.Assign) else [sub.target]
                if any(isinstance(t, ast.Name) and t.id == name for t in tg):
                    return True
        return False

    def stream_of_local(self, name: str, scope: List[ast.stmt]) -> Stream:
        """a local: assigned from a stream expression, or a list filled by loops with .append / .extend"""
        visiting = self.__dict__.setdefault('_visiting', [])
        if name in visiting:
            if name in self.params:
                return Stream('DGiven', why='parameter ' + name)      # re-bound later from itself: its initial value
            raise bad('local %r is defined in terms of itself' % name, self.node, self.where)
        visiting.append(name)
        try:
            return self._stream_of_local(name, scope)
        finally:
            visiting.pop()

    def _stream_of_local(self, name: str, scope: List[ast.stmt]) -> Stream:
        assigns: List[ast.expr] = []
        for sub in ast.walk(self.node):
            if isinstance(sub, ast.Assign) and len(sub.targets) == 1 and isinstance(sub.targets[0], ast.Name) and sub.targets[0].id == name:
                assigns.append(sub.value)
            elif isinstance(sub, ast.AnnAssign) and isinstance(sub.target, ast.Name) and sub.target.id == name and sub.value is not None:
                assigns.append(sub.value)
        if not assigns:
            raise bad('local %r is never assigned' % name, self.node, self.where)
        streams: List[Stream] = []
        empties = [a for a in assigns if (isinstance(a, (ast.List, ast.Tuple)) and not a.elts)
                   or (isinstance(a, ast.Call) and isinstance(a.func, ast.Name) and a.func.id in ('list', 'set') and not a.args)]
        for a in assigns:
            if a in empties:
                continue
            if isinstance(a, ast.Name) and a.id == name:
                continue
            streams.append(self.stream_of_expr(a, scope))
        if empties:
            # filled by loops:  for v in ITER: ... name.append(<something of v>)
            found = False
            for loop in [n for n in ast.walk(self.node) if isinstance(n, ast.For)]:
                def emit(st: ast.stmt, _n: str = name) -> bool:
                    for c in ast.walk(st):
                        if isinstance(c, ast.Call) and isinstance(c.func, ast.Attribute) and c.func.attr in ('append', 'add', 'extend', 'insert') \
                                and isinstance(c.func.value, ast.Name) and c.func.value.id == _n:
                            return True
                    return False
                if not any(emit(st) for st in loop.body):
                    continue
                inner_loops = [l for l in ast.walk(loop) if isinstance(l, ast.For) and l is not loop and any(emit(st) for st in l.body)]
                if inner_loops:
                    continue        # the innermost loop that appends is analysed on its own
                found = True
                streams.append(self.stream_of_loop(loop, emit, scope))
            if not found and not streams:
                raise bad('list %r is created empty and never filled by a loop that is understood' % name, self.node, self.where)
        if not streams:
            raise bad('local %r: no stream found' % name, self.node, self.where)
        dom = {s.domain for s in streams}
        if len(dom) != 1:
            raise bad('local %r is filled from different collections %s' % (name, sorted(dom)), self.node, self.where)
        return Stream(streams[0].domain, all(s.vis for s in streams), all(s.nospace for s in streams), streams[0].why)

    def stream_of_loop(self, loop: ast.For, emit: Any, scope: List[ast.stmt]) -> Stream:
        if isinstance(loop.target, ast.Name):
            var = loop.target.id
        elif isinstance(loop.target, ast.Tuple) and all(isinstance(t, ast.Name) for t in loop.target.elts):
            raise bad('loop over tuples is not a listing', loop, self.where)
        else:
            raise bad('loop target', loop, self.where)
        base = self.stream_of_expr(loop.iter, scope)
        names = self.aliases_of(var, loop.body)
        g = self.body_guards(loop.body, names, emit)
        if g is None:
            raise bad('loop over %s has no statement that uses its element' % ast.unparse(loop.iter), loop, self.where)
        return base.plus(g[0], g[1])

    def stream_of_call(self, e: ast.Call, scope: List[ast.stmt]) -> Stream:
        """a call into pydoctor's own helper functions / methods is followed"""
        if self.depth > 4:
            raise bad('helper calls nested too deeply at %r' % ast.unparse(e), e, self.where)
        if ast.unparse(e.func).endswith('inherited_members'):
            return Stream('DInherited', why=ast.unparse(e))     # util.inherited_members: checked behaviourally
        cands: List[Tuple[str, str, ast.FunctionDef]] = []
        if isinstance(e.func, ast.Name):
            name = e.func.id
            for q, n in defs_named(self.modname, name):
                if '.' not in q:
                    cands.append((self.modname, q, n))
            if not cands:
                tgt = module_aliases(self.modname).get(name)
                if tgt and ':' in tgt:
                    m, q = tgt.split(':')
                    cands.append((m, q, find_def(m, q)))
        elif isinstance(e.func, ast.Attribute):
            name = e.func.attr
            recv = e.func.value
            al = module_aliases(self.modname)
            if isinstance(recv, ast.Name) and recv.id in al and ':' not in al[recv.id]:
                m = al[recv.id]
                cands = [(m, q, n) for q, n in defs_named(m, name) if '.' not in q]
            else:
                # a method of some pydoctor object: every definition of that name must agree
                for m in HELPER_MODULES:
                    try:
                        cands += [(m, q, n) for q, n in defs_named(m, name) if '.' in q]
                    except Shape:
                        pass
        if not cands:
            raise bad('iteration source %r: not a known collection and no helper of that name in pydoctor' % ast.unparse(e), e, self.where)
        res: List[Stream] = []
        for m, q, n in cands:
            res.append(Fn(m, q, n, self.depth + 1).returned_stream())
        if len({r.triple() for r in res}) != 1:
            raise bad('helpers named like %r disagree: %s' % (ast.unparse(e.func), [r.triple() for r in res]), e, self.where)
        r0 = res[0]
        if r0.domain == 'DGiven':
            # the helper filters one of its arguments: the stream is the caller's argument
            raise bad('helper %r returns a filtered argument; pass-through helpers are not followed' % ast.unparse(e.func), e, self.where)
        return r0

    def returned_stream(self) -> Stream:
        """the stream a helper returns (single return of a stream expression) or yields (generator function)"""
        yields = [n for n in ast.walk(self.node) if isinstance(n, (ast.Yield, ast.YieldFrom))]
        if yields:
            loops = [l for l in ast.walk(self.node) if isinstance(l, ast.For)
                     and any(isinstance(n, (ast.Yield, ast.YieldFrom)) for st in l.body for n in ast.walk(st))]
            outer = [l for l in loops if not any(l is not o and any(l is x for x in ast.walk(o)) for o in loops)]
            if len(outer) != 1:
                raise bad('generator helper with %d yielding loops' % len(outer), self.node, self.where)

            def emit(st: ast.stmt) -> bool:
                return any(isinstance(n, (ast.Yield, ast.YieldFrom)) for n in ast.walk(st))
            return self.stream_of_loop(outer[0], emit, self.node.body)
        rets = [s for s in ast.walk(self.node) if isinstance(s, ast.Return) and s.value is not None]
        if len(rets) != 1:
            raise bad('helper with %d returns' % len(rets), self.node, self.where)
        return self.stream_of_expr(rets[0].value, self.node.body)

    # ---------------------------------------------------------------- producer-level selectors
    def loops_with(self, pred: Any) -> List[ast.For]:
        """innermost for loops / comprehensions are handled by the callers; here: for loops whose body satisfies pred"""
        loops = [l for l in ast.walk(self.node) if isinstance(l, ast.For) and any(pred(st) for st in l.body)]
        return [l for l in loops if not any(i is not l and any(i is x for x in ast.walk(l)) and any(pred(st) for st in i.body)
                                            for i in loops)]

    def stream_feeding_call(self, callee_pred: Any, what: str) -> Stream:
        """the elements handed, one by one, to a call selected by callee_pred (a recursive call, taglink(...), ...):
        a for loop whose body contains the call, or a comprehension whose element contains it"""
        def has_call(node: ast.AST) -> bool:
            return any(isinstance(c, ast.Call) and callee_pred(c) for c in ast.walk(node))
        found: List[Stream] = []
        for comp in [n for n in ast.walk(self.node) if isinstance(n, (ast.ListComp, ast.GeneratorExp, ast.SetComp))]:
            if has_call(comp.elt) and len(comp.generators) == 1 and isinstance(comp.generators[0].target, ast.Name) \
                    and self.mentions(comp.elt, {comp.generators[0].target.id}):
                found.append(self.stream_of_expr(comp, self.node.body))
        for loop in self.loops_with(lambda st: has_call(st)):
            if not isinstance(loop.target, ast.Name):
                continue
            names = self.aliases_of(loop.target.id, loop.body)

            def emit(st: ast.stmt, _names: Set[str] = names) -> bool:
                return any(isinstance(c, ast.Call) and callee_pred(c) and self.mentions(c, _names) for c in ast.walk(st))
            if any(emit(st) for st in loop.body):
                found.append(self.stream_of_loop(loop, emit, self.node.body))
        if len(found) != 1:
            raise bad('%s: expected exactly one loop / comprehension feeding %s (found %d)' % (self.where, what, len(found)), self.node, self.where)
        return found[0]

    def param_guards(self, param: str, emit: Any) -> Tuple[bool, bool]:
        """guards on a PARAMETER that hold at every emit statement of the function body (`if not ob.isVisible: return`)"""
        body = self.node.body
        if body and isinstance(body[0], ast.Expr) and isinstance(body[0].value, ast.Constant) and isinstance(body[0].value.value, str):
            body = body[1:]
        g = self.body_guards(body, {param}, emit)
        if g is None:
            raise bad('no statement uses parameter %r' % param, self.node, self.where)
        return g


def call_named(*names: str) -> Any:
    def pred(c: ast.Call) -> bool:
        f = c.func
        n = f.id if isinstance(f, ast.Name) else (f.attr if isinstance(f, ast.Attribute) else None)
        return n in names
    return pred


def returned(modname: str, qual: str) -> Tuple[str, bool, bool]:
    fn = Fn(modname, qual)
    return fn.returned_stream().triple()


def returned_per_branch(modname: str, qual: str, flag: str) -> Tuple[Tuple[str, bool, bool], Tuple[str, bool, bool]]:
    """a function with `if <flag>: return A else: return B` (in either order / with an early return)"""
    fn = Fn(modname, qual)
    body = [s for s in fn.node.body if not (isinstance(s, ast.Expr) and isinstance(s.value, ast.Constant))]
    ifs = [s for s in body if isinstance(s, ast.If)]
    if len(ifs) != 1:
        raise bad('%s: expected one `if %s` statement' % (qual, flag), fn.node, fn.where)
    st = ifs[0]
    t = ast.unparse(st.test)
    pos = t in (flag, '%s is True' % flag, '%s == True' % flag)
    neg = t in ('not %s' % flag, '%s is False' % flag)
    if not (pos or neg):
        raise bad('%s: test %r' % (qual, t), st, fn.where)
    after = body[body.index(st) + 1:]
    else_body = st.orelse or after

    def ret_of(stmts: List[ast.stmt]) -> Tuple[str, bool, bool]:
        rets = [s for x in stmts for s in ast.walk(x) if isinstance(s, ast.Return) and s.value is not None]
        if len(rets) != 1:
            raise bad('%s: expected one return per branch' % qual, fn.node, fn.where)
        return fn.stream_of_expr(rets[0].value, stmts).triple()
    a, b = ret_of(st.body), ret_of(else_body)
    return (a, b) if pos else (b, a)


# =============================================================================== behavioural checks on fixtures
FIXTURE = [
    ('pkg', None, True, '"""Package."""\nCONST = 1\n"""c"""\ndef top():\n    "t"\n'),
    ('hid', 'pkg', False, '"""h"""\nclass H:\n    "h"\n    def m(self):\n        "d"\n    def only(self):\n        "o"\n    y = 2\n'),
    ('mod', 'pkg', False,
     '"""m"""\nfrom pkg.hid import H\nclass B(H):\n    "b"\n    def f(self):\n        "d"\n    def g(self):\n        "g"\n    x = 1\n'
     '    class N:\n        "n"\n        z = 3\nclass C(B):\n    "c"\n    def f(self):\n        pass\n    def _p(self):\n        "p"\n'
     'class Cl\u00e9:\n    "e"\n    def m\u00e9(self):\n        "x"\ndef dup():\n    "1"\ndef dup():\n    pass\n_v = 2\n'),
    ('__main__', 'pkg', False, '"""main"""\ndef run():\n    "r"\n'),
    ('sub', 'pkg', True, '"""s"""\n'),
    ('leaf', 'pkg.sub', False, '"""l"""\nclass L:\n    "l"\n'),
    # the root's own short name, repeated inside it (tqdm/tqdm.py)
    ('pkg', 'pkg', False, '"""inner"""\nclass pkg:\n    "same name"\n    def pkg(self):\n        "again"\n'),
]
RULESETS = [
    [],
    [('HIDDEN', 'pkg.hid')],
    [('HIDDEN', 'pkg.mod.B'), ('PRIVATE', 'pkg.mod.C.f'), ('PUBLIC', 'pkg.mod.C._p')],
    [('HIDDEN', 'pkg.__main__'), ('PRIVATE', 'pkg.mod.B.x'), ('HIDDEN', 'pkg.mod.B.f')],
    [('PRIVATE', 'pkg'), ('HIDDEN', 'pkg.mod.B.N'), ('PRIVATE', 'pkg.hid.H.m'), ('HIDDEN', 'pkg.sub')],
]


def build_system(rules: List[Tuple[str, str]], extra_root: bool) -> Any:
    from pydoctor import model
    s = model.System()
    s.options.verbosity = -10          # the fixtures are not a documentation run: no messages
    s.options.privacy = [(getattr(model.PrivacyClass, lv), pat) for lv, pat in rules]
    b = s.systemBuilder(s)
    for name, parent, is_pkg, text in FIXTURE:
        b.addModuleString(text, name, parent_name=parent, is_package=is_pkg)
    if extra_root:
        b.addModuleString('"""other root"""\nclass O:\n    "o"\n    def q(self):\n        "q"\n', 'other')
    b.buildModules()
    return s


def behaviour_checks() -> Dict[str, bool]:
    """Runs the live functions on the fixtures; returns the measured flags; raises Shape on any difference from what
    Model/Site.v mirrors."""
    from pydoctor import model, linker
    from pydoctor.templatewriter import util, summary, search
    from pydoctor.templatewriter.pages import table as table_mod, sidebar as sidebar_mod, functionchild, attributechild
    PC = model.PrivacyClass
    flags: Dict[str, Set[bool]] = {k: set() for k in ('taglink_drops', 'css_private', 'row_css', 'child_css', 'sidebar_private',
                                                      'modsummary_private', 'search_privacy')}

    def differ(what: str, obj: Any, got: Any, want: Any) -> Shape:
        return bad('behaviour of %s on %r differs from what Model/Site.v mirrors: got %r, expected %r' % (what, obj, got, want))

    def find_tag(t: Any, name: str) -> List[Any]:
        out = []
        stack = [t]
        while stack:
            x = stack.pop()
            if isinstance(x, (list, tuple)):
                stack.extend(x)
            elif hasattr(x, 'tagName'):
                if x.tagName == name:
                    out.append(x)
                stack.extend(getattr(x, 'children', []))
        return out

    def words(c: Any) -> Set[str]:
        return set(str(c or '').split())

    for rules in RULESETS:
        for extra in (False, True):
            try:
                s = build_system(rules, extra)
            except Exception as e:
                raise bad('cannot build the fixture system: %s: %s' % (type(e).__name__, e))
            objs = list(s.allobjects.values())
            roots = list(s.root_names)

            def eff(o: Any) -> Any:
                raw = s.privacyClass(o)
                return PC.PRIVATE if isinstance(o, model.Module) and o.name == '__main__' else raw

            def r_full(o: Any) -> str:
                return o.name if o.parent is None else r_full(o.parent) + '.' + o.name

            def r_vis(o: Any) -> bool:
                return eff(o) is not PC.HIDDEN and (o.parent is None or r_vis(o.parent))

            def r_page(o: Any) -> Any:
                return o if isinstance(o, (model.Module, model.Class)) else o.parent

            def r_url(o: Any) -> str:
                p = r_page(o)
                pu = 'index.html' if roots == [r_full(p)] else _quote(r_full(p)) + '.html'
                return pu if p is o else pu + '#' + _quote(o.name)
            try:
                for o in objs:
                    if o.fullName() != r_full(o):
                        raise differ('Documentable.fullName', o, o.fullName(), r_full(o))
                    if o.privacyClass is not eff(o):
                        raise differ('privacyClass (Module: __main__ is PRIVATE)', o, o.privacyClass, eff(o))
                    if bool(o.isVisible) != r_vis(o):
                        raise differ('Documentable.isVisible', o, o.isVisible, r_vis(o))
                    if bool(o.isPrivate) != (eff(o) is not PC.PUBLIC):
                        raise differ('Documentable.isPrivate', o, o.isPrivate, eff(o) is not PC.PUBLIC)
                    if o.page_object is not r_page(o):
                        raise differ('Documentable.page_object', o, o.page_object, r_page(o))
                    if o.url != r_url(o):
                        raise differ('Documentable.url', o, o.url, r_url(o))
                # ---- taglink
                ctxs = ['', 'nameIndex.html', 'index.html'] + sorted({r_url(r_page(o)) for o in objs})
                for o in objs:
                    for ctx in ctxs:
                        for label in (None, 'lbl'):
                            t = linker.taglink(o, ctx, label)
                            links = find_tag(t, 'a')
                            u = r_url(o)
                            want_href = u[len(ctx):] if ctx and u.startswith(ctx + '#') else u
                            if r_vis(o):
                                if len(links) != 1 or links[0].attributes.get('href') != want_href \
                                        or 'internal-link' not in words(links[0].attributes.get('class')):
                                    raise differ('linker.taglink(%r, %r)' % (r_full(o), ctx), o,
                                                 [l.attributes for l in links], {'href': want_href, 'class': 'internal-link'})
                                want_title = None if label is None else r_full(o)
                                if links[0].attributes.get('title') != want_title:
                                    raise differ('linker.taglink title', o, links[0].attributes.get('title'), want_title)
                            else:
                                if not links:
                                    flags['taglink_drops'].add(True)
                                elif len(links) == 1 and links[0].attributes.get('href') == want_href:
                                    flags['taglink_drops'].add(False)
                                else:
                                    raise differ('linker.taglink of a hidden target', o, [l.attributes for l in links], 'no <a> or the plain link')
                # ---- markers
                for o in objs:
                    if not r_vis(o):
                        continue
                    css = words(util.css_class(o))
                    flags['css_private'].add(('private' in css) == (eff(o) is PC.PRIVATE))
                    if o.parent is not None:
                        for holder in {o.parent} | ({c for c in objs if isinstance(c, model.Class) and isinstance(o.parent, model.Class)
                                                     and o.parent in c.mro() and c is not o.parent}):
                            row = object.__new__(table_mod.TableRow)
                            row.ob, row.child, row.docgetter = holder, o, None
                            got = words(row.class_(None, None))
                            flags['row_css'].add(('private' in got) == ('private' in css))
                        item = object.__new__(sidebar_mod.ContentItem)
                        item.child, item.ob, item.documented_ob = o, o.parent, o.parent
                        flags['sidebar_private'].add(('private' in words(item.class_(None, None))) == bool(eff(o) is not PC.PUBLIC))
                    if isinstance(o, (model.Function, model.Attribute)):
                        cls_ = functionchild.FunctionChild if isinstance(o, model.Function) else attributechild.AttributeChild
                        ch = object.__new__(cls_)
                        ch.ob, ch.docgetter, ch._functionExtras = o, None, []
                        flags['child_css'].add(('private' in words(ch.class_(None, None))) == ('private' in css))
                        if ch.functionAnchor(None, None) != r_full(o) or ch.shortFunctionAnchor(None, None) != o.name \
                                or ch.anchorHref(None, None) != '#' + o.name:
                            raise differ('anchor renderers of %s' % cls_.__name__, o,
                                         [ch.functionAnchor(None, None), ch.shortFunctionAnchor(None, None), ch.anchorHref(None, None)],
                                         [r_full(o), o.name, '#' + o.name])
                    if isinstance(o, model.Module):
                        li = summary.moduleSummary(o, 'moduleIndex.html')
                        flags['modsummary_private'].add(('private' in words(li.attributes.get('class'))) == (eff(o) is not PC.PUBLIC))
                docs = {str(d['id']): d for d in search.get_all_documents_flattenable(s)}
                for o in objs:
                    if r_full(o) in docs and r_vis(o) and s.allobjects.get(r_full(o)) is o:
                        flags['search_privacy'].add(str(docs[r_full(o)].get('privacy')) == eff(o).name)
                        if str(docs[r_full(o)].get('url')) != r_url(o):
                            raise differ("the 'url' field of search documents", o, docs[r_full(o)].get('url'), r_url(o))
                # ---- class helpers
                got_cls = list(s.objectsOfType(model.Class))
                want_cls = [o for o in objs if isinstance(o, model.Class)]
                if got_cls != want_cls:
                    raise differ('System.objectsOfType(Class)', s, got_cls, want_cls)
                for c in want_cls:
                    mro = list(c.mro())
                    chains = [tuple(reversed(mro[:i + 1])) for i in range(len(mro))]
                    if list(util.nested_bases(c)) != chains:
                        raise differ('util.nested_bases', c, list(util.nested_bases(c)), chains)
                    members = [(ch, list(util.unmasked_attrs(ch))) for ch in chains]
                    members = [(ch, at) for ch, at in members if at]
                    got_m = [(tuple(ch), list(at)) for ch, at in util.class_members(c)]
                    if got_m != members:
                        raise differ('util.class_members', c, got_m, members)
                    inh = [a for ch, at in members if len(ch) > 1 for a in at]
                    if list(util.inherited_members(c)) != inh:
                        raise differ('util.inherited_members', c, list(util.inherited_members(c)), inh)
                    for ch in chains:
                        masking = {x.name for b in ch[1:] for x in b.contents.values()}
                        cand = [x for x in ch[0].contents.values() if x.name not in masking]
                        got_u = list(util.unmasked_attrs(ch))
                        if [x for x in got_u if x not in cand] or [x for x in cand if r_vis(x) and x not in got_u]:
                            raise differ('util.unmasked_attrs (masking)', ch, got_u, [x for x in cand if r_vis(x)])
            except Shape:
                raise
            except Exception as e:
                raise bad('a live function could not be run on the fixture (%s: %s)' % (type(e).__name__, e))
    # ---- the compact module index: > 50 submodules none of which has submodules
    try:
        from twisted.web.template import Tag
        for n, nested, want_compact in ((50, False, False), (51, False, True), (51, True, False)):
            s = model.System()
            s.options.verbosity = -10
            s.options.privacy = [(PC.PRIVATE, 'big.m03')]
            b = s.systemBuilder(s)
            b.addModuleString('"""big"""', 'big', is_package=True)
            for i in range(n - (1 if nested else 0)):
                b.addModuleString('"""m"""', 'm%02d' % i, parent_name='big')
            if nested:
                b.addModuleString('"""sub"""', 'subp', parent_name='big', is_package=True)
                b.addModuleString('"""deep"""', 'deep', parent_name='big.subp')
            b.buildModules()
            li = summary.moduleSummary(s.allobjects['big'], 'moduleIndex.html')
            compact = [x for x in find_tag(li, 'li') if 'compact-modules' in words(x.attributes.get('class'))]
            if bool(compact) != want_compact:
                raise differ('summary.moduleSummary: compact form with %d submodules (nested=%s)' % (n, nested), 'big', bool(compact), want_compact)
            if compact:
                spans = find_tag(compact[0], 'span')
                hrefs = sorted(a.attributes.get('href') for sp in spans for a in find_tag(sp, 'a'))
                if hrefs != sorted('big.m%02d.html' % i for i in range(n)):
                    raise differ('compact module index: links', 'big', hrefs[:3], 'big.mNN.html for every submodule')
                for sp in spans:
                    hs = [a.attributes.get('href') for a in find_tag(sp, 'a')]
                    flags['modsummary_private'].add(('private' in words(sp.attributes.get('class'))) == (hs == ['big.m03.html']))
    except Shape:
        raise
    except Exception as e:
        raise bad('summary.moduleSummary could not be run on the compact fixture (%s: %s)' % (type(e).__name__, e))

    out: Dict[str, bool] = {}
    # taglink: measured (True = the href of a hidden target is dropped); must be uniform
    if len(flags['taglink_drops']) != 1:
        raise bad('linker.taglink treats hidden targets inconsistently: %s' % sorted(flags['taglink_drops']))
    out['taglink_drops'] = next(iter(flags['taglink_drops']))
    for k in ('css_private', 'row_css', 'child_css', 'sidebar_private', 'modsummary_private', 'search_privacy'):
        if not flags[k]:
            raise bad('marker %s was not exercised by the fixtures' % k)
        out[k] = flags[k] == {True}       # the marker is in place iff it agreed on EVERY fixture object
    return out


# =============================================================================== generate
def generate() -> Dict[str, str]:
    beh = behaviour_checks()
    P = 'pydoctor.templatewriter.pages'
    U = 'pydoctor.templatewriter.util'
    S = 'pydoctor.templatewriter.summary'
    SE = 'pydoctor.templatewriter.search'
    L: List[Tuple[str, str, Tuple[str, bool, bool]]] = []

    def add(field: str, src: str, res: Tuple[str, bool, bool]) -> None:
        L.append((field, src, res))

    add('t_children', 'pages.CommonPage.children', returned(P, 'CommonPage.children'))
    add('t_methods', 'pages.CommonPage.methods', returned(P, 'CommonPage.methods'))
    add('t_pkg_children', 'pages.PackagePage.children -> model.Module.submodules', returned(P, 'PackagePage.children'))
    # packageInitTable: the collection handed to ChildTable(...)
    pit = Fn(P, 'PackagePage.packageInitTable')
    calls = [c for c in ast.walk(pit.node) if isinstance(c, ast.Call) and call_named('ChildTable')(c)]
    if len(calls) != 1 or len(calls[0].args) < 3:
        raise bad('packageInitTable: expected one ChildTable(docgetter, ob, children, loader) call', pit.node, pit.where)
    add('t_pkg_init', 'pages.PackagePage.packageInitTable', pit.stream_of_expr(calls[0].args[2], pit.node.body).triple())
    add('t_pkg_methods', 'pages.PackagePage.methods', returned(P, 'PackagePage.methods'))
    add('t_table_rows', 'pages.table.ChildTable.rows',
        Fn(P + '.table', 'ChildTable.rows').stream_feeding_call(call_named('TableRow'), 'TableRow(...)').triple())
    add('t_unmasked', 'util.unmasked_attrs', returned(U, 'unmasked_attrs'))
    inh, direct = returned_per_branch(P + '.sidebar', 'ObjContent._children', 'inherited')
    add('t_sidebar_inherited', 'sidebar.ObjContent._children(inherited=True)', inh)
    add('t_sidebar_direct', 'sidebar.ObjContent._children(inherited=False)', direct)
    ms = Fn(S, 'moduleSummary')
    sub = ms.stream_feeding_call(call_named('moduleSummary'), 'the recursive moduleSummary(...) call')
    add('t_modsummary_sub', 'summary.moduleSummary -> model.Module.submodules', sub.triple())
    add('t_modindex_roots', 'summary.ModuleIndexPage.stuff',
        Fn(S, 'ModuleIndexPage.stuff').stream_feeding_call(call_named('moduleSummary'), 'moduleSummary(...)').triple())
    add('t_index_roots', 'summary.IndexPage.roots',
        Fn(S, 'IndexPage.roots').stream_feeding_call(call_named('taglink'), 'taglink(...)').triple())
    # findRootClasses: everything done with a class of the loop
    frc = Fn(S, 'findRootClasses')
    loops = [l for l in frc.node.body if isinstance(l, ast.For)]
    if len(loops) != 1 or not isinstance(loops[0].target, ast.Name):
        raise bad('findRootClasses: expected one top-level loop over the classes', frc.node, frc.where)
    names = frc.aliases_of(loops[0].target.id, loops[0].body)
    add('t_rootclasses', 'summary.findRootClasses',
        frc.stream_of_loop(loops[0], lambda st: Fn.mentions(st, names), frc.node.body).triple())
    add('t_subclasses_from', 'summary.subclassesFrom',
        Fn(S, 'subclassesFrom').stream_feeding_call(call_named('subclassesFrom'), 'the recursive subclassesFrom(...) call').triple())
    ni = Fn(S, 'NameIndexPage.__init__')
    loops = [l for l in ast.walk(ni.node) if isinstance(l, ast.For)]
    if len(loops) != 1 or not isinstance(loops[0].target, ast.Name):
        raise bad('NameIndexPage.__init__: expected one loop over the objects', ni.node, ni.where)
    nm = ni.aliases_of(loops[0].target.id, loops[0].body)
    add('t_nameindex', 'summary.NameIndexPage.__init__',
        ni.stream_of_loop(loops[0], lambda st: any(isinstance(c, ast.Call) and Fn.mentions(c, nm) and
                                                   isinstance(c.func, ast.Attribute) and c.func.attr in ('append', 'add', 'setdefault')
                                                   for c in ast.walk(st)), ni.node.body).triple())
    add('t_undocced', 'summary.UndocumentedSummaryPage.stuff',
        Fn(S, 'UndocumentedSummaryPage.stuff').stream_feeding_call(call_named('taglink'), 'taglink(...)').triple())
    add('t_alldocs', 'search.get_all_documents_flattenable', returned(SE, 'get_all_documents_flattenable'))
    add('t_corpus', 'search.LunrIndexWriter.get_corpus', returned(SE, 'LunrIndexWriter.get_corpus'))
    # inventory: loop over the subjects, recursion on the contents of each
    inv = Fn('pydoctor.sphinx', 'SphinxInventoryWriter._generateContent')
    rec = [c for c in ast.walk(inv.node) if isinstance(c, ast.Call) and call_named('_generateContent')(c)]
    if len(rec) != 1 or not rec[0].args:
        raise bad('_generateContent: expected one recursive call', inv.node, inv.where)
    rs = inv.stream_of_expr(rec[0].args[0], inv.node.body)
    if rs.domain != 'DContents':
        raise bad('_generateContent recurses on %s, not on the contents of the object' % rs.domain, rec[0], inv.where)
    st_inv = inv.stream_feeding_call(call_named('_generateLine'), '_generateLine(obj)')
    add('t_inventory', 'sphinx.SphinxInventoryWriter._generateContent (recursion on obj.contents.values())',
        ('DContents', st_inv.vis and True, st_inv.nospace))
    # writer: guard on the parameter + recursion over its contents
    wr = Fn('pydoctor.templatewriter.writer', 'TemplateWriter._writeDocsFor')
    param = [p for p in wr.params if p not in ('self', 'cls')][0]
    rec_w = wr.stream_feeding_call(call_named('_writeDocsFor'), 'the recursive _writeDocsFor(...) call')
    if rec_w.domain != 'DContents':
        raise bad('_writeDocsFor recurses over %s' % rec_w.domain, wr.node, wr.where)
    pg = wr.param_guards(param, lambda st: Fn.mentions(st, {param}))
    add('t_writer', 'writer.TemplateWriter._writeDocsFor', ('DContents', pg[0] or rec_w.vis, pg[1] or rec_w.nospace))
    # assembleList: the names that reach taglink / the result
    al = Fn(P, 'assembleList')
    loops = [l for l in al.node.body if isinstance(l, ast.For) and isinstance(l.target, ast.Name)
             and al.stream_of_expr(l.iter, al.node.body).domain == 'DGiven'
             and ast.unparse(l.iter) in al.params]
    if len(loops) != 1:
        raise bad('assembleList: expected one loop over the list of names (found %d)' % len(loops), al.node, al.where)
    an = al.aliases_of(loops[0].target.id, loops[0].body)
    add('t_assemble', 'pages.assembleList',
        al.stream_of_loop(loops[0], lambda st: any(isinstance(c, ast.Call) and Fn.mentions(c, an) and
                                                   isinstance(c.func, ast.Attribute) and c.func.attr in ('append', 'extend', 'add')
                                                   for c in ast.walk(st)) or
                          any(isinstance(c, ast.Call) and call_named('taglink')(c) and Fn.mentions(c, an) for c in ast.walk(st)),
                          al.node.body).triple())
    add('t_overriding', 'util.overriding_subclasses',
        Fn(U, 'overriding_subclasses').stream_feeding_call(call_named('overriding_subclasses'), 'the recursive call').triple())

    flags = [
        ('t_taglink_drops_hidden', 'linker.taglink renders only the label of a target that is not visible (measured on fixtures)', beh['taglink_drops']),
        ('t_css_private', "util.css_class has the word `private` exactly for PRIVATE objects (measured)", beh['css_private']),
        ('t_sidebar_private', 'sidebar.ContentItem.class_ has `private` exactly when child.isPrivate (measured)', beh['sidebar_private']),
        ('t_modsummary_private', "summary.moduleSummary marks private modules, normal and compact form (measured)", beh['modsummary_private']),
        ('t_search_privacy', "search documents carry 'privacy': ob.privacyClass.name (measured)", beh['search_privacy']),
        ('t_row_uses_css', 'table.TableRow.class_ carries the private marker of util.css_class(child), own and inherited rows (measured)', beh['row_css']),
        ('t_child_uses_css', 'FunctionChild.class_ and AttributeChild.class_ carry the private marker of util.css_class(ob) (measured)', beh['child_css']),
    ]

    lines = ['From Coq Require Import List Bool.', 'Import ListNotations.',
             'From PydoctorVerif Require Import Model.SiteTable.', '',
             '(* listing skeleton of the template writer as it is in the working tree of /repo NOW *)',
             'Definition table_now : table := {|']
    rows = []
    for field, src, (d, v, s_) in L:
        rows.append('  %s := {| l_domain := %s; l_visible := %s; l_nospace := %s |}  (* %s *)'
                    % (field, d, 'true' if v else 'false', 'true' if s_ else 'false', src))
    for field, what, val in flags:
        rows.append('  %s := %s  (* %s *)' % (field, 'true' if val else 'false', what))
    out_rows = []
    for i, r in enumerate(rows):
        code, _, com = r.partition('  (*')
        sep = ';' if i < len(rows) - 1 else ''
        out_rows.append('%s%s  (*%s' % (code, sep, com))
    lines.append('\n'.join(out_rows))
    lines.append('|}.')
    return {'Listings.v': '\n'.join(lines) + '\n'}


if __name__ == '__main__':
    print(generate()['Listings.v'])
