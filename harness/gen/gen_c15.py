"""Translator A for C15: what pydoctor's value colouriser does NOW with operator precedences, operator spellings and
string escaping -- extracted from BEHAVIOUR of the live code (PYTHONPATH=/repo), not from the shape of its source, so that
renaming locals, early returns, lookup tables, helper functions and the like do not matter:

  * precedences: astor.op_util.get_op_precedence(cls()) for every ast.unaryop / ast.operator / ast.boolop subclass (the
    function _OperatorDelimiter consults), astor.op_util.Precedence.highest and .Comma; that these two constants are the
    ones in force is probed: as a list element every operator is parenthesised, as a dict value none is
  * operator spellings: the real colouriser is run on  <op> a ,  a <op> b ,  a <boolop> b  built directly as ast nodes;
    the text between / before the operand links is the symbol it writes for that operator class
  * the character table of _str_escape: _str_escape(chr(c)) for EVERY code point that is not a surrogate; the table is
    the set of code points it changes.  That _str_escape treats a string character by character (and falls back to
    backslashreplace when a lone surrogate is present) is probed on a fixed set of mixed strings
  * the parenthesis arithmetic of _OperatorDelimiter is NOT translated (control flow is modelled by hand in
    Model/ExprPrint.v and tied by the correspondence check)

Fail-closed: any probe whose outcome does not have the expected form raises Unrecognised.  Output: Gen/TablesC15.v."""
from __future__ import annotations
import ast
from typing import Any, Dict, List, Tuple

UOPS = ['USub', 'UAdd', 'Not', 'Invert']
BOPS = ['Sub', 'Add', 'Mult', 'Div', 'FloorDiv', 'Mod', 'Pow', 'LShift', 'RShift', 'BitOr', 'BitXor', 'BitAnd', 'MatMult']
BOOLOPS = ['And', 'Or']


class Unrecognised(Exception):
    pass


def need(cond: Any, what: str) -> None:
    if not cond:
        raise Unrecognised('unrecognised shape: ' + what)


def coq_text(s: str) -> str:
    return '[' + '; '.join(str(ord(c)) for c in s) + ']'


def name(s: str) -> ast.Name:
    return ast.Name(id=s, ctx=ast.Load())


def shown_nodes(node: ast.AST) -> List[Tuple[str, str]]:
    """(kind, text) of the result nodes of the real colouriser on a freshly built node, without any limit."""
    from docutils import nodes
    from pydoctor.epydoc.markup._pyval_repr import colorize_pyval
    from pydoctor.epydoc.docutils import obj_reference
    ast.fix_missing_locations(node)
    r = colorize_pyval(node, linelen=0, maxlines=0, linebreakok=False)
    need(r.is_complete, 'probe expression was cut')
    out = []
    for n in r.to_node().children:
        if isinstance(n, obj_reference):
            out.append(('ref', n.astext()))
        elif isinstance(n, nodes.Text):
            out.append(('text', n.astext()))
        else:
            out.append(('other', n.astext()))
    return out


def symbol_between(nodes_: List[Tuple[str, str]], left: str, right: str, what: str) -> str:
    """The text written between the link to `left` (absent for a prefix operator) and the link to `right`."""
    ns = [n for n in nodes_ if n[1] != '' or n[0] == 'ref']
    if left:
        need(len(ns) >= 3 and ns[0] == ('ref', left) and ns[-1] == ('ref', right), what + ': operands not displayed as expected: %r' % (ns,))
        mid = ns[1:-1]
    else:
        need(len(ns) >= 2 and ns[-1] == ('ref', right), what + ': operand not displayed as expected: %r' % (ns,))
        mid = ns[:-1]
    need(all(k == 'text' for k, _ in mid), what + ': operator not written as plain text: %r' % (mid,))
    sym = ''.join(t for _, t in mid)
    need(sym != '' and '(' not in sym and ')' not in sym and '\n' not in sym, what + ': odd operator text %r' % (sym,))
    return sym


def text_of(node: ast.AST) -> str:
    return ''.join(t for _, t in shown_nodes(node))


def escape_table() -> List[Tuple[str, str]]:
    from pydoctor.epydoc.markup._pyval_repr import _str_escape
    table: List[Tuple[str, str]] = []
    for cp in range(0x110000):
        if 0xD800 <= cp <= 0xDFFF:
            continue
        c = chr(cp)
        r = _str_escape(c)
        need(isinstance(r, str), '_str_escape does not return str')
        if r != c:
            table.append((c, r))
    need(len(table) <= 64, '_str_escape changes %d characters: not a small escape table' % len(table))
    enc = dict(table)
    # character by character, and the lone-surrogate fallback
    probes = ["", "it's", "a\\b\n\t\r\f\v\0z", "x'y\"z", "café \U0001f600  ", "'" * 5, "\\n", "ab" * 50]
    for s in probes + [p + "\ud800" + p for p in probes] + ["\udfff", "𐀀"]:
        per_char = ''.join(enc.get(c, c) for c in s)
        want = per_char if not any(0xD800 <= ord(c) <= 0xDFFF for c in s) else \
            ''.join('\\u%04x' % ord(c) if 0xD800 <= ord(c) <= 0xDFFF else c for c in per_char)
        need(_str_escape(s) == want, '_str_escape is not the character-by-character map (+ backslashreplace of lone surrogates) '
                                     'on %r' % (s,))
    return sorted(table, key=lambda kv: ord(kv[0]))


def generate() -> Dict[str, str]:
    import astor.op_util as ou

    need(set(c.__name__ for c in ast.unaryop.__subclasses__()) == set(UOPS), 'set of ast.unaryop classes changed')
    need(set(c.__name__ for c in ast.operator.__subclasses__()) == set(BOPS), 'set of ast.operator classes changed')
    need(set(c.__name__ for c in ast.boolop.__subclasses__()) == set(BOOLOPS), 'set of ast.boolop classes changed')

    def prec(n: str) -> int:
        p = ou.get_op_precedence(getattr(ast, n)())
        need(isinstance(p, int) and 0 <= p < 10000, 'precedence of %s is not a small int' % n)
        return p

    highest = ou.Precedence.highest
    comma = ou.Precedence.Comma
    need(isinstance(highest, int) and isinstance(comma, int), 'Precedence constants')

    def mk(kind: str, n: str) -> ast.AST:
        if kind == 'u':
            return ast.UnaryOp(op=getattr(ast, n)(), operand=name('b'))
        if kind == 'b':
            return ast.BinOp(left=name('a'), op=getattr(ast, n)(), right=name('b'))
        return ast.BoolOp(op=getattr(ast, n)(), values=[name('a'), name('b')])

    usym = {n: symbol_between(shown_nodes(mk('u', n)), '', 'b', 'unary ' + n) for n in UOPS}
    bsym = {n: symbol_between(shown_nodes(mk('b', n)), 'a', 'b', 'binary ' + n) for n in BOPS}
    osym = {n: symbol_between(shown_nodes(mk('o', n)), 'a', 'b', 'boolean ' + n) for n in BOOLOPS}

    # the two precedence constants in force: every operator is parenthesised as a list element (Precedence.highest is
    # above every operator) and none as a dict value (Precedence.Comma is below every operator)
    for kind, names in (('u', UOPS), ('b', BOPS), ('o', BOOLOPS)):
        for n in names:
            bare = text_of(mk(kind, n))
            need(prec(n) < highest and comma <= prec(n), 'precedence of %s outside (Comma, highest)' % n)
            need(text_of(ast.List(elts=[mk(kind, n)], ctx=ast.Load())) == '[(' + bare + ')]',
                 '%s is not parenthesised as a list element' % n)
            need(text_of(ast.Dict(keys=[name('k')], values=[mk(kind, n)])) == '{k: ' + bare + '}',
                 '%s is parenthesised as a dict value' % n)

    esc = escape_table()

    L: List[str] = []
    L.append('From Coq Require Import NArith List.')
    L.append('Import ListNotations.')
    L.append('Local Open Scope N_scope.')
    L.append('')
    L.append('(* operator numbering (harness/impl/c15_colorize.py, Base/PyExpr.v):')
    L.append('   unary   ' + ' '.join('%d=%s' % (i, n) for i, n in enumerate(UOPS)))
    L.append('   binary  ' + ' '.join('%d=%s' % (i, n) for i, n in enumerate(BOPS)))
    L.append('   boolean ' + ' '.join('%d=%s' % (i, n) for i, n in enumerate(BOOLOPS)) + ' *)')

    def table(tname: str, names: List[str], f: Any, ty: str) -> None:
        L.append('Definition %s (i : N) : %s :=' % (tname, ty))
        L.append('  match i with')
        for i, n in enumerate(names):
            L.append('  | %d => %s' % (i, f(n)))
        L.append('  | _ => %s' % ('0' if ty == 'N' else '[]'))
        L.append('  end.')

    table('uop_prec_tab', UOPS, prec, 'N')
    table('bop_prec_tab', BOPS, prec, 'N')
    table('boolop_prec_tab', BOOLOPS, prec, 'N')
    L.append('Definition prec_highest : N := %d.' % highest)
    L.append('Definition prec_comma : N := %d.' % comma)
    table('uop_text_tab', UOPS, lambda n: coq_text(usym[n]), 'list N')
    table('bop_text_tab', BOPS, lambda n: coq_text(bsym[n]), 'list N')
    table('boolop_text_tab', BOOLOPS, lambda n: coq_text(osym[n]), 'list N')
    L.append('(* _str_escape on single characters: code point -> replacement, for every code point it changes *)')
    L.append('Definition str_escape_tab : list (N * list N) := [' +
             '; '.join('(%d, %s)' % (ord(c), coq_text(r)) for c, r in esc) + '].')
    return {'TablesC15.v': '\n'.join(L) + '\n'}
