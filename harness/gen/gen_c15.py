"""Translator A for C15: what pydoctor's value colouriser sees of operator precedences and spellings NOW.

Read from the live modules (PYTHONPATH=/repo):
  * astor.op_util.get_op_precedence(cls()) for every ast.unaryop / ast.operator / ast.boolop subclass, exactly as
    _pyval_repr._OperatorDelimiter calls it; astor.op_util.Precedence.highest and .Comma (the two constants used)
  * the operator spellings: the if/elif chains of PyvalColorizer._colorize_ast_unary_op / _binary_op / _bool_op are read
    from the source with `ast` -- `isinstance(pyval.op, ast.X)` -> `self._output('sym', None, state)`
  * the character table of _str_escape's inner enc(): `c == 'x'` -> replacement string
  * the numbers the parenthesis rule adds (the literal in every `parent_precedence += k` of _OperatorDelimiter.__init__)
    are NOT translated (control flow is modelled by hand in Model/ExprPrint.v and tied by the correspondence check)

Fail-closed: any unrecognised shape raises Unrecognised.  Output: Gen/TablesC15.v (definitions only)."""
from __future__ import annotations
import ast
import inspect
import textwrap
from typing import Any, Dict, List, Tuple

UOPS = ['USub', 'UAdd', 'Not', 'Invert']
BOPS = ['Sub', 'Add', 'Mult', 'Div', 'FloorDiv', 'Mod', 'Pow', 'LShift', 'RShift', 'BitOr', 'BitXor', 'BitAnd', 'MatMult']
BOOLOPS = ['And', 'Or']


class Unrecognised(Exception):
    pass


def need(cond: Any, what: str) -> None:
    if not cond:
        raise Unrecognised('unrecognised shape: ' + what)


def coq_text(s: str) -> str:
    return '[' + '; '.join(str(ord(c)) for c in s) + ']'


def op_chain(func: ast.FunctionDef, opvar: str) -> Dict[str, str]:
    """Collects {ast class name: symbol} from the if/elif chain `isinstance(<opvar>.op, ast.X)` -> self._output('sym', None, state)."""
    found: Dict[str, str] = {}

    def is_test(t: ast.AST) -> str:
        need(isinstance(t, ast.Call) and isinstance(t.func, ast.Name) and t.func.id == 'isinstance' and len(t.args) == 2,
             'operator test is not isinstance(..): ' + ast.dump(t))
        a0, a1 = t.args
        need(isinstance(a0, ast.Attribute) and a0.attr == 'op' and isinstance(a0.value, ast.Name) and a0.value.id == opvar,
             'operator test does not look at %s.op' % opvar)
        need(isinstance(a1, ast.Attribute) and isinstance(a1.value, ast.Name) and a1.value.id == 'ast',
             'operator test second argument is not ast.X')
        return a1.attr

    def sym_of(body: List[ast.stmt]) -> str:
        need(len(body) == 1 and isinstance(body[0], ast.Expr) and isinstance(body[0].value, ast.Call),
             'operator branch is not a single call')
        c = body[0].value
        need(isinstance(c.func, ast.Attribute) and c.func.attr == '_output' and len(c.args) == 3 and not c.keywords,
             'operator branch is not self._output(sym, None, state)')
        need(isinstance(c.args[0], ast.Constant) and isinstance(c.args[0].value, str), 'operator symbol is not a literal')
        need(isinstance(c.args[1], ast.Constant) and c.args[1].value is None, 'operator tag is not None')
        return c.args[0].value

    chains = [n for n in ast.walk(func) if isinstance(n, ast.If) and isinstance(n.test, ast.Call)
              and isinstance(n.test.func, ast.Name) and n.test.func.id == 'isinstance'
              and isinstance(n.test.args[0], ast.Attribute) and n.test.args[0].attr == 'op']
    heads = [c for c in chains if not any(c in other.orelse for other in chains)]
    need(len(heads) == 1, 'expected exactly one operator if/elif chain in ' + func.name)
    node: Any = heads[0]
    while True:
        name = is_test(node.test)
        need(name not in found, 'operator tested twice: ' + name)
        found[name] = sym_of(node.body)
        if len(node.orelse) == 1 and isinstance(node.orelse[0], ast.If):
            node = node.orelse[0]
        else:
            break
    return found


def escape_table(func: ast.FunctionDef) -> List[Tuple[str, str]]:
    inner = [n for n in func.body if isinstance(n, ast.FunctionDef) and n.name == 'enc']
    need(len(inner) == 1, '_str_escape has no inner enc()')
    enc = inner[0]
    need(len(enc.body) == 2 and isinstance(enc.body[0], ast.If) and isinstance(enc.body[1], ast.Return), 'enc() body shape')
    out: List[Tuple[str, str]] = []
    node: Any = enc.body[0]
    while True:
        t = node.test
        need(isinstance(t, ast.Compare) and len(t.ops) == 1 and isinstance(t.ops[0], ast.Eq) and isinstance(t.left, ast.Name)
             and t.left.id == 'c' and isinstance(t.comparators[0], ast.Constant) and isinstance(t.comparators[0].value, str)
             and len(t.comparators[0].value) == 1, 'enc() test is not c == <char>')
        b = node.body
        need(len(b) == 1 and isinstance(b[0], ast.Assign) and isinstance(b[0].targets[0], ast.Name) and b[0].targets[0].id == 'c'
             and isinstance(b[0].value, ast.Constant) and isinstance(b[0].value.value, str), 'enc() branch is not c = <str>')
        out.append((t.comparators[0].value, b[0].value.value))
        if len(node.orelse) == 1 and isinstance(node.orelse[0], ast.If):
            node = node.orelse[0]
        elif not node.orelse:
            break
        else:
            need(False, 'enc() has an else branch')
    # the rest of _str_escape: join, try encode utf-8, except -> backslashreplace
    src = ast.unparse(func)
    need("''.join(map(enc, s))" in src and "s.encode('utf-8')" in src
         and "s.encode('utf-8', 'backslashreplace').decode('utf-8')" in src, '_str_escape tail changed')
    return out


def generate() -> Dict[str, str]:
    import astor.op_util as ou
    from pydoctor.epydoc.markup import _pyval_repr as R

    need(set(c.__name__ for c in ast.unaryop.__subclasses__()) == set(UOPS), 'set of ast.unaryop classes changed')
    need(set(c.__name__ for c in ast.operator.__subclasses__()) == set(BOPS), 'set of ast.operator classes changed')
    need(set(c.__name__ for c in ast.boolop.__subclasses__()) == set(BOOLOPS), 'set of ast.boolop classes changed')

    def prec(name: str) -> int:
        p = ou.get_op_precedence(getattr(ast, name)())
        need(isinstance(p, int) and 0 <= p < 10000, 'precedence of %s is not a small int' % name)
        return p

    highest = ou.Precedence.highest
    comma = ou.Precedence.Comma
    need(isinstance(highest, int) and isinstance(comma, int), 'Precedence constants')

    src = textwrap.dedent(inspect.getsource(R.PyvalColorizer))
    cls = ast.parse(src).body[0]
    funcs = {n.name: n for n in cls.body if isinstance(n, ast.FunctionDef)}
    for f in ('_colorize_ast_unary_op', '_colorize_ast_binary_op', '_colorize_ast_bool_op'):
        need(f in funcs, 'PyvalColorizer.%s missing' % f)
    usym = op_chain(funcs['_colorize_ast_unary_op'], 'pyval')
    bsym = op_chain(funcs['_colorize_ast_binary_op'], 'pyval')
    osym = op_chain(funcs['_colorize_ast_bool_op'], 'pyval')
    need(set(usym) == set(UOPS), 'unary operators handled: %s' % sorted(usym))
    need(set(bsym) == set(BOPS), 'binary operators handled: %s' % sorted(bsym))
    need(set(osym) == set(BOOLOPS), 'boolean operators handled: %s' % sorted(osym))

    esc = escape_table(ast.parse(textwrap.dedent(inspect.getsource(R._str_escape))).body[0])

    # the precedence constants named in the source of the colouriser
    whole = inspect.getsource(R)
    need(whole.count('astor.op_util.Precedence.') == 2 and 'astor.op_util.Precedence.highest' in whole
         and 'astor.op_util.Precedence.Comma' in whole, 'Precedence constants used by _pyval_repr changed')

    L: List[str] = []
    L.append('From Coq Require Import NArith List.')
    L.append('Import ListNotations.')
    L.append('Local Open Scope N_scope.')
    L.append('')
    L.append('(* operator numbering (harness/impl/c15_colorize.py, Base/PyExpr.v):')
    L.append('   unary   ' + ' '.join('%d=%s' % (i, n) for i, n in enumerate(UOPS)))
    L.append('   binary  ' + ' '.join('%d=%s' % (i, n) for i, n in enumerate(BOPS)))
    L.append('   boolean ' + ' '.join('%d=%s' % (i, n) for i, n in enumerate(BOOLOPS)) + ' *)')

    def table(name: str, names: List[str], f: Any, ty: str) -> None:
        L.append('Definition %s (i : N) : %s :=' % (name, ty))
        L.append('  match i with')
        for i, n in enumerate(names):
            L.append('  | %d => %s' % (i, f(n)))
        L.append('  | _ => %s' % ('0' if ty == 'N' else '[]'))
        L.append('  end.')

    table('uop_prec_tab', UOPS, prec, 'N')
    table('bop_prec_tab', BOPS, prec, 'N')
    table('boolop_prec_tab', BOOLOPS, prec, 'N')
    L.append('Definition prec_highest : N := %d.' % highest)
    L.append('Definition prec_comma : N := %d.' % comma)
    table('uop_text_tab', UOPS, lambda n: coq_text(usym[n]), 'list N')
    table('bop_text_tab', BOPS, lambda n: coq_text(bsym[n]), 'list N')
    table('boolop_text_tab', BOOLOPS, lambda n: coq_text(osym[n]), 'list N')
    L.append('(* _str_escape.enc : code point -> replacement, in the order of the if/elif chain *)')
    L.append('Definition str_escape_tab : list (N * list N) := [' +
             '; '.join('(%d, %s)' % (ord(c), coq_text(r)) for c, r in esc) + '].')
    return {'TablesC15.v': '\n'.join(L) + '\n'}
