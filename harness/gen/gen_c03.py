"""Translator A for C03: the facts the AST builder's behaviour depends on NOW, extracted by PROBING the live pydoctor
(PYTHONPATH=/repo) -- small modules are built / the live methods are called and the answers tabulated -- never by matching
source text, so renamed locals, guard clauses, lookup tables, comprehensions, extracted helpers do not matter:

  * which base-class names make a class an EXCEPTION (every builtin class name probed)   -> std_lib_exceptions : list text
  * which module-level names are metadata, not documented variables                        -> module_meta_vars   : list text
  * which blocks stop an upper-case name from being a CONSTANT                             -> cf_if cf_while cf_for cf_try cf_with
  * the suite attribute astutils.NodeVisitor.get_children iterates, PROBED on the live classmethod with marker
    statements in every statement-list field of every compound statement class               -> children_attr : text
  * the names ModuleVistor._handleOldSchoolMethodDecoration accepts in `f = NAME(f)` and the kind it sets, PROBED on the
    live method for every builtin name (plus refusal probes)                     -> oldschool_names, oldschool_kinds

Fail-closed: any unrecognised shape raises Unrecognised.  Output: Gen/TablesC03.v (definitions only)."""
from __future__ import annotations
import ast
import inspect
import textwrap
from typing import Any, List


class Unrecognised(Exception):
    pass


def need(cond: Any, what: str) -> None:
    if not cond:
        raise Unrecognised('unrecognised shape: ' + what)


def coq_text(s: str) -> str:
    return '[' + '; '.join(str(ord(c)) for c in s) + ']'


def coq_text_list(l: List[str]) -> str:
    return '[\n    ' + ';\n    '.join('%s (* %s *)' % (coq_text(s), s) for s in l) + ']'


# ---------------------------------------------------------------------------------------------------------------
# Both facts below are extracted from the BEHAVIOUR of the live objects, not from their source text, so that renamed
# locals, guard clauses, lookup tables, comprehensions, helper functions ... do not matter.  Fail-closed: a behaviour the
# probe cannot express as the table it emits raises Unrecognised.

def children_attr() -> str:
    """Which suite of a compound statement NodeVisitor.get_children yields: probed on one node of every statement class
    that has statement-list fields, each field filled with distinguishable marker statements.  The answer must be one
    attribute name A with  list(get_children(node)) == getattr(node, A, [])  for every probe (same objects, same order)."""
    from pydoctor import astutils
    gc = astutils.NodeVisitor.get_children

    def marks(tag: str, n: int = 2) -> List[ast.stmt]:
        return [ast.Expr(value=ast.Constant(value='%s%d' % (tag, i))) for i in range(n)]
    probes: List[ast.AST] = []
    nm = ast.Name(id='x', ctx=ast.Load())
    probes.append(ast.Module(body=marks('mb'), type_ignores=[]))
    probes.append(ast.ClassDef(name='C', bases=[], keywords=[], body=marks('cb'), decorator_list=[]))
    args = ast.arguments(posonlyargs=[], args=[], kwonlyargs=[], kw_defaults=[], defaults=[])
    probes.append(ast.FunctionDef(name='f', args=args, body=marks('fb'), decorator_list=[]))
    probes.append(ast.AsyncFunctionDef(name='f', args=args, body=marks('ab'), decorator_list=[]))
    probes.append(ast.If(test=nm, body=marks('ib'), orelse=marks('io')))
    probes.append(ast.For(target=nm, iter=nm, body=marks('ob'), orelse=marks('oo')))
    probes.append(ast.While(test=nm, body=marks('wb'), orelse=marks('wo')))
    probes.append(ast.With(items=[ast.withitem(context_expr=nm)], body=marks('hb')))
    handler = ast.ExceptHandler(type=None, name=None, body=marks('eh'))
    probes.append(ast.Try(body=marks('tb'), handlers=[handler], orelse=marks('to'), finalbody=marks('tf')))
    probes.append(handler)
    probes.append(ast.Expr(value=ast.Constant(value=1)))           # a statement without suites
    probes.append(ast.Assign(targets=[nm], value=ast.IfExp(test=nm, body=nm, orelse=nm)))
    cands = ['body', 'orelse', 'finalbody', 'handlers']
    ok = []
    for a in cands:
        good = True
        for node in probes:
            got = list(gc(node))
            want = getattr(node, a, None)
            want = list(want) if isinstance(want, list) else []
            if len(got) != len(want) or any(x is not y for x, y in zip(got, want)):
                good = False
                break
        if good:
            ok.append(a)
    need(len(ok) == 1, 'NodeVisitor.get_children does not yield exactly one statement-list attribute of every node '
         '(candidates that fit all probes: %s)' % ok)
    return ok[0]


def oldschool_table() -> List[Any]:
    """Which `f = NAME(f)` re-bindings ModuleVistor._handleOldSchoolMethodDecoration accepts for a method f of the class being
    walked, and the kind it gives f: probed on the live method for every builtin name and a few others.  Also probed: the
    call is refused (False, kind untouched) when the argument is another name, when there are two arguments, when the
    callee is an attribute, and when the target is not a function.  Returns [(name, kind name)] in probe order."""
    import builtins
    from pydoctor import model, astbuilder

    def run(src: str, target: str = 'f', make_function: bool = True) -> Any:
        system = model.System()
        system.options.verbosity = -10
        mod = system.Module(system, 'probe_mod')
        system.addObject(mod)
        builder = system.defaultBuilder(system)
        builder.push(mod, 0)
        cls = builder.pushClass('C', 1)
        if make_function:
            builder.pushFunction('f', 2)
            builder.popFunction()
        else:
            builder.addAttribute(name='f', kind=model.DocumentableKind.CLASS_VARIABLE, parent=cls)
        vis = builder.ModuleVistor(builder, mod)
        expr = ast.parse(src, mode='eval').body
        before = cls.contents['f'].kind
        res = vis._handleOldSchoolMethodDecoration(target, expr)
        need(isinstance(res, bool), '_handleOldSchoolMethodDecoration does not return a bool')
        after = cls.contents['f'].kind
        need(res or after is before, '_handleOldSchoolMethodDecoration changed the kind but returned False on %r' % src)
        return res, after

    names = sorted(n for n in dir(builtins) if n.isidentifier()) + ['abstractmethod', 'cached_property', 'wraps', 'deco', 'zz', 'f']
    table = []
    for n in names:
        res, kind = run('%s(f)' % n)
        if res:
            table.append((n, kind.name))
    for bad, kw in [('staticmethod(g)', {}), ('staticmethod(f, f)', {}), ('staticmethod()', {}), ('builtins.staticmethod(f)', {}),
                    ('staticmethod(f.x)', {}), ('f', {}), ('classmethod(f)', {'make_function': False}),
                    ('staticmethod(f)', {'target': 'g'})]:
        res, _ = run(bad, **kw)
        need(res is False, '_handleOldSchoolMethodDecoration accepts %r %r' % (bad, kw))
    return table


def build_module(src: str) -> Any:
    """one module built by the live pydoctor (System + addModuleString + buildModules, post-processing included)"""
    from pydoctor import model
    system = model.System()
    system.options.verbosity = -10
    builder = system.systemBuilder(system)
    builder.addModuleString(src, 'probe_mod')
    builder.buildModules()
    return system.allobjects['probe_mod']


def exception_names() -> List[str]:
    """the base-class names that make a class an EXCEPTION for pydoctor: probed by building `class C_i(NAME): pass` for every
    builtin class name and a few others (whatever table, set or rule model.is_exception uses)"""
    import builtins
    cands = sorted(n for n in dir(builtins) if isinstance(getattr(builtins, n), type))
    cands += ['WindowsError', 'VMSError', 'StandardError', 'NotAnExceptionName', 'exceptions']
    mod = build_module(''.join('class C_%d(%s):\n    pass\n' % (i, n) for i, n in enumerate(cands)))
    out = []
    for i, n in enumerate(cands):
        c = mod.contents.get('C_%d' % i)
        need(c is not None and c.kind is not None and c.kind.name in ('CLASS', 'EXCEPTION'), 'probe class C_%d(%s) is not documented as a class' % (i, n))
        if c.kind.name == 'EXCEPTION':
            out.append(n)
    need('object' not in out and 'int' not in out, 'every class is an EXCEPTION for pydoctor')
    return out


def meta_var_names() -> List[str]:
    """module-level names whose assignment is metadata, not a documented variable: probed by building `NAME = 'x'`"""
    cands = ['__all__', '__docformat__', '__version__', '__author__', '__slots__', '__doc__', '__path__', 'x_plain']
    out = []
    for n in cands:
        mod = build_module("%s = %s\n" % (n, "['a']" if n == '__all__' else "'epytext'"))
        if n not in mod.contents:
            out.append(n)
    need('x_plain' not in out, 'a plain module variable is not documented')
    return out


def control_flow_flags() -> dict:
    """does an assignment inside this kind of block stop an upper-case name from being a CONSTANT (astbuilder.is_constant)?"""
    need(build_module('XCONST = 1\n').contents['XCONST'].kind.name == 'CONSTANT', 'a module-level upper-case name is not a CONSTANT')
    blocks = {'if': 'if 1:\n    XCONST = 1\n', 'while': 'while 1:\n    XCONST = 1\n    break\n',
              'for': 'for i in (0,):\n    XCONST = 1\n', 'try': 'try:\n    XCONST = 1\nexcept Exception:\n    pass\n',
              'with': 'with open(__file__):\n    XCONST = 1\n'}
    out = {}
    for k, src in blocks.items():
        o = build_module(src).contents.get('XCONST')
        need(o is not None and o.kind is not None, 'an assignment in the body of a `%s` block is not documented' % k)
        out[k] = o.kind.name != 'CONSTANT'
    return out


def generate() -> dict:
    exc = exception_names()
    meta = meta_var_names()
    cf = control_flow_flags()

    def b(x: bool) -> str:
        return 'true' if x else 'false'
    table = sorted(oldschool_table(), key=lambda t: (t[1] != 'STATIC_METHOD', t[1] != 'CLASS_METHOD', t[0]))   # canonical order
    kcode = {'FUNCTION': 0, 'METHOD': 1, 'CLASS_METHOD': 2, 'STATIC_METHOD': 3}
    need(all(k in kcode for _, k in table), '_handleOldSchoolMethodDecoration gives a kind that is not a function kind: %r' % (table,))
    out = ['From Coq Require Import NArith List Bool.', 'Import ListNotations.', 'Local Open Scope N_scope.', '',
           '(* base-class names that make a class an EXCEPTION (probed: model.is_exception / _STD_LIB_EXCEPTIONS) *)',
           'Definition std_lib_exceptions : list (list N) := ' + coq_text_list(list(exc)) + '.', '',
           '(* module-level names treated as metadata, not documented (probed: MODULE_VARIABLES_META_PARSERS) *)',
           'Definition module_meta_vars : list (list N) := ' + coq_text_list(meta) + '.', '',
           '(* does an assignment in the body of this block lose CONSTANT-ness (probed: is_constant / _CONTROL_FLOW_BLOCKS) *)',
           'Definition cf_if : bool := %s.' % b(cf['if']),
           'Definition cf_while : bool := %s.' % b(cf['while']),
           'Definition cf_for : bool := %s.' % b(cf['for']),
           'Definition cf_try : bool := %s.' % b(cf['try']),
           'Definition cf_with : bool := %s.' % b(cf['with']), '',
           '(* the suite attribute astutils.NodeVisitor.get_children iterates *)',
           'Definition children_attr : list N := %s. (* %s *)' % (coq_text(children_attr()), children_attr()), '',
           '(* the names _handleOldSchoolMethodDecoration accepts in `f = NAME(f)` (probed on the live method) ... *)',
           'Definition oldschool_names : list (list N) := ' + coq_text_list([n for n, _ in table]) + '.', '',
           '(* ... and the kind it gives the method: 2 = CLASS_METHOD, 3 = STATIC_METHOD (Model.Builder.fkind_Z) *)',
           'Definition oldschool_kinds : list (list N * N) := [' + '; '.join('(%s, %d)' % (coq_text(n), kcode[k]) for n, k in table) + '].', '']
    return {'TablesC03.v': '\n'.join(out)}
