"""Translator A for C03: the tables the AST builder consults NOW (read from the live modules, PYTHONPATH=/repo).

  * model._STD_LIB_EXCEPTIONS                      -> std_lib_exceptions : list text
  * astbuilder.MODULE_VARIABLES_META_PARSERS keys   -> module_meta_vars   : list text
  * astbuilder._CONTROL_FLOW_BLOCKS                 -> cf_if cf_while cf_for cf_try cf_with : bool
  * the suite attribute astutils.NodeVisitor.get_children iterates (source shape is checked: exactly
    `body = getattr(node, 'body', None); if body is not None: for child in body: yield child`)  -> children_attr : text
  * the two builtin names _handleOldSchoolMethodDecoration accepts (`func_name in [...]`)       -> oldschool_names : list text

Fail-closed: any unrecognised shape raises Unrecognised.  Output: Gen/TablesC03.v (definitions only)."""
from __future__ import annotations
import ast
import inspect
import textwrap
from typing import Any, List


class Unrecognised(Exception):
    pass


def need(cond: Any, what: str) -> None:
    if not cond:
        raise Unrecognised('unrecognised shape: ' + what)


def coq_text(s: str) -> str:
    return '[' + '; '.join(str(ord(c)) for c in s) + ']'


def coq_text_list(l: List[str]) -> str:
    return '[\n    ' + ';\n    '.join('%s (* %s *)' % (coq_text(s), s) for s in l) + ']'


def func_ast(f: Any) -> ast.FunctionDef:
    src = textwrap.dedent(inspect.getsource(f))
    t = ast.parse(src).body[0]
    need(isinstance(t, (ast.FunctionDef, ast.AsyncFunctionDef)), 'not a function: %r' % f)
    return t


def strip_doc(body: List[ast.stmt]) -> List[ast.stmt]:
    if body and isinstance(body[0], ast.Expr) and isinstance(body[0].value, ast.Constant) and isinstance(body[0].value.value, str):
        return body[1:]
    return body


def children_attr() -> str:
    from pydoctor import astutils
    gc = astutils.NodeVisitor.__dict__['get_children']
    need(isinstance(gc, classmethod), 'get_children is not a classmethod')
    f = func_ast(gc.__func__)
    body = strip_doc(f.body)
    need(len(body) == 2, 'get_children has %d statements, expected 2' % len(body))
    a, i = body
    need(isinstance(a, (ast.Assign, ast.AnnAssign)), 'get_children: first statement is not an assignment')
    val = a.value
    need(isinstance(val, ast.Call) and isinstance(val.func, ast.Name) and val.func.id == 'getattr' and len(val.args) == 3,
         'get_children: not getattr(node, <attr>, None)')
    need(isinstance(val.args[1], ast.Constant) and isinstance(val.args[1].value, str), 'get_children: attribute is not a literal')
    need(isinstance(val.args[2], ast.Constant) and val.args[2].value is None, 'get_children: default is not None')
    tgt = a.target if isinstance(a, ast.AnnAssign) else a.targets[0]
    need(isinstance(tgt, ast.Name), 'get_children: target is not a name')
    need(isinstance(i, ast.If) and not i.orelse and len(i.body) == 1 and isinstance(i.body[0], ast.For),
         'get_children: second statement is not `if body is not None: for ...`')
    loop = i.body[0]
    need(isinstance(loop.iter, ast.Name) and loop.iter.id == tgt.id and not loop.orelse and len(loop.body) == 1,
         'get_children: loop does not iterate the fetched attribute')
    y = loop.body[0]
    need(isinstance(y, ast.Expr) and isinstance(y.value, ast.Yield) and isinstance(y.value.value, ast.Name)
         and isinstance(loop.target, ast.Name) and y.value.value.id == loop.target.id, 'get_children: loop body is not `yield child`')
    return val.args[1].value


def oldschool_names() -> List[str]:
    from pydoctor import astbuilder
    f = func_ast(astbuilder.ModuleVistor._handleOldSchoolMethodDecoration)
    found: List[List[str]] = []
    for n in ast.walk(f):
        if isinstance(n, ast.Compare) and len(n.ops) == 1 and isinstance(n.ops[0], ast.In) and \
                isinstance(n.left, ast.Name) and n.left.id == 'func_name':
            c = n.comparators[0]
            need(isinstance(c, (ast.List, ast.Tuple)) and all(isinstance(e, ast.Constant) and isinstance(e.value, str) for e in c.elts),
                 '_handleOldSchoolMethodDecoration: `func_name in` is not followed by a literal list')
            found.append([e.value for e in c.elts])
    need(len(found) == 1, '_handleOldSchoolMethodDecoration: expected one `func_name in [...]` test, found %d' % len(found))
    return found[0]


def generate() -> dict:
    from pydoctor import model, astbuilder
    exc = model._STD_LIB_EXCEPTIONS
    need(isinstance(exc, tuple) and all(isinstance(x, str) for x in exc), '_STD_LIB_EXCEPTIONS is not a tuple of str')
    meta = list(astbuilder.MODULE_VARIABLES_META_PARSERS.keys())
    need(all(isinstance(x, str) for x in meta), 'MODULE_VARIABLES_META_PARSERS keys are not str')
    cfb = astbuilder._CONTROL_FLOW_BLOCKS
    need(isinstance(cfb, tuple) and all(isinstance(x, type) and issubclass(x, ast.AST) for x in cfb), '_CONTROL_FLOW_BLOCKS is not a tuple of ast classes')

    def b(x: bool) -> str:
        return 'true' if x else 'false'
    out = ['From Coq Require Import NArith List Bool.', 'Import ListNotations.', 'Local Open Scope N_scope.', '',
           '(* pydoctor.model._STD_LIB_EXCEPTIONS *)',
           'Definition std_lib_exceptions : list (list N) := ' + coq_text_list(list(exc)) + '.', '',
           '(* keys of pydoctor.astbuilder.MODULE_VARIABLES_META_PARSERS *)',
           'Definition module_meta_vars : list (list N) := ' + coq_text_list(meta) + '.', '',
           '(* membership in pydoctor.astbuilder._CONTROL_FLOW_BLOCKS *)',
           'Definition cf_if : bool := %s.' % b(ast.If in cfb),
           'Definition cf_while : bool := %s.' % b(ast.While in cfb),
           'Definition cf_for : bool := %s.' % b(ast.For in cfb),
           'Definition cf_try : bool := %s.' % b(ast.Try in cfb),
           'Definition cf_with : bool := %s.' % b(ast.With in cfb), '',
           '(* the suite attribute astutils.NodeVisitor.get_children iterates *)',
           'Definition children_attr : list N := %s. (* %s *)' % (coq_text(children_attr()), children_attr()), '',
           '(* the names _handleOldSchoolMethodDecoration accepts *)',
           'Definition oldschool_names : list (list N) := ' + coq_text_list(oldschool_names()) + '.', '']
    return {'TablesC03.v': '\n'.join(out)}
