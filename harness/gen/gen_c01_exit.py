"""Translator A for C01 (third part): the exit-status decision at the end of pydoctor/driver.py main(), i.e. the statements of the
`try` body after `make(system)` and the `return <local>` that follows the try, into the language of Model/ExitIR.v.
Fail-closed.  Normalisations: statements that only log (system.msg, a local function whose body only logs, loops whose body only
logs) are dropped; a same-module helper `x = helper(system)` / `x = helper(system, options)` whose body is in the language is inlined
with `return e` turned into an assignment to x (statements after an `if` that returns go into its else-branch)."""
import ast, inspect
from pathlib import Path


class Bad(ValueError):
    pass


def bad(what, node=None):
    raise Bad('unrecognised shape: %s%s' % (what, (' at line %d: %s' % (node.lineno, ast.unparse(node)[:90])) if node is not None else ''))


class T:
    def __init__(self, tree, sysname='system', optname='options'):
        self.tree = tree
        self.funcs = {f.name: f for f in tree.body if isinstance(f, ast.FunctionDef)}
        self.vars = {}
        self.loggers = set()        # local functions that only log
        self.aliases = {}           # local name -> primitive expression text
        self.sysname, self.optname = sysname, optname
        self.depth = 0

    def var(self, name):
        if name not in self.vars:
            self.vars[name] = len(self.vars)
        return 'x_%s' % name

    # ---- expressions
    def prim(self, e):
        s = ast.unparse(e)
        if s in ("%s.parse_errors['docstring']" % self.sysname, '%s.parse_errors["docstring"]' % self.sysname):
            return 'XDocErrs'
        if s == 'any(%s.parse_errors.values())' % self.sysname:
            return 'XAnyErrs'
        if s == '%s.violations' % self.sysname:
            return 'XViolations'
        if s == '%s.warnings_as_errors' % self.optname or s == '%s.options.warnings_as_errors' % self.sysname:
            return 'XWae'
        return None

    def expr(self, e):
        p = self.prim(e)
        if p:
            return p
        if isinstance(e, ast.Constant) and isinstance(e.value, bool):
            return 'XInt %d%%Z' % int(e.value)
        if isinstance(e, ast.Constant) and isinstance(e.value, int):
            return 'XInt %d%%Z' % e.value if e.value >= 0 else 'XInt (%d)%%Z' % e.value
        if isinstance(e, ast.Name):
            if e.id in self.aliases:
                return self.aliases[e.id]
            if e.id not in self.vars:
                bad('local %r read before it is bound' % e.id, e)
            return 'XVar %s' % self.var(e.id)
        if isinstance(e, ast.UnaryOp) and isinstance(e.op, ast.Not):
            return 'XNot (%s)' % self.expr(e.operand)
        if isinstance(e, ast.BoolOp):
            parts = [self.expr(v) for v in e.values]
            c = 'XAnd' if isinstance(e.op, ast.And) else 'XOr'
            r = parts[-1]
            for q in reversed(parts[:-1]):
                r = '%s (%s) (%s)' % (c, q, r)
            return r
        if isinstance(e, ast.Call) and isinstance(e.func, ast.Name) and e.func.id in ('bool', 'len') and len(e.args) == 1 and not e.keywords:
            return self.expr(e.args[0])        # only the truth value of these is ever used
        bad('expression', e)

    # ---- logging-only statements
    def only_logs(self, s):
        if isinstance(s, ast.Expr) and isinstance(s.value, ast.Call):
            f = s.value.func
            if isinstance(f, ast.Name) and f.id in self.loggers:
                return True
            if isinstance(f, ast.Name) and f.id in self.funcs and self.helper_only_logs(self.funcs[f.id], 0):
                return True
            if isinstance(f, ast.Attribute) and ast.unparse(f) == '%s.msg' % self.sysname:
                return True
            return False
        if isinstance(s, ast.FunctionDef):
            if all(self.only_logs(x) or isinstance(x, ast.Pass) for x in s.body if not (isinstance(x, ast.Expr) and isinstance(x.value, ast.Constant))):
                self.loggers.add(s.name)
                return True
            return False
        if isinstance(s, ast.For):
            return not s.orelse and all(self.only_logs(x) for x in s.body)
        if isinstance(s, ast.Pass) or (isinstance(s, ast.Expr) and isinstance(s.value, ast.Constant)):
            return True
        return False

    def helper_only_logs(self, fn, depth):
        """a module-level function all of whose statements log (msg() on one of its parameters, local printers, loops of those,
        calls of other such helpers): calling it has no effect on the exit status"""
        if depth > 2 or fn.decorator_list:
            return False
        params = {a.arg for a in fn.args.args}
        local_loggers = set()
        def ok(st):
            if isinstance(st, ast.Pass) or (isinstance(st, ast.Expr) and isinstance(st.value, ast.Constant)):
                return True
            if isinstance(st, ast.FunctionDef):
                if all(ok(x) for x in st.body):
                    local_loggers.add(st.name)
                    return True
                return False
            if isinstance(st, ast.For):
                return not st.orelse and all(ok(x) for x in st.body)
            if isinstance(st, ast.If):
                return all(ok(x) for x in st.body + st.orelse)
            if isinstance(st, ast.Expr) and isinstance(st.value, ast.Call):
                f = st.value.func
                if isinstance(f, ast.Attribute) and f.attr == 'msg' and isinstance(f.value, ast.Name) and f.value.id in params:
                    return True
                if isinstance(f, ast.Name) and f.id in local_loggers:
                    return True
                if isinstance(f, ast.Name) and f.id in self.funcs and self.funcs[f.id] is not fn:
                    return self.helper_only_logs(self.funcs[f.id], depth + 1)
            return False
        return all(ok(x) for x in fn.body)

    # ---- statements; `ret` = local receiving `return e` when translating an inlined helper
    def block(self, stmts, ret=None):
        out = []
        for i, s in enumerate(stmts):
            if self.only_logs(s):
                continue
            if isinstance(s, ast.Return):
                if ret is None or s.value is None:
                    bad('return', s)
                out.append('XAssign %s (%s)' % (self.var(ret), self.expr(s.value)))
                if any(not self.only_logs(x) for x in stmts[i + 1:]):
                    bad('statements after return', s)
                break
            if (isinstance(s, ast.For) and not s.orelse and isinstance(s.target, ast.Name) and len(s.body) == 1
                    and ast.unparse(s.iter) == '%s.parse_errors.values()' % self.sysname and isinstance(s.body[0], ast.If)
                    and isinstance(s.body[0].test, ast.Name) and s.body[0].test.id == s.target.id and not s.body[0].orelse
                    and self.always_returns(s.body[0].body)):
                # for v in system.parse_errors.values(): if v: ...; return E      ==   if any(system.parse_errors.values()): ...; return E
                s = ast.copy_location(ast.If(test=ast.parse('any(%s.parse_errors.values())' % self.sysname, mode='eval').body,
                                             body=s.body[0].body, orelse=[]), s)
                ast.fix_missing_locations(s)
            if isinstance(s, ast.If):
                c = self.expr(s.test)
                if ret is not None and self.always_returns(s.body) and not s.orelse:
                    # if c: ...; return X      followed by the rest   ==   if c: ... else: rest
                    th = self.block(s.body, ret)
                    el = self.block(stmts[i + 1:], ret)
                    out.append('XIf (%s) (%s) (%s)' % (c, th, el))
                    break
                out.append('XIf (%s) (%s) (%s)' % (c, self.block(s.body, ret), self.block(s.orelse, ret)))
                continue
            if isinstance(s, (ast.Assign, ast.AnnAssign)):
                tgt = s.targets[0] if isinstance(s, ast.Assign) and len(s.targets) == 1 else getattr(s, 'target', None)
                if not isinstance(tgt, ast.Name) or s.value is None:
                    bad('assignment', s)
                v = s.value
                if isinstance(v, ast.Call) and isinstance(v.func, ast.Name) and v.func.id in self.funcs and not v.keywords:
                    out.append(self.inline(self.funcs[v.func.id], v, tgt.id))
                    continue
                p = self.prim(v)
                if p and tgt.id not in self.vars:
                    self.aliases[tgt.id] = p        # x = system.parse_errors['docstring']  : a name for the primitive
                    continue
                out.append('XAssign %s (%s)' % (self.var(tgt.id), self.expr(v)))
                continue
            bad('statement %s' % type(s).__name__, s)
        r = 'XSkip'
        for o in reversed(out):
            r = o if r == 'XSkip' else 'XSeq (%s) (%s)' % (o, r)
        return r

    def always_returns(self, stmts):
        live = [x for x in stmts if not self.only_logs(x)]
        return bool(live) and isinstance(live[-1], ast.Return)

    def inline(self, fn, call, target):
        if self.depth >= 2:
            bad('helper nesting', call)
        names = [a.arg for a in fn.args.args]
        if len(names) != len(call.args) or fn.args.vararg or fn.args.kwarg or fn.decorator_list:
            bad('helper signature', fn)
        sub = T(self.tree)
        sub.vars, sub.depth = self.vars, self.depth + 1
        sub.sysname = sub.optname = '@none'
        for n, a in zip(names, call.args):
            if isinstance(a, ast.Name) and a.id == self.sysname:
                sub.sysname = n
            elif isinstance(a, ast.Name) and a.id == self.optname:
                sub.optname = n
            elif self.prim(a) or (isinstance(a, ast.Name) and a.id in self.aliases):
                # a primitive handed over by value (e.g. options.warnings_as_errors): the parameter names it
                sub.aliases[n] = self.prim(a) or self.aliases[a.id]
            else:
                bad('helper argument', call)
        self.var(target)
        body = sub.block(fn.body, ret=target)
        return body


def generate() -> dict:
    from pydoctor import driver
    tree = ast.parse(Path(inspect.getsourcefile(driver)).read_text())
    mains = [f for f in tree.body if isinstance(f, ast.FunctionDef) and f.name == 'main']
    if len(mains) != 1:
        bad('driver.main not found exactly once')
    main = mains[0]
    body = [s for s in main.body if not (isinstance(s, ast.Expr) and isinstance(s.value, ast.Constant))]
    tries = [s for s in body if isinstance(s, ast.Try)]
    if len(tries) != 1 or not isinstance(body[-1], ast.Return) or not isinstance(body[-1].value, ast.Name):
        bad('main: expected one try statement and a final `return <local>`', main)
    t = tries[0]
    if t.orelse or t.finalbody:
        bad('main: try with else/finally', t)
    for h in t.handlers:          # the handler must re-raise: it may not turn a failure into a status
        if not (h.body and isinstance(h.body[-1], ast.Raise) and h.body[-1].exc is None):
            bad('main: an except clause that does not re-raise', h)
    result = body[-1].value.id
    tr = T(tree)
    # statements of main before the try that initialise the result
    pre = [s for s in body[:body.index(t)] if isinstance(s, ast.Assign) and isinstance(s.targets[0], ast.Name) and s.targets[0].id == result]
    if len(pre) != 1:
        bad('main: the returned local is not initialised exactly once before the try', main)
    idx = [i for i, s in enumerate(t.body) if isinstance(s, ast.Expr) and isinstance(s.value, ast.Call) and ast.unparse(s.value.func) == 'make']
    if len(idx) != 1:
        bad('main: expected exactly one make(system) call in the try body', t)
    system_name = ast.unparse(t.body[idx[0]].value.args[0])
    tr.sysname = system_name
    code = tr.block(pre + t.body[idx[0] + 1:])
    if result not in tr.vars:
        bad('main: the returned local is never assigned', main)
    lines = ['From Coq Require Import ZArith NArith List.', 'Import ListNotations.',
             'From PydoctorVerif Require Import Model.ExitIR.', 'Local Open Scope N_scope.', '']
    for py, i in tr.vars.items():
        lines.append('Definition x_%s : xvar := %d.' % (py, i))
    import textwrap
    lines.append('Definition code_exit_body : xstmt :=')
    lines.append(textwrap.fill(code, 110, initial_indent='  ', subsequent_indent='  ', break_long_words=False) + '.')
    lines.append('')
    lines.append('Definition exit_code_of_main : exit_code := {| xc_body := code_exit_body; xc_result := x_%s |}.' % result)
    return {'ExitCode.v': '\n'.join(lines) + '\n'}


if __name__ == '__main__':
    print(generate()['ExitCode.v'])
