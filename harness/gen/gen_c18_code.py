"""Translator A for C18 (second part): the BODIES of pydoctor/model.py
    System.addPackage, System.addModuleFromPath                      -> language D of Model/DiscoveryIR.v
    System._addUnprocessedModule, System._handleDuplicateModule      -> language R of Model/DiscoveryIR.v
translated statement by statement into Gen/DiscoveryCode.v.  Proofs/DiscoveryIRProofs.v proves, for every directory tree,
listing order, registry state and module, that interpreting THIS output is add_package / add_module_from_path / reg_add of
Model/Determinism.v (the functions C18_fs_order_free / C18_run_deterministic are about); so a change to the discovery order or
to the duplicate rule in model.py changes Gen/DiscoveryCode.v and breaks a proof obligation, not only the sampled
correspondence.

Fail-closed: any statement, expression, receiver or call outside the recognised shapes aborts the generation with
`unrecognised shape`.  What is normalised: names of parameters and locals; `x = list(p.iterdir()); x.sort(); for e in x`
and `for e in sorted(x)` = `for e in sorted(p.iterdir())`; a local bound to a side-effect-free expression (a constant, `path.name`,
`first._is_c_module or isinstance(first, Package)`, `replaced.parent`, `self.unprocessed_modules`) is replaced by it; a local bound to
an effect-free value outside the language (`len(self.allobjects)`) is dropped and becomes unreadable; a same-class helper taking
`first` that only wraps recognised statements is inlined; `for m in G(first)` over a module-level generator G of the work-list shape
is the work list; `try: L.remove(x) except ValueError: pass` = `if x in L: L.remove(x)`;
`next((s for s in all_suffixes() if name.endswith(s)), None)` is the primitive DFirstSuffix; == / != / not; truthiness of
`first`; calls without effect on the modelled state (self.msg / self.progress / <module>.report with side-effect-free
arguments, `self.module_count += 1`) are dropped; guard clauses (`continue` / `return`) are ordinary statements of the
language, so nested-if and early-exit forms translate to different terms with the same interpretation."""
import ast, inspect, textwrap
from pathlib import Path


class Bad(ValueError):
    pass


def bad(what, node=None):
    raise Bad('unrecognised shape: %s%s' % (what, (' at line %d: %s' % (node.lineno, ast.unparse(node)[:100])) if node is not None else ''))


def strip_doc(body):
    if body and isinstance(body[0], ast.Expr) and isinstance(body[0].value, ast.Constant) and isinstance(body[0].value.value, str):
        return body[1:]
    return body


def coq_text(s: str) -> str:
    return '[' + '; '.join(str(ord(c)) for c in s) + ']%N'


def is_self_attr(e, name):
    return isinstance(e, ast.Attribute) and isinstance(e.value, ast.Name) and e.value.id == 'self' and e.attr == name


def is_name(e, name):
    return isinstance(e, ast.Name) and e.id == name


def pure(e) -> bool:
    for sub in ast.walk(e):
        if isinstance(sub, ast.Call):
            f = sub.func
            ok = (isinstance(f, ast.Name) and f.id in ('len', 'str', 'repr')) or \
                 (isinstance(f, ast.Attribute) and f.attr in ('fullName', 'format', 'join'))
            if not ok:
                return False
        elif isinstance(sub, (ast.Await, ast.Yield, ast.YieldFrom, ast.NamedExpr, ast.Lambda)):
            return False
    return True


def seq(parts, skip, ctor):
    parts = [p for p in parts if p is not None]
    if not parts:
        return skip
    r = parts[-1]
    for q in reversed(parts[:-1]):
        r = '%s (%s) (%s)' % (ctor, q, r)
    return r


def dropped_call(c: ast.Call, modvars) -> bool:
    """self.msg(..) / self.progress(..) / <module var>.report(..) with pure arguments"""
    f = c.func
    if not isinstance(f, ast.Attribute):
        return False
    ok = (isinstance(f.value, ast.Name) and f.value.id == 'self' and f.attr in ('msg', 'progress')) or \
         (isinstance(f.value, ast.Name) and f.value.id in modvars and f.attr == 'report')
    if ok and not (all(pure(a) for a in c.args) and all(pure(k.value) for k in c.keywords)):
        bad('arguments of a dropped call have effects', c)
    return ok


# ================================================================================ locals that only name a pure expression
INLINE_METHODS = {'startswith', 'endswith', 'is_dir', 'exists', 'get', 'fullName'}


def inlinable(e) -> bool:
    """side-effect free and cheap to re-evaluate: names, attributes, constants, comparisons, not/and/or, `/` on paths,
    isinstance(..), and a few read-only methods.  A local bound to such an expression is replaced by it."""
    for sub in ast.walk(e):
        if isinstance(sub, (ast.Name, ast.Attribute, ast.Constant, ast.Compare, ast.BoolOp, ast.UnaryOp, ast.Load,
                            ast.And, ast.Or, ast.Not, ast.Eq, ast.NotEq, ast.Is, ast.IsNot, ast.In, ast.NotIn, ast.Div)):
            continue
        if isinstance(sub, ast.BinOp) and isinstance(sub.op, ast.Div):
            continue
        if isinstance(sub, ast.Call) and not sub.keywords:
            f = sub.func
            if isinstance(f, ast.Name) and f.id == 'isinstance':
                continue
            if isinstance(f, ast.Attribute) and f.attr in INLINE_METHODS:
                continue
        return False
    return True


class Subst(ast.NodeTransformer):
    def __init__(self, aliases):
        self.aliases = aliases

    def visit_Name(self, node):
        if isinstance(node.ctx, ast.Load) and node.id in self.aliases:
            import copy
            return copy.deepcopy(self.aliases[node.id])
        return node


class Inliner:
    def init_inliner(self):
        self.aliases = {}
        self.dead = set()

    def subst_stmt(self, s):
        """the statement with every aliased local replaced by what it names (targets of assignments excepted)"""
        import copy
        s = copy.deepcopy(s)
        if isinstance(s, (ast.Assign, ast.AnnAssign)):
            if s.value is not None:
                s.value = Subst(self.aliases).visit(s.value)
            return s
        if isinstance(s, (ast.If, ast.While)):
            s.test = Subst(self.aliases).visit(s.test)
            return s                      # the bodies are substituted when they are translated
        if isinstance(s, ast.For):
            s.iter = Subst(self.aliases).visit(s.iter)
            return s
        if isinstance(s, ast.Try):
            return s
        return ast.fix_missing_locations(Subst(self.aliases).visit(s))

    def try_alias(self, s) -> bool:
        """`x = <pure expression>`: remember it; `x = <effect-free value outside the language>` (len(..)): x becomes unreadable"""
        tgt = s.targets[0] if isinstance(s, ast.Assign) and len(s.targets) == 1 else getattr(s, 'target', None)
        if not isinstance(tgt, ast.Name) or s.value is None:
            return False
        if inlinable(s.value):
            self.aliases[tgt.id] = s.value
            self.dead.discard(tgt.id)
            return True
        if pure(s.value) and all(isinstance(c.func, ast.Name) and c.func.id == 'len'
                                 for c in ast.walk(s.value) if isinstance(c, ast.Call)):
            self.aliases.pop(tgt.id, None)
            self.dead.add(tgt.id)
            return True
        return False


# ================================================================================ language D
class Discovery(Inliner):
    def __init__(self, fn, kind):
        self.fn, self.kind = fn, kind           # kind: 'pkg' | 'mod'
        a = fn.args
        if a.vararg or a.kwarg or a.kwonlyargs or a.posonlyargs:
            bad('parameter list of %s' % fn.name, fn)
        ps = [x.arg for x in a.args]
        if len(ps) != 3 or ps[0] != 'self':
            bad('parameters of %s' % fn.name, fn)
        self.path, self.parent = ps[1], ps[2]
        self.init_inliner()
        self.pkgvar = None                      # addPackage: the local holding the new package
        self.loopvar = None
        self.seqvars = {}                       # local -> 'listing' | 'sorted'
        self.namevars = set()                   # addModuleFromPath: locals bound to path.name
        self.sfxvar = None
        self.sfx_optional = False               # the suffix was chosen with next(.., None)
        self.modvar = None

    # -- addPackage
    def is_listing(self, e):
        return (isinstance(e, ast.Call) and isinstance(e.func, ast.Attribute) and e.func.attr == 'iterdir'
                and is_name(e.func.value, self.path) and not e.args and not e.keywords)

    def listing_copy(self, e):
        """list(p.iterdir()) / [x for x in p.iterdir()] / tuple(..)"""
        if isinstance(e, ast.Call) and isinstance(e.func, ast.Name) and e.func.id in ('list', 'tuple') and len(e.args) == 1 and not e.keywords:
            return self.is_listing(e.args[0]) or self.listing_copy(e.args[0])
        if isinstance(e, (ast.ListComp, ast.GeneratorExp)) and len(e.generators) == 1:
            g = e.generators[0]
            return (not g.ifs and isinstance(g.target, ast.Name) and is_name(e.elt, g.target.id) and self.is_listing(g.iter))
        return False

    def loop_source(self, it):
        """-> 'sorted' | 'listing'"""
        if self.is_listing(it) or self.listing_copy(it):
            return 'listing'
        if isinstance(it, ast.Name) and it.id in self.seqvars:
            return self.seqvars[it.id]
        if isinstance(it, ast.Call) and isinstance(it.func, ast.Name) and it.func.id == 'sorted' and len(it.args) == 1:
            if it.keywords:
                bad('sorted() of the directory listing with key=/reverse= (not expressible: the model sorts by name)', it)
            inner = it.args[0]
            if self.is_listing(inner) or self.listing_copy(inner) or (isinstance(inner, ast.Name) and inner.id in self.seqvars):
                return 'sorted'
        bad('loop source', it)

    def expr(self, e):
        if isinstance(e, ast.Constant) and isinstance(e.value, bool):
            return 'DConst %s' % ('true' if e.value else 'false')
        if isinstance(e, ast.UnaryOp) and isinstance(e.op, ast.Not):
            return 'DNot (%s)' % self.expr(e.operand)
        if isinstance(e, ast.BoolOp):
            parts = [self.expr(v) for v in e.values]
            ctor = 'DAnd' if isinstance(e.op, ast.And) else 'DOr'
            r = parts[-1]
            for q in reversed(parts[:-1]):
                r = '%s (%s) (%s)' % (ctor, q, r)
            return r
        if self.kind == 'pkg' and self.loopvar:
            v = self.loopvar
            if isinstance(e, ast.Call) and isinstance(e.func, ast.Attribute) and not e.args and not e.keywords:
                f = e.func
                if f.attr == 'is_dir' and is_name(f.value, v):
                    return 'DIsDir'
                if f.attr == 'exists' and isinstance(f.value, ast.BinOp) and isinstance(f.value.op, ast.Div) \
                        and is_name(f.value.left, v) and isinstance(f.value.right, ast.Constant) and f.value.right.value == '__init__.py':
                    return 'DHasInit'
            name_of_v = lambda x: isinstance(x, ast.Attribute) and x.attr == 'name' and is_name(x.value, v)
            if isinstance(e, ast.Compare) and len(e.ops) == 1 and isinstance(e.ops[0], (ast.Eq, ast.NotEq)):
                l, r = e.left, e.comparators[0]
                if name_of_v(r) and isinstance(l, ast.Constant):
                    l, r = r, l
                if name_of_v(l) and isinstance(r, ast.Constant) and isinstance(r.value, str):
                    t = 'DNameIs %s' % coq_text(r.value)
                    return t if isinstance(e.ops[0], ast.Eq) else 'DNot (%s)' % t
            if isinstance(e, ast.Call) and isinstance(e.func, ast.Attribute) and e.func.attr == 'startswith' and name_of_v(e.func.value) \
                    and len(e.args) == 1 and isinstance(e.args[0], ast.Constant) and isinstance(e.args[0].value, str) and not e.keywords:
                return 'DNameStartsWith %s' % coq_text(e.args[0].value)
        if self.kind == 'mod':
            if isinstance(e, ast.Call) and isinstance(e.func, ast.Attribute) and e.func.attr == 'endswith' and self.is_fname(e.func.value) \
                    and len(e.args) == 1 and self.sfxvar and is_name(e.args[0], self.sfxvar) and not e.keywords:
                return 'DEndsWith'
            if isinstance(e, ast.Compare) and len(e.ops) == 1 and isinstance(e.ops[0], (ast.In, ast.NotIn)) and self.sfxvar \
                    and is_name(e.left, self.sfxvar):
                t = ast.unparse(e.comparators[0])
                which = {'importlib.machinery.EXTENSION_SUFFIXES': 'DSuffixInExt', 'importlib.machinery.SOURCE_SUFFIXES': 'DSuffixInSrc'}.get(t)
                if which:
                    return which if isinstance(e.ops[0], ast.In) else 'DNot (%s)' % which
            if ast.unparse(e) == 'self.options.introspect_c_modules':
                return 'DOptIntrospect'
            if isinstance(e, ast.Compare) and len(e.ops) == 1 and isinstance(e.ops[0], (ast.Is, ast.IsNot, ast.Eq, ast.NotEq)) \
                    and self.sfxvar and self.sfx_optional and is_name(e.left, self.sfxvar) \
                    and isinstance(e.comparators[0], ast.Constant) and e.comparators[0].value is None:
                return 'DSuffixIsNone' if isinstance(e.ops[0], (ast.Is, ast.Eq)) else 'DNot (DSuffixIsNone)'
        bad('condition', e)

    def is_fname(self, e):
        return (isinstance(e, ast.Name) and e.id in self.namevars) or \
               (isinstance(e, ast.Attribute) and e.attr == 'name' and is_name(e.value, self.path))

    def block(self, stmts):
        return seq([self.stmt(s) for s in stmts], 'DSkip', 'DSeq')

    def first_suffix_call(self, v):
        """next((s for s in importlib.machinery.all_suffixes() if <name>.endswith(s)), None)"""
        if not (isinstance(v, ast.Call) and isinstance(v.func, ast.Name) and v.func.id == 'next' and len(v.args) == 2 and not v.keywords
                and isinstance(v.args[1], ast.Constant) and v.args[1].value is None and isinstance(v.args[0], ast.GeneratorExp)):
            return False
        g = v.args[0]
        if len(g.generators) != 1:
            return False
        gen = g.generators[0]
        if not (isinstance(gen.target, ast.Name) and is_name(g.elt, gen.target.id) and len(gen.ifs) == 1
                and ast.unparse(gen.iter) == 'importlib.machinery.all_suffixes()'):
            return False
        t = gen.ifs[0]
        return (isinstance(t, ast.Call) and isinstance(t.func, ast.Attribute) and t.func.attr == 'endswith' and self.is_fname(t.func.value)
                and len(t.args) == 1 and is_name(t.args[0], gen.target.id) and not t.keywords)

    def stmt(self, s):
        s = self.subst_stmt(s)
        if isinstance(s, ast.Pass):
            return None
        if isinstance(s, ast.Continue):
            return 'DContinue'
        if isinstance(s, ast.Break):
            return 'DBreak'
        if isinstance(s, ast.Return):
            if s.value is not None and not (isinstance(s.value, ast.Constant) and s.value.value is None):
                bad('return value', s)
            return 'DReturn'
        if isinstance(s, ast.If):
            return 'DIf (%s) (%s) (%s)' % (self.expr(s.test), self.block(s.body), self.block(s.orelse))
        if isinstance(s, (ast.Assign, ast.AnnAssign)):
            tgt = s.targets[0] if isinstance(s, ast.Assign) and len(s.targets) == 1 else getattr(s, 'target', None)
            v = s.value
            if not isinstance(tgt, ast.Name) or v is None:
                bad('assignment', s)
            if self.kind == 'pkg':
                if self.is_analyze_self(v):
                    if self.loopvar:
                        bad('the package is created inside the loop', s)
                    self.pkgvar = tgt.id
                    return 'DAnalyzeSelf'
                if self.listing_copy(v) or self.is_listing(v):
                    self.seqvars[tgt.id] = 'listing'
                    return None
                if isinstance(v, ast.Call) and isinstance(v.func, ast.Name) and v.func.id == 'sorted':
                    self.seqvars[tgt.id] = self.loop_source(v)
                    return None
            else:
                if (isinstance(v, ast.Subscript) and self.is_fname(v.value) and isinstance(v.slice, ast.Slice) and v.slice.lower is None
                        and v.slice.step is None and self.sfxvar and ast.unparse(v.slice.upper) == '-len(%s)' % self.sfxvar):
                    self.modvar = tgt.id
                    return 'DStrip'
                if self.first_suffix_call(v):
                    if self.sfxvar:
                        bad('second choice of the suffix', s)
                    self.sfxvar, self.sfx_optional = tgt.id, True
                    return 'DFirstSuffix'
            if self.try_alias(s):
                return None
            bad('assignment', s)
        if isinstance(s, ast.For):
            if s.orelse or not isinstance(s.target, ast.Name):
                bad('for loop', s)
            if self.kind == 'pkg':
                if self.loopvar:
                    bad('nested loop', s)
                src = self.loop_source(s.iter)
                self.loopvar = s.target.id
                body = self.block(s.body)
                self.loopvar = None
                return '%s (%s)' % ('DForSorted' if src == 'sorted' else 'DForListing', body)
            if ast.unparse(s.iter) != 'importlib.machinery.all_suffixes()' or self.sfxvar:
                bad('loop source', s)
            self.sfxvar = s.target.id
            body = self.block(s.body)
            self.sfxvar = None
            self.modvar = None
            return 'DForSuffixes (%s)' % body
        if isinstance(s, ast.Expr) and isinstance(s.value, ast.Call):
            c = s.value
            f = c.func
            if dropped_call(c, set()):
                return None
            if self.kind == 'pkg' and isinstance(f, ast.Attribute) and f.attr == 'sort' and isinstance(f.value, ast.Name) \
                    and f.value.id in self.seqvars:
                if c.args or c.keywords:
                    bad('sort of the directory listing with key=/reverse=', s)
                self.seqvars[f.value.id] = 'sorted'
                return None
            if isinstance(f, ast.Attribute) and is_name(f.value, 'self') and not c.keywords:
                if self.kind == 'pkg' and self.loopvar and self.pkgvar and len(c.args) == 2 \
                        and is_name(c.args[0], self.loopvar) and is_name(c.args[1], self.pkgvar):
                    if f.attr == self.fn.name:
                        return 'DRecurse'
                    if f.attr == 'addModuleFromPath':
                        return 'DAddModule'
                if self.kind == 'mod' and self.modvar and len(c.args) == 3 and is_name(c.args[0], self.path) \
                        and is_name(c.args[1], self.modvar) and is_name(c.args[2], self.parent):
                    if f.attr == 'analyzeModule':
                        return 'DAnalyzeMod'
                    if f.attr == 'introspectModule':
                        return 'DIntrospect'
            bad('call', s)
        bad('statement %s' % type(s).__name__, s)

    def is_analyze_self(self, v):
        """self.analyzeModule(P / '__init__.py', P.name, parent, is_package=True)"""
        if not (isinstance(v, ast.Call) and isinstance(v.func, ast.Attribute) and v.func.attr == 'analyzeModule' and is_name(v.func.value, 'self')):
            return False
        args = list(v.args)
        kw = {k.arg: k.value for k in v.keywords}
        names = ['modpath', 'modname', 'parentPackage', 'is_package']
        for n in names[len(args):]:
            if n not in kw:
                bad('analyzeModule call of addPackage', v)
            args.append(kw.pop(n))
        if kw or len(args) != 4:
            bad('analyzeModule call of addPackage', v)
        ok = (ast.unparse(args[0]) == "%s / '__init__.py'" % self.path and ast.unparse(args[1]) == '%s.name' % self.path
              and is_name(args[2], self.parent) and isinstance(args[3], ast.Constant) and args[3].value is True)
        if not ok:
            bad('analyzeModule call of addPackage', v)
        return True


# ================================================================================ language R
class Registry(Inliner):
    def __init__(self, fn, kind):
        self.fn, self.kind = fn, kind           # 'aup' | 'hd'
        a = fn.args
        if a.vararg or a.kwarg or a.kwonlyargs or a.posonlyargs or a.defaults:
            bad('parameter list of %s' % fn.name, fn)
        ps = [x.arg for x in a.args]
        if kind == 'aup':
            if len(ps) != 2 or ps[0] != 'self':
                bad('parameters of %s' % fn.name, fn)
            self.mod, self.first = ps[1], None
        else:
            if len(ps) != 3 or ps[0] != 'self':
                bad('parameters of %s' % fn.name, fn)
            self.first, self.mod = ps[1], ps[2]
        self.init_inliner()
        self.cls = None         # the class body, to inline same-class helpers
        self.module = None      # the module, to recognise the tree generator
        self.depth = 0
        self.wl = None          # (list var, item var) inside the work list
        self.pending_wl = None  # list var after `W = [first]`

    def expr(self, e):
        F, M = self.first, self.mod
        if isinstance(e, ast.Constant) and isinstance(e.value, bool):
            return 'RConst %s' % ('true' if e.value else 'false')
        if isinstance(e, ast.UnaryOp) and isinstance(e.op, ast.Not):
            return 'RNot (%s)' % self.expr(e.operand)
        if isinstance(e, ast.BoolOp):
            parts = [self.expr(v) for v in e.values]
            ctor = 'RAnd' if isinstance(e.op, ast.And) else 'ROr'
            r = parts[-1]
            for q in reversed(parts[:-1]):
                r = '%s (%s) (%s)' % (ctor, q, r)
            return r
        if F and is_name(e, F):
            return 'RNot (RFirstIsNone)'                     # truthiness of a module object / None
        if isinstance(e, ast.Compare) and len(e.ops) == 1:
            op, l, r = e.ops[0], e.left, e.comparators[0]
            none_r = isinstance(r, ast.Constant) and r.value is None
            if isinstance(op, (ast.Is, ast.IsNot, ast.Eq, ast.NotEq)) and none_r:
                pos = isinstance(op, (ast.Is, ast.Eq))
                if F and is_name(l, F):
                    return 'RFirstIsNone' if pos else 'RNot (RFirstIsNone)'
                if F and ast.unparse(l) == '%s.parent' % F:
                    return 'RNot (RFirstHasParent)' if pos else 'RFirstHasParent'
            if isinstance(op, (ast.Is, ast.IsNot, ast.Eq, ast.NotEq)) and ast.unparse(l) == '%s.state' % M \
                    and ast.unparse(r) == 'ProcessingState.UNPROCESSED':
                return 'RModUnprocessed' if isinstance(op, (ast.Is, ast.Eq)) else 'RNot (RModUnprocessed)'
            if F and isinstance(op, (ast.Is, ast.IsNot)) and is_name(r, F) \
                    and ast.unparse(l) == '%s.parent.contents.get(%s.name)' % (F, F):
                return 'RParentHoldsFirst' if isinstance(op, ast.Is) else 'RNot (RParentHoldsFirst)'
            if isinstance(op, (ast.In, ast.NotIn)):
                if F and is_name(l, F) and is_self_attr(r, 'rootobjects'):
                    return 'RFirstInRoots' if isinstance(op, ast.In) else 'RNot (RFirstInRoots)'
                if self.wl and is_name(l, self.wl[1]) and is_self_attr(r, 'unprocessed_modules'):
                    return 'RItemInUnproc' if isinstance(op, ast.In) else 'RNot (RItemInUnproc)'
        if isinstance(e, ast.Call) and isinstance(e.func, ast.Name) and e.func.id == 'isinstance' and len(e.args) == 2 and not e.keywords:
            who, cls = e.args
            if F and is_name(who, F) and is_name(cls, 'Module'):
                return 'RFirstIsModule'
            if F and is_name(who, F) and is_name(cls, 'Package'):
                return 'RFirstIsPackage'
            if self.kind == 'hd' and is_name(who, M) and is_name(cls, 'Package'):
                return 'RDupIsPackage'
        if F and ast.unparse(e) == '%s._is_c_module' % F:
            return 'RFirstIsC'
        bad('condition', e)

    def block(self, stmts):
        out = []
        i = 0
        while i < len(stmts):
            s = stmts[i]
            # the work list: W = [first]; while W: I = W.pop(); body
            if (self.kind == 'hd' and isinstance(s, (ast.Assign, ast.AnnAssign)) and i + 1 < len(stmts)
                    and isinstance(stmts[i + 1], ast.While)):
                tgt = s.targets[0] if isinstance(s, ast.Assign) and len(s.targets) == 1 else getattr(s, 'target', None)
                w = stmts[i + 1]
                if (isinstance(tgt, ast.Name) and isinstance(s.value, ast.List) and len(s.value.elts) == 1
                        and is_name(s.value.elts[0], self.first) and is_name(w.test, tgt.id) and not w.orelse and w.body):
                    pop = w.body[0]
                    if (isinstance(pop, ast.Assign) and len(pop.targets) == 1 and isinstance(pop.targets[0], ast.Name)
                            and ast.unparse(pop.value) in ('%s.pop()' % tgt.id, '%s.pop(0)' % tgt.id, '%s.pop(-1)' % tgt.id)):
                        if self.wl:
                            bad('nested work list', w)
                        self.wl = (tgt.id, pop.targets[0].id)
                        body = self.block(w.body[1:])
                        self.wl = None
                        out.append('RWorklist (%s)' % body)
                        i += 2
                        continue
                bad('while loop (only the work list `W = [first]; while W: x = W.pop(); ...` is in the language)', w)
            out.append(self.stmt(s))
            i += 1
        return seq(out, 'RSkip', 'RSeq')

    def tree_generator(self, call):
        """G(first) where G is a module-level generator of the shape
             W = [root] | deque([root]); while W: x = W.pop() | W.popleft() | W.pop(0); yield x; W.extend(<Module children of x>)
           (yield and extend in either order): it yields root and every module nested in it"""
        if not (isinstance(call, ast.Call) and isinstance(call.func, ast.Name) and len(call.args) == 1 and not call.keywords
                and is_name(call.args[0], self.first) and self.module is not None):
            return False
        fs = [n for n in self.module.body if isinstance(n, ast.FunctionDef) and n.name == call.func.id]
        if len(fs) != 1 or len(fs[0].args.args) != 1:
            return False
        g = fs[0]
        root = g.args.args[0].arg
        body = strip_doc(g.body)
        if len(body) != 2 or not isinstance(body[0], (ast.Assign, ast.AnnAssign)) or not isinstance(body[1], ast.While):
            return False
        tgt = body[0].targets[0] if isinstance(body[0], ast.Assign) else body[0].target
        init = ast.unparse(body[0].value)
        if not isinstance(tgt, ast.Name) or init not in ('[%s]' % root, 'deque([%s])' % root, 'collections.deque([%s])' % root):
            return False
        w = body[1]
        if not is_name(w.test, tgt.id) or w.orelse or len(w.body) != 3:
            return False
        pop = w.body[0]
        if not (isinstance(pop, ast.Assign) and isinstance(pop.targets[0], ast.Name)
                and ast.unparse(pop.value) in ('%s.pop()' % tgt.id, '%s.popleft()' % tgt.id, '%s.pop(0)' % tgt.id)):
            return False
        x = pop.targets[0].id
        rest = sorted(ast.unparse(st) for st in w.body[1:])
        want = sorted(['yield %s' % x,
                       '%s.extend((o for o in %s.contents.values() if isinstance(o, Module)))' % (tgt.id, x)])
        norm = []
        for st in w.body[1:]:
            t = ast.unparse(st)
            if isinstance(st, ast.Expr) and isinstance(st.value, ast.Call) and ast.unparse(st.value.func) == '%s.extend' % tgt.id \
                    and len(st.value.args) == 1 and isinstance(st.value.args[0], (ast.GeneratorExp, ast.ListComp)):
                gx = st.value.args[0]
                gen = gx.generators[0]
                if (len(gx.generators) == 1 and isinstance(gen.target, ast.Name) and is_name(gx.elt, gen.target.id)
                        and ast.unparse(gen.iter) == '%s.contents.values()' % x and len(gen.ifs) == 1
                        and ast.unparse(gen.ifs[0]) == 'isinstance(%s, Module)' % gen.target.id):
                    t = 'EXTEND'
            norm.append(t)
        return sorted(norm) == sorted(['yield %s' % x, 'EXTEND'])

    def inline_helper(self, c):
        """self.<helper>(first): a method of the same class that only wraps recognised statements (no return value)"""
        f = c.func
        if self.cls is None or self.depth > 3 or c.keywords:
            return None
        ms = [n for n in self.cls.body if isinstance(n, ast.FunctionDef) and n.name == f.attr]
        if len(ms) != 1:
            return None
        m = ms[0]
        a = m.args
        if a.vararg or a.kwarg or a.kwonlyargs or a.posonlyargs or a.defaults or len(a.args) != len(c.args) + 1 or a.args[0].arg != 'self':
            return None
        if not all(isinstance(x, ast.Name) for x in c.args):
            return None
        body = strip_doc(m.body)
        for sub in ast.walk(ast.Module(body=body, type_ignores=[])):
            if isinstance(sub, ast.Return):
                bad('return inside the helper %s (it would not return from the caller)' % m.name, sub)
        saved = dict(self.aliases)
        for prm, arg in zip(a.args[1:], c.args):
            if prm.arg != arg.id:
                self.aliases[prm.arg] = ast.Name(id=arg.id, ctx=ast.Load())
        self.depth += 1
        out = self.block(body)
        self.depth -= 1
        self.aliases = saved
        return out

    def stmt(self, s):
        s = self.subst_stmt(s)
        F, M = self.first, self.mod
        if isinstance(s, ast.Pass):
            return None
        if isinstance(s, ast.For) and self.kind == 'hd' and not s.orelse and isinstance(s.target, ast.Name) \
                and self.tree_generator(s.iter):
            if self.wl:
                bad('nested work list', s)
            self.wl = ('@generator', s.target.id)
            body = self.block(s.body)
            self.wl = None
            return 'RWorklist (RSeq (%s) (RExtendChildren))' % body
        if isinstance(s, ast.Try) and self.wl and not s.orelse and not s.finalbody and len(s.handlers) == 1 \
                and s.handlers[0].type is not None and ast.unparse(s.handlers[0].type) == 'ValueError' \
                and all(isinstance(b, ast.Pass) for b in s.handlers[0].body) and len(s.body) == 1:
            inner = self.stmt(s.body[0])
            if inner == 'RRemoveItemUnproc':
                # list.remove raises ValueError exactly when the item is absent
                return 'RIf (RItemInUnproc) (RRemoveItemUnproc) (RSkip)'
            bad('try/except ValueError around something else than unprocessed_modules.remove(item)', s)
        if isinstance(s, ast.Assert):
            return 'RAssert (%s)' % self.expr(s.test)
        if isinstance(s, ast.Return):
            if s.value is not None and not (isinstance(s.value, ast.Constant) and s.value.value is None):
                bad('return value', s)
            return 'RReturn'
        if isinstance(s, ast.If):
            return 'RIf (%s) (%s) (%s)' % (self.expr(s.test), self.block(s.body), self.block(s.orelse))
        if isinstance(s, ast.AugAssign) and ast.unparse(s.target) == 'self.module_count' and isinstance(s.op, ast.Add):
            return None
        if isinstance(s, (ast.Assign, ast.AnnAssign)):
            tgt = s.targets[0] if isinstance(s, ast.Assign) and len(s.targets) == 1 else getattr(s, 'target', None)
            if self.kind == 'aup' and isinstance(tgt, ast.Name) and s.value is not None \
                    and ast.unparse(s.value) == 'self.allobjects.get(%s.fullName())' % M:
                if self.first and self.first != tgt.id:
                    bad('second lookup', s)
                self.first = tgt.id
                return 'RLookupFirst'
            if self.try_alias(s):
                return None
            bad('assignment', s)
        if isinstance(s, ast.Delete):
            if F and len(s.targets) == 1 and ast.unparse(s.targets[0]) == '%s.parent.contents[%s.name]' % (F, F):
                return 'RDelParentContents'
            bad('del', s)
        if isinstance(s, ast.Expr) and isinstance(s.value, ast.Call):
            c, f = s.value, s.value.func
            if dropped_call(c, {x for x in (F, M) if x}):
                return None
            if c.keywords or not isinstance(f, ast.Attribute):
                bad('call', s)
            if is_name(f.value, 'self'):
                if f.attr == '_handleDuplicateModule' and self.kind == 'aup' and F and len(c.args) == 2 \
                        and is_name(c.args[0], F) and is_name(c.args[1], M):
                    return 'RCallHandleDup'
                if f.attr == '_addUnprocessedModule' and self.kind == 'hd' and len(c.args) == 1 and is_name(c.args[0], M):
                    return 'RCallAddUnproc'
                if f.attr == 'addObject' and self.kind == 'aup' and len(c.args) == 1 and is_name(c.args[0], M):
                    return 'RAddObject'
                if f.attr == '_remove' and self.kind == 'hd' and len(c.args) == 1 and is_name(c.args[0], F):
                    return 'RRemoveAllobjects'
                if self.kind == 'hd':
                    inl = self.inline_helper(c)
                    if inl is not None:
                        return inl
            if is_self_attr(f.value, 'unprocessed_modules'):
                if f.attr == 'append' and self.kind == 'aup' and len(c.args) == 1 and is_name(c.args[0], M):
                    return 'RAppendUnproc'
                if f.attr == 'remove' and self.wl and len(c.args) == 1 and is_name(c.args[0], self.wl[1]):
                    return 'RRemoveItemUnproc'
            if is_self_attr(f.value, 'rootobjects') and f.attr == 'remove' and self.kind == 'hd' and len(c.args) == 1 and is_name(c.args[0], F):
                return 'RRemoveRoot'
            if self.wl and is_name(f.value, self.wl[0]) and f.attr == 'extend' and len(c.args) == 1:
                g = c.args[0]
                if isinstance(g, (ast.GeneratorExp, ast.ListComp)) and len(g.generators) == 1:
                    gen = g.generators[0]
                    if (isinstance(gen.target, ast.Name) and is_name(g.elt, gen.target.id)
                            and ast.unparse(gen.iter) == '%s.contents.values()' % self.wl[1] and len(gen.ifs) == 1
                            and ast.unparse(gen.ifs[0]) == 'isinstance(%s, Module)' % gen.target.id):
                        return 'RExtendChildren'
            bad('call', s)
        bad('statement %s' % type(s).__name__, s)


def find_method(cls, name):
    fs = [n for n in cls.body if isinstance(n, ast.FunctionDef) and n.name == name]
    if len(fs) != 1:
        bad('method System.%s not found exactly once' % name)
    return fs[0]


def generate() -> dict:
    from pydoctor import model
    tree = ast.parse(Path(inspect.getsourcefile(model)).read_text())
    cs = [n for n in tree.body if isinstance(n, ast.ClassDef) and n.name == 'System']
    if len(cs) != 1:
        bad('class System not found exactly once')
    S = cs[0]
    ap = find_method(S, 'addPackage')
    if len(ap.args.defaults) > 1 or (ap.args.defaults and not (isinstance(ap.args.defaults[0], ast.Constant) and ap.args.defaults[0].value is None)):
        bad('defaults of addPackage', ap)
    d_pkg = Discovery(ap, 'pkg')
    code_pkg = d_pkg.block(strip_doc(ap.body))
    if 'DAnalyzeSelf' not in code_pkg:
        bad('addPackage does not create the package module', ap)
    am = find_method(S, 'addModuleFromPath')
    if am.args.defaults:
        bad('defaults of addModuleFromPath', am)
    d_mod = Discovery(am, 'mod')
    code_mod = d_mod.block(strip_doc(am.body))
    au = find_method(S, '_addUnprocessedModule')
    r_au = Registry(au, 'aup')
    r_au.cls, r_au.module = S, tree
    code_au = r_au.block(strip_doc(au.body))
    hd = find_method(S, '_handleDuplicateModule')
    r_hd = Registry(hd, 'hd')
    r_hd.cls, r_hd.module = S, tree
    code_hd = r_hd.block(strip_doc(hd.body))

    L = ['From Coq Require Import NArith List.', 'Import ListNotations.',
         'From PydoctorVerif Require Import Base.Sexp Model.Determinism Model.DiscoveryIR.', '']
    for name, ty, text, fn in (('code_add_package', 'dstmt', code_pkg, ap), ('code_add_module_from_path', 'dstmt', code_mod, am),
                               ('code_add_unprocessed', 'rstmt', code_au, au), ('code_handle_duplicate', 'rstmt', code_hd, hd)):
        L.append('(* System.%s *)' % fn.name)
        L.append('Definition %s : %s :=' % (name, ty))
        L.append(textwrap.fill(text, 110, initial_indent='  ', subsequent_indent='  ', break_long_words=False, break_on_hyphens=False) + '.')
        L.append('')
    L.append('Definition discovery_code : dcode :=')
    L.append('  {| c_add_package := code_add_package; c_add_module_from_path := code_add_module_from_path |}.')
    L.append('Definition registry_code : rcode :=')
    L.append('  {| c_add_unprocessed := code_add_unprocessed; c_handle_duplicate := code_handle_duplicate |}.')
    return {'DiscoveryCode.v': '\n'.join(L) + '\n'}


if __name__ == '__main__':
    print(generate()['DiscoveryCode.v'])
