"""Translator A for C09: the tables Model/Fields.v and Model/Segments.v depend on, as the code has them NOW.

Read from the live modules (PYTHONPATH=/repo):
  * pydoctor.epydoc2stan.FieldHandler: every attribute `handle_<tag>` and the function it is bound to
        -> handler_table : list (tag, handler)
  * the AST of FieldHandler.format(): the order in which the buckets are emitted, by which formatter, under
    which label, and under which condition                    -> format_plan : list plan_entry
  * the AST of FieldHandler.handle(): getattr(self, 'handle_' + field.tag, self.handleUnknownField)
  * the AST of epydoc2stan.format_docstring(): set_param_types_from_annotations / resolve_types only for Function
  * str.rstrip() / str.isspace() per code point               -> py_space
  * pydoctor.epydoc.doctest: PROMPT2_RE, DEFINE_FUNC_RE patterns+flags (modelled by hand in Model/Segments.v: pinned),
    DOCTEST_RE's named groups (the kinds of span the model knows), the css classes given by subfunc
  * pydoctor.epydoc.markup.epytext: _COLORIZING_TAGS, _ESCAPES, _LINK_COLORIZING_TAGS, _SYMBOLS/SYMBOL_TO_CODEPOINT

Fail-closed: every unrecognised shape raises Unrecognised, which makes gen_tables.py exit 1.
Output: Gen/TablesC09.v (definitions only)."""
from __future__ import annotations
import copy
import ast, inspect, re, textwrap
from typing import Any, List, Tuple


class Unrecognised(Exception):
    pass


def need(cond: Any, what: str) -> None:
    if not cond:
        raise Unrecognised('unrecognised shape: ' + what)


def coq_text(s: str) -> str:
    return '[' + '; '.join(str(ord(c)) for c in s) + ']'


def comment_safe(s: str) -> str:
    return ''.join(c if (32 <= ord(c) < 127 and c not in '*()"') else '?' for c in s)


HANDLERS = {
    'handle_return': 'HReturn', 'handle_yield': 'HYield', 'handle_returntype': 'HReturnType',
    'handle_yieldtype': 'HYieldType', 'handle_type': 'HType', 'handle_param': 'HParam',
    'handle_keyword': 'HKeyword', 'handled_elsewhere': 'HElsewhere', 'handle_raises': 'HRaises',
    'handle_warns': 'HWarns', 'handle_seealso': 'HSeeAlso', 'handle_note': 'HNote',
    'handle_author': 'HAuthor', 'handle_since': 'HSince',
}

BUCKETS = {
    'parameter_descs': 'BParams', 'return_desc': 'BReturn', 'yields_desc': 'BYield', 'raise_descs': 'BRaises',
    'warns_desc': 'BWarns', 'authors': 'BAuthors', 'seealsos': 'BSeeAlso', 'sinces': 'BSinces', 'notes': 'BNotes',
    'unknowns': 'BUnknowns',
}


def method_ast(cls: Any, name: str) -> ast.FunctionDef:
    src = textwrap.dedent(inspect.getsource(getattr(cls, name)))
    mod = ast.parse(src)
    need(len(mod.body) == 1 and isinstance(mod.body[0], ast.FunctionDef), 'source of %s is not one def' % name)
    return mod.body[0]


def strip_doc(body: List[ast.stmt]) -> List[ast.stmt]:
    if body and isinstance(body[0], ast.Expr) and isinstance(body[0].value, ast.Constant) \
            and isinstance(body[0].value.value, str):
        return body[1:]
    return body


def same(node: ast.AST, src: str) -> bool:
    want = ast.parse(textwrap.dedent(src)).body[0]
    if isinstance(want, ast.Expr) and not isinstance(node, ast.Expr):
        want = want.value
    return ast.dump(node) == ast.dump(want)


def handler_table() -> List[Tuple[str, str]]:
    from pydoctor.epydoc2stan import FieldHandler
    out = []
    for attr in sorted(dir(FieldHandler)):
        if not attr.startswith('handle_'):
            continue
        fn = getattr(FieldHandler, attr)
        need(inspect.isfunction(fn), 'FieldHandler.%s is not a plain method' % attr)
        canon = fn.__name__
        need(canon in HANDLERS, 'FieldHandler.%s is bound to the unknown function %s' % (attr, canon))
        need(getattr(FieldHandler, canon) is fn, 'FieldHandler.%s shadows %s' % (attr, canon))
        out.append((attr[len('handle_'):], HANDLERS[canon]))
    bound = {h for _, h in out}
    need(bound == set(HANDLERS.values()), 'handlers without a tag: %s' % sorted(set(HANDLERS.values()) - bound))
    # dispatch: getattr(self, 'handle_' + field.tag, self.handleUnknownField)(field), possibly through locals that are
    # assigned once from effect-free expressions (a bound method, the getattr): they are substituted back
    f = method_ast(FieldHandler, 'handle')
    need([a.arg for a in f.args.args] == ['self', 'field'], 'FieldHandler.handle parameters')
    body = strip_doc(f.body)
    env: dict = {}

    class Sub(ast.NodeTransformer):
        def visit_Name(self, n: ast.Name) -> ast.AST:
            if isinstance(n.ctx, ast.Load) and n.id in env:
                return copy.deepcopy(env[n.id])
            return n
    for st in body[:-1]:
        if isinstance(st, ast.AnnAssign) and st.value is not None and isinstance(st.target, ast.Name):
            tgt, val = st.target.id, st.value
        elif isinstance(st, ast.Assign) and len(st.targets) == 1 and isinstance(st.targets[0], ast.Name):
            tgt, val = st.targets[0].id, st.value
        else:
            need(False, 'FieldHandler.handle dispatch: ' + ast.unparse(st)[:80])
        need(tgt not in env and tgt not in ('self', 'field'), 'FieldHandler.handle dispatch: local assigned twice')
        val = Sub().visit(copy.deepcopy(val))
        need(ast.unparse(val) in ('self.handleUnknownField', "getattr(self, 'handle_' + field.tag, self.handleUnknownField)"),
             'FieldHandler.handle dispatch: ' + ast.unparse(val)[:80])
        env[tgt] = val
    need(bool(body) and isinstance(body[-1], ast.Expr), 'FieldHandler.handle dispatch')
    last = Sub().visit(copy.deepcopy(body[-1].value))
    need(ast.unparse(last) == "getattr(self, 'handle_' + field.tag, self.handleUnknownField)(field)", 'FieldHandler.handle dispatch')
    return out


ANY_DOC = 'any((p.is_documented() for p in self.parameter_descs))'


def format_plan() -> List[Tuple[str, str, str, str]]:
    """[(emit_kind, bucket, label, plural)] in emission order.
    Recognised: format() accumulating the rows in a list (`r += f(...)`), or format() that is list(self.<generator>())
    with the generator doing `yield from f(...)`; locals that alias self.<bucket>; include_params set to True under the
    Parameters test or assigned that test; the four field lists as a loop over a tuple of triples or as four calls."""
    from pydoctor.epydoc2stan import FieldHandler
    f = method_ast(FieldHandler, 'format')
    body = [s for s in strip_doc(f.body)]
    need(len(body) >= 2, 'format: body')

    def final_return(stmts: List[ast.stmt], acc: str) -> None:
        """if <rows>: return table(rows) else: return tags.transparent, in any of its spellings"""
        if len(stmts) == 1 and isinstance(stmts[0], ast.If) and len(stmts[0].body) == 1 and len(stmts[0].orelse) == 1:
            test, a, b = stmts[0].test, stmts[0].body[0], stmts[0].orelse[0]
        elif len(stmts) == 2 and isinstance(stmts[0], ast.If) and len(stmts[0].body) == 1 and not stmts[0].orelse:
            test, a, b = stmts[0].test, stmts[0].body[0], stmts[1]
        else:
            need(False, 'format: final return')
        need(isinstance(a, ast.Return) and isinstance(b, ast.Return) and a.value is not None and b.value is not None, 'format: final return')
        t = ast.unparse(test)
        if t in ('not %s' % acc, 'not any(%s)' % acc):
            a, b = b, a
        else:
            need(t in (acc, 'any(%s)' % acc), 'format: final test ' + t[:80])
        need(ast.unparse(a.value) == "tags.table(class_='fieldTable')(%s)" % acc and ast.unparse(b.value) == 'tags.transparent',
             'format: final return values')

    if isinstance(body[0], ast.Assign) and len(body[0].targets) == 1 and isinstance(body[0].targets[0], ast.Name) \
            and isinstance(body[0].value, ast.Call) and ast.unparse(body[0].value.func) == 'list':
        # rows = list(self._rows())
        acc = body[0].targets[0].id
        call = body[0].value
        need(len(call.args) == 1 and not call.keywords and isinstance(call.args[0], ast.Call) and not call.args[0].args
             and not call.args[0].keywords and isinstance(call.args[0].func, ast.Attribute)
             and isinstance(call.args[0].func.value, ast.Name) and call.args[0].func.value.id == 'self', 'format: list(self.<generator>())')
        final_return(body[1:], acc)
        g = method_ast(FieldHandler, call.args[0].func.attr)
        need([a.arg for a in g.args.args] == ['self'] and not g.decorator_list, 'format: the row generator')
        stmts = strip_doc(g.body)
        mode = 'gen'
    else:
        need(isinstance(body[0], (ast.AnnAssign, ast.Assign)) and ast.unparse(body[0].value) == '[]', 'format: r initialisation')
        tgt = body[0].target if isinstance(body[0], ast.AnnAssign) else body[0].targets[0]
        need(isinstance(tgt, ast.Name), 'format: r initialisation')
        acc = tgt.id
        k = len(body) - 1
        if not isinstance(body[k], ast.If):
            k -= 1
        final_return(body[k:], acc)
        stmts = body[1:k]
        mode = 'acc'

    plan: List[Tuple[str, str, str, str]] = []
    alias: dict = {}            # local -> the expression it stands for (self.<bucket>)
    ip = {'name': None, 'value': None}      # the include_params local: 'False' or ANY_DOC

    class Sub(ast.NodeTransformer):
        def visit_Name(self, n: ast.Name) -> ast.AST:
            if isinstance(n.ctx, ast.Load) and n.id in alias:
                return copy.deepcopy(alias[n.id])
            return n

    def sub(e: ast.AST) -> ast.AST:
        return Sub().visit(copy.deepcopy(e))

    def emitted(stmt: ast.stmt) -> ast.Call:
        """r += f(...)  /  yield from f(...)  ->  the call"""
        if mode == 'acc':
            need(isinstance(stmt, ast.AugAssign) and isinstance(stmt.op, ast.Add) and isinstance(stmt.target, ast.Name)
                 and stmt.target.id == acc and isinstance(stmt.value, ast.Call), 'format: not `r += f(...)`: ' + ast.unparse(stmt)[:120])
            return stmt.value
        need(isinstance(stmt, ast.Expr) and isinstance(stmt.value, ast.YieldFrom) and isinstance(stmt.value.value, ast.Call),
             'format: not `yield from f(...)`: ' + ast.unparse(stmt)[:120])
        return stmt.value.value

    def is_emit(stmt: ast.stmt) -> bool:
        return (isinstance(stmt, ast.AugAssign) if mode == 'acc'
                else isinstance(stmt, ast.Expr) and isinstance(stmt.value, ast.YieldFrom))

    def desc_list_call(stmt: ast.stmt) -> Tuple[Any, ast.expr]:
        c = emitted(stmt)
        need(isinstance(c.func, ast.Name) and c.func.id == 'format_desc_list' and len(c.args) == 2 and not c.keywords,
             'format: not format_desc_list(label, descs): ' + ast.unparse(stmt)[:120])
        return c.args[0], sub(c.args[1])

    def self_attr(e: ast.expr) -> str:
        need(isinstance(e, ast.Attribute) and isinstance(e.value, ast.Name) and e.value.id == 'self'
             and e.attr in BUCKETS, 'format: not a known bucket: ' + ast.dump(e)[:120])
        return e.attr

    def const_str(e: ast.expr) -> str:
        need(isinstance(e, ast.Constant) and isinstance(e.value, str), 'format: label is not a literal')
        return e.value

    for stmt in stmts:
        if isinstance(stmt, ast.AnnAssign) and stmt.value is not None:
            stmt = ast.copy_location(ast.Assign(targets=[stmt.target], value=stmt.value), stmt)
        if isinstance(stmt, ast.Assign):
            need(len(stmt.targets) == 1 and isinstance(stmt.targets[0], ast.Name), 'format: assignment ' + ast.unparse(stmt)[:80])
            name, val = stmt.targets[0].id, sub(stmt.value)
            need(name != acc and name not in alias, 'format: assignment ' + ast.unparse(stmt)[:80])
            if ast.unparse(val) in ('False', ANY_DOC) and ip['name'] in (None, name) and ip['value'] is None:
                ip['name'], ip['value'] = name, ast.unparse(val)
            else:
                self_attr(val)
                alias[name] = val
        elif isinstance(stmt, ast.If):
            need(not stmt.orelse, 'format: if with else')
            test = ast.unparse(sub(stmt.test))
            if test == ANY_DOC or (ip['name'] is not None and test == ip['name'] and ip['value'] == ANY_DOC):
                if ip['value'] == 'False' and test == ANY_DOC:
                    need(len(stmt.body) == 2 and ast.unparse(stmt.body[1]) == '%s = True' % ip['name'], 'format: Parameters block')
                    ip['value'] = ANY_DOC          # False before, True under the test: the value of the test
                else:
                    need(len(stmt.body) == 1 and ip['value'] == ANY_DOC, 'format: Parameters block')
                lab, arg = desc_list_call(stmt.body[0])
                need(self_attr(arg) == 'parameter_descs', 'format: Parameters bucket')
                plan.append(('EParams', 'BParams', const_str(lab), ''))
            elif ip['value'] == ANY_DOC and test == 'self.return_desc and (%s or self.return_desc.is_documented())' % ip['name']:
                need(len(stmt.body) == 1, 'format: Returns block')
                lab, arg = desc_list_call(stmt.body[0])
                need(ast.unparse(arg) == '[self.return_desc]', 'format: Returns bucket')
                plan.append(('EReturn', 'BReturn', const_str(lab), ''))
            elif test == 'self.yields_desc':
                need(len(stmt.body) == 1, 'format: Yields block')
                lab, arg = desc_list_call(stmt.body[0])
                need(ast.unparse(arg) == '[self.yields_desc]', 'format: Yields bucket')
                plan.append(('EYield', 'BYield', const_str(lab), ''))
            else:
                need(False, 'format: unknown condition ' + test[:200])
        elif is_emit(stmt):
            c = emitted(stmt)
            if isinstance(c.func, ast.Name) and c.func.id == 'format_field_list':
                need(len(c.args) == 3 and not c.keywords, 'format: format_field_list(singular, plural, fields)')
                plan.append(('EFieldList', BUCKETS[self_attr(sub(c.args[2]))], const_str(c.args[0]), const_str(c.args[1])))
            else:
                lab, arg = desc_list_call(stmt)
                plan.append(('EDescList', BUCKETS[self_attr(arg)], const_str(lab), ''))
        elif isinstance(stmt, ast.For):
            need(not stmt.orelse and len(stmt.body) == 1 and is_emit(stmt.body[0]), 'format: for shape')
            c = emitted(stmt.body[0])
            if ast.unparse(c) == 'format_field_list(*%s)' % ast.unparse(stmt.target):
                need(isinstance(stmt.target, ast.Name) and isinstance(stmt.iter, ast.Tuple), 'format: field-list loop header')
                for el in stmt.iter.elts:
                    need(isinstance(el, ast.Tuple) and len(el.elts) == 3, 'format: (singular, plural, bucket) triple')
                    plan.append(('EFieldList', BUCKETS[self_attr(sub(el.elts[2]))], const_str(el.elts[0]), const_str(el.elts[1])))
            elif ast.unparse(stmt.iter) == 'self.unknowns.items()':
                need(isinstance(stmt.target, ast.Tuple) and len(stmt.target.elts) == 2
                     and all(isinstance(x, ast.Name) for x in stmt.target.elts), 'format: unknowns loop target')
                kind, fl = stmt.target.elts[0].id, stmt.target.elts[1].id
                need(isinstance(c.func, ast.Name) and c.func.id == 'format_desc_list' and len(c.args) == 2 and not c.keywords,
                     'format: unknowns loop body')
                lab, arg = c.args
                need(isinstance(arg, ast.Name) and arg.id == fl, 'format: unknowns bucket')
                need(isinstance(lab, ast.JoinedStr) and len(lab.values) == 2 and isinstance(lab.values[0], ast.Constant)
                     and isinstance(lab.values[1], ast.FormattedValue) and isinstance(lab.values[1].value, ast.Name)
                     and lab.values[1].value.id == kind and lab.values[1].conversion == -1
                     and lab.values[1].format_spec is None, 'format: unknown-field label')
                plan.append(('EUnknowns', 'BUnknowns', lab.values[0].value, ''))
            else:
                need(False, 'format: unknown loop ' + ast.unparse(stmt)[:200])
        else:
            need(False, 'format: unknown statement ' + ast.unparse(stmt)[:200])
    return plan


def check_format_docstring() -> None:
    from pydoctor import epydoc2stan
    src = textwrap.dedent(inspect.getsource(epydoc2stan.format_docstring))
    f = ast.parse(src).body[0]
    body = strip_doc(f.body)
    tail = body[-6:]
    need(same(tail[0], 'fh = FieldHandler(obj)'), 'format_docstring: FieldHandler(obj)')
    need(same(tail[1], 'if isinstance(obj, model.Function):\n    fh.set_param_types_from_annotations(obj.annotations)'),
         'format_docstring: annotations only for Function')
    need(isinstance(tail[2], ast.If) and same(tail[2].test, 'source is not None')
         and same(tail[2].body[-1], 'for field in obj.parsed_docstring.fields:\n    fh.handle(Field.from_epydoc(field, source))'),
         'format_docstring: handle loop')
    need(same(tail[3], 'if isinstance(obj, model.Function):\n    fh.resolve_types()'), 'format_docstring: resolve_types')
    need(same(tail[4], 'ret(fh.format())'), 'format_docstring: format')
    need(isinstance(body[-1], ast.Return), 'format_docstring: return')


def py_space() -> List[int]:
    out = []
    for c in range(0x110000):
        ch = chr(c)
        stripped = ('x' + ch).rstrip() == 'x'
        need(stripped == ch.isspace(), 'rstrip() and isspace() disagree on U+%04X' % c)
        if stripped:
            out.append(c)
    need(32 in out and 10 in out and 9 in out, 'space, newline, tab are not whitespace')
    return out


PROMPT2_PATTERN = r'(^[ \t]*\.\.\.(?:[ \t]|$))'
DEFINE_FUNC_PATTERN = r'(?P<def>\w+)(?P<space>\s+)(?P<name>\w+)'
KINDS = ['STRING', 'COMMENT', 'DEFINE', 'KEYWORD', 'BUILTIN', 'PROMPT1', 'PROMPT2', 'EOS']


def doctest_pins() -> dict:
    from pydoctor.epydoc import doctest as D
    need(D.PROMPT2_RE.pattern == PROMPT2_PATTERN and D.PROMPT2_RE.flags == (re.M | re.S | re.U),
         'PROMPT2_RE changed: %r flags %r' % (D.PROMPT2_RE.pattern, D.PROMPT2_RE.flags))
    need(D.DEFINE_FUNC_RE.pattern == DEFINE_FUNC_PATTERN and D.DEFINE_FUNC_RE.flags == int(re.U),
         'DEFINE_FUNC_RE changed: %r flags %r' % (D.DEFINE_FUNC_RE.pattern, D.DEFINE_FUNC_RE.flags))
    gi = D.DOCTEST_RE.groupindex
    need(gi.get('STRING') is not None and set(KINDS) <= set(gi), 'DOCTEST_RE named groups: %s' % sorted(gi))
    need(set(gi) == set(KINDS), 'DOCTEST_RE has named groups the model does not know: %s' % sorted(set(gi) - set(KINDS)))
    need(D.DOCTEST_RE.flags == (re.M | re.S | re.U), 'DOCTEST_RE flags')
    # the whole match is group 1 and the named alternative equals it
    need(D.DOCTEST_RE.pattern.startswith('(') and D.DOCTEST_RE.pattern.endswith(')'), 'DOCTEST_RE outer group')
    return {}


def epytext_tables() -> dict:
    from pydoctor.epydoc.markup import epytext as E
    tags_ = dict(E._COLORIZING_TAGS)
    known = {'code', 'math', 'italic', 'bold', 'uri', 'link', 'escape', 'symbol'}
    need(set(tags_.values()) <= known, 'unknown colorizing element %s' % sorted(set(tags_.values()) - known))
    need(all(len(k) == 1 and 'A' <= k <= 'Z' for k in tags_), 'colorizing tag letters')
    need(list(E._LINK_COLORIZING_TAGS) == ['link', 'uri'], '_LINK_COLORIZING_TAGS')
    need(E._BRACE_RE.pattern == '{|}', '_BRACE_RE')
    need(E._TARGET_RE.pattern == r'^(.*?)\s*<(?:URI:|URL:)?([^<>]+)>$', '_TARGET_RE')
    esc = dict(E._ESCAPES)
    need(all(len(v) == 1 for v in esc.values()), '_ESCAPES values')
    cp = E.ParsedEpytextDocstring.SYMBOL_TO_CODEPOINT
    need(set(E._SYMBOLS) == set(cp), 'a symbol without code point: %s' % sorted(set(E._SYMBOLS) ^ set(cp)))
    return {'tags': tags_, 'escapes': esc, 'symbols': dict(cp)}


def extract_fields_tables() -> dict:
    """epydoc2stan.extract_fields: the tags it handles, the one that sets the type, the kind each of the others gives"""
    from pydoctor import epydoc2stan, model
    src = textwrap.dedent(inspect.getsource(epydoc2stan.extract_fields))
    f = ast.parse(src).body[0]
    body = strip_doc(f.body)
    loop = body[-1]
    need(isinstance(loop, ast.For) and same(loop.iter, 'parsed_doc.fields') and not loop.orelse, 'extract_fields: field loop')
    need(len(loop.body) == 2 and same(loop.body[0], 'tag = field.tag()'), 'extract_fields: tag = field.tag()')
    cond = loop.body[1]
    need(isinstance(cond, ast.If) and not cond.orelse and isinstance(cond.test, ast.Compare) and len(cond.test.ops) == 1
         and isinstance(cond.test.ops[0], ast.In) and same(cond.test.left, 'tag')
         and isinstance(cond.test.comparators[0], ast.List), 'extract_fields: if tag in [...]')
    tags = []
    for e in cond.test.comparators[0].elts:
        need(isinstance(e, ast.Constant) and isinstance(e.value, str), 'extract_fields: tag list element')
        tags.append(e.value)
    b = cond.body
    need(same(b[0], 'arg = field.arg()'), 'extract_fields: arg = field.arg()')
    need(same(b[1], '''
if arg is None:
    obj.report("Missing field name in @%s" % (tag,), 'docstring', field.lineno)
    continue
'''), 'extract_fields: missing-name report')
    need(isinstance(b[2], ast.AnnAssign) and same(b[2].value, 'obj.contents.get(arg)'), 'extract_fields: obj.contents.get(arg)')
    need(isinstance(b[3], ast.If) and same(b[3].test, 'attrobj is None')
         and same(b[3].body[0], 'attrobj = obj.system.Attribute(obj.system, arg, obj)')
         and same(b[3].body[-1], 'obj.system.addObject(attrobj)'), 'extract_fields: attribute creation')
    need(same(b[-1], '''
if tag == 'type':
    attrobj.parsed_type = field.body()
else:
    attrobj.parsed_docstring = field.body()
    attrobj.kind = field_name_to_kind[tag]
'''), 'extract_fields: type / docstring assignment')
    need('type' in tags, "extract_fields: 'type' not handled")
    kinds = {}
    codes = {model.DocumentableKind.INSTANCE_VARIABLE: 0, model.DocumentableKind.CLASS_VARIABLE: 1,
             model.DocumentableKind.VARIABLE: 2}
    for t in tags:
        if t == 'type':
            continue
        need(t in epydoc2stan.field_name_to_kind, 'extract_fields: no kind for @%s' % t)
        k = epydoc2stan.field_name_to_kind[t]
        need(k in codes, 'extract_fields: unknown kind %r' % k)
        kinds[t] = codes[k]
    return {'tags': tags, 'kinds': kinds}


ELEMS = {'code': 'ECode', 'math': 'EMath', 'italic': 'EItalic', 'bold': 'EBold', 'uri': 'EUri', 'link': 'ELink',
         'escape': 'EEscape', 'symbol': 'ESymbol'}


def generate() -> dict:
    ht = handler_table()
    plan = format_plan()
    check_format_docstring()
    sp = py_space()
    doctest_pins()
    ep = epytext_tables()
    xf = extract_fields_tables()
    from pydoctor.epydoc.markup import restructuredtext as R
    need(isinstance(R.CONSOLIDATED_FIELDS, dict) and all(isinstance(k, str) and isinstance(v, str) for k, v in R.CONSOLIDATED_FIELDS.items()), 'CONSOLIDATED_FIELDS')
    need(isinstance(R.CONSOLIDATED_DEFLIST_FIELDS, list), 'CONSOLIDATED_DEFLIST_FIELDS')
    need(R._SplitFieldsTranslator.ALLOW_UNMARKED_ARG_IN_CONSOLIDATED_FIELD is True, 'ALLOW_UNMARKED_ARG_IN_CONSOLIDATED_FIELD')
    L: List[str] = []
    L.append('From Coq Require Import NArith List.')
    L.append('From PydoctorVerif Require Import Base.Sexp Model.FieldTypes.')
    L.append('Import ListNotations.')
    L.append('Local Open Scope N_scope.')
    L.append('')
    L.append('(* getattr(FieldHandler, "handle_" + tag) for every such attribute *)')
    L.append('Definition handler_table : list (text * handler) := [')
    L.append(';\n'.join('  (%s, %s) (* %s *)' % (coq_text(t), h, comment_safe(t)) for t, h in ht))
    L.append('].')
    L.append('')
    L.append('(* FieldHandler.format(): emission order, formatter, label *)')
    L.append('Definition format_plan : list plan_entry := [')
    L.append(';\n'.join('  {| pe_kind := %s; pe_bucket := %s; pe_label := %s; pe_plural := %s |} (* %s / %s *)'
                        % (k, b, coq_text(l), coq_text(p), comment_safe(l), comment_safe(p)) for k, b, l, p in plan))
    L.append('].')
    L.append('')
    L.append('(* code points removed by str.rstrip() with no argument (= str.isspace) *)')
    L.append('Definition py_space : list N := [%s].' % '; '.join(str(c) for c in sp))
    L.append('')
    L.append('(* epytext inline markup: tag letter -> element *)')
    L.append('Inductive epy_elem := ECode | EMath | EItalic | EBold | EUri | ELink | EEscape | ESymbol.')
    L.append('Definition colorizing_tags : list (N * epy_elem) := [%s].'
             % '; '.join('(%d, %s)' % (ord(k), ELEMS[v]) for k, v in sorted(ep['tags'].items())))
    L.append('Definition epy_escapes : list (text * N) := [%s].'
             % '; '.join('(%s, %d)' % (coq_text(k), ord(v)) for k, v in sorted(ep['escapes'].items())))
    L.append('Definition epy_symbols : list (text * N) := [')
    L.append(';\n'.join('  (%s, %d)' % (coq_text(k), v) for k, v in sorted(ep['symbols'].items())))
    L.append('].')
    L.append('')
    L.append('(* epydoc2stan.extract_fields: `if tag in [...]`, and field_name_to_kind (0 instance / 1 class / 2 module variable) *)')
    L.append('Definition extract_tags : list text := [%s].' % '; '.join(coq_text(t) for t in xf['tags']))
    L.append('Definition extract_type_tag : text := %s.' % coq_text('type'))
    L.append('Definition extract_kinds : list (text * N) := [%s].'
             % '; '.join('(%s, %d)' % (coq_text(t), k) for t, k in xf['kinds'].items()))
    L.append('')
    L.append('(* restructuredtext.CONSOLIDATED_FIELDS (list tag -> entry tag, dict order) and CONSOLIDATED_DEFLIST_FIELDS *)')
    L.append('Definition consolidated_fields : list (text * text) := [%s].'
             % '; '.join('(%s, %s)' % (coq_text(k), coq_text(v)) for k, v in R.CONSOLIDATED_FIELDS.items()))
    L.append('Definition consolidated_deflist_fields : list text := [%s].'
             % '; '.join(coq_text(k) for k in R.CONSOLIDATED_DEFLIST_FIELDS))
    return {'TablesC09.v': '\n'.join(L) + '\n'}


if __name__ == '__main__':
    print(generate()['TablesC09.v'])
