"""Translator A for C09: the tables Model/Fields.v and Model/Segments.v depend on, as the code has them NOW.

Read from the live modules (PYTHONPATH=/repo):
  * pydoctor.epydoc2stan.FieldHandler: every attribute `handle_<tag>` and the function it is bound to
        -> handler_table : list (tag, handler)
  * the AST of FieldHandler.format(): the order in which the buckets are emitted, by which formatter, under
    which label, and under which condition                    -> format_plan : list plan_entry
  * the AST of FieldHandler.handle(): getattr(self, 'handle_' + field.tag, self.handleUnknownField)
  * the AST of epydoc2stan.format_docstring(): set_param_types_from_annotations / resolve_types only for Function
  * str.rstrip() / str.isspace() per code point               -> py_space
  * pydoctor.epydoc.doctest: PROMPT2_RE, DEFINE_FUNC_RE patterns+flags (modelled by hand in Model/Segments.v: pinned),
    DOCTEST_RE's named groups (the kinds of span the model knows), the css classes given by subfunc
  * pydoctor.epydoc.markup.epytext: _COLORIZING_TAGS, _ESCAPES, _LINK_COLORIZING_TAGS, _SYMBOLS/SYMBOL_TO_CODEPOINT

Fail-closed: every unrecognised shape raises Unrecognised, which makes gen_tables.py exit 1.
Output: Gen/TablesC09.v (definitions only)."""
from __future__ import annotations
import ast, inspect, re, textwrap
from typing import Any, List, Tuple


class Unrecognised(Exception):
    pass


def need(cond: Any, what: str) -> None:
    if not cond:
        raise Unrecognised('unrecognised shape: ' + what)


def coq_text(s: str) -> str:
    return '[' + '; '.join(str(ord(c)) for c in s) + ']'


def comment_safe(s: str) -> str:
    return ''.join(c if (32 <= ord(c) < 127 and c not in '*()"') else '?' for c in s)


HANDLERS = {
    'handle_return': 'HReturn', 'handle_yield': 'HYield', 'handle_returntype': 'HReturnType',
    'handle_yieldtype': 'HYieldType', 'handle_type': 'HType', 'handle_param': 'HParam',
    'handle_keyword': 'HKeyword', 'handled_elsewhere': 'HElsewhere', 'handle_raises': 'HRaises',
    'handle_warns': 'HWarns', 'handle_seealso': 'HSeeAlso', 'handle_note': 'HNote',
    'handle_author': 'HAuthor', 'handle_since': 'HSince',
}

BUCKETS = {
    'parameter_descs': 'BParams', 'return_desc': 'BReturn', 'yields_desc': 'BYield', 'raise_descs': 'BRaises',
    'warns_desc': 'BWarns', 'authors': 'BAuthors', 'seealsos': 'BSeeAlso', 'sinces': 'BSinces', 'notes': 'BNotes',
    'unknowns': 'BUnknowns',
}


def method_ast(cls: Any, name: str) -> ast.FunctionDef:
    src = textwrap.dedent(inspect.getsource(getattr(cls, name)))
    mod = ast.parse(src)
    need(len(mod.body) == 1 and isinstance(mod.body[0], ast.FunctionDef), 'source of %s is not one def' % name)
    return mod.body[0]


def strip_doc(body: List[ast.stmt]) -> List[ast.stmt]:
    if body and isinstance(body[0], ast.Expr) and isinstance(body[0].value, ast.Constant) \
            and isinstance(body[0].value.value, str):
        return body[1:]
    return body


def same(node: ast.AST, src: str) -> bool:
    want = ast.parse(textwrap.dedent(src)).body[0]
    if isinstance(want, ast.Expr) and not isinstance(node, ast.Expr):
        want = want.value
    return ast.dump(node) == ast.dump(want)


def handler_table() -> List[Tuple[str, str]]:
    from pydoctor.epydoc2stan import FieldHandler
    out = []
    for attr in sorted(dir(FieldHandler)):
        if not attr.startswith('handle_'):
            continue
        fn = getattr(FieldHandler, attr)
        need(inspect.isfunction(fn), 'FieldHandler.%s is not a plain method' % attr)
        canon = fn.__name__
        need(canon in HANDLERS, 'FieldHandler.%s is bound to the unknown function %s' % (attr, canon))
        need(getattr(FieldHandler, canon) is fn, 'FieldHandler.%s shadows %s' % (attr, canon))
        out.append((attr[len('handle_'):], HANDLERS[canon]))
    bound = {h for _, h in out}
    need(bound == set(HANDLERS.values()), 'handlers without a tag: %s' % sorted(set(HANDLERS.values()) - bound))
    # dispatch: getattr(self, 'handle_' + field.tag, self.handleUnknownField)
    f = method_ast(FieldHandler, 'handle')
    body = strip_doc(f.body)
    need(len(body) == 2 and same(body[0], "m = getattr(self, 'handle_' + field.tag, self.handleUnknownField)")
         and same(body[1], 'm(field)'), 'FieldHandler.handle dispatch')
    return out


def format_plan() -> List[Tuple[str, str, str, str]]:
    """[(emit_kind, bucket, label, plural)] in emission order."""
    from pydoctor.epydoc2stan import FieldHandler
    f = method_ast(FieldHandler, 'format')
    body = [s for s in strip_doc(f.body)]
    need(same(body[0], 'r: List[Tag] = []'), 'format: r initialisation')
    need(same(body[1], 'include_params = False'), 'format: include_params initialisation')
    need(same(body[-1], """
if any(r):
    return tags.table(class_='fieldTable')(r)
else:
    return tags.transparent
"""), 'format: final return')
    plan: List[Tuple[str, str, str, str]] = []

    def desc_list_call(stmt: ast.stmt) -> Tuple[Any, ast.expr]:
        """r += format_desc_list(<label>, <arg>)  ->  (label expr, arg expr)"""
        need(isinstance(stmt, ast.AugAssign) and isinstance(stmt.op, ast.Add) and isinstance(stmt.target, ast.Name)
             and stmt.target.id == 'r' and isinstance(stmt.value, ast.Call) and isinstance(stmt.value.func, ast.Name)
             and stmt.value.func.id == 'format_desc_list' and len(stmt.value.args) == 2 and not stmt.value.keywords,
             'format: not `r += format_desc_list(label, descs)`: ' + ast.dump(stmt)[:200])
        return stmt.value.args[0], stmt.value.args[1]

    def self_attr(e: ast.expr) -> str:
        need(isinstance(e, ast.Attribute) and isinstance(e.value, ast.Name) and e.value.id == 'self'
             and e.attr in BUCKETS, 'format: not a known bucket: ' + ast.dump(e)[:120])
        return e.attr

    def const_str(e: ast.expr) -> str:
        need(isinstance(e, ast.Constant) and isinstance(e.value, str), 'format: label is not a literal')
        return e.value

    for stmt in body[2:-1]:
        if isinstance(stmt, ast.If):
            need(not stmt.orelse, 'format: if with else')
            if same(stmt.test, 'any(p.is_documented() for p in self.parameter_descs)'):
                need(len(stmt.body) == 2 and same(stmt.body[1], 'include_params = True'), 'format: Parameters block')
                lab, arg = desc_list_call(stmt.body[0])
                need(self_attr(arg) == 'parameter_descs', 'format: Parameters bucket')
                plan.append(('EParams', 'BParams', const_str(lab), ''))
            elif same(stmt.test, 'self.return_desc and (include_params or self.return_desc.is_documented())'):
                need(len(stmt.body) == 1, 'format: Returns block')
                lab, arg = desc_list_call(stmt.body[0])
                need(same(arg, '[self.return_desc]'), 'format: Returns bucket')
                plan.append(('EReturn', 'BReturn', const_str(lab), ''))
            elif same(stmt.test, 'self.yields_desc'):
                need(len(stmt.body) == 1, 'format: Yields block')
                lab, arg = desc_list_call(stmt.body[0])
                need(same(arg, '[self.yields_desc]'), 'format: Yields bucket')
                plan.append(('EYield', 'BYield', const_str(lab), ''))
            else:
                need(False, 'format: unknown condition ' + ast.dump(stmt.test)[:200])
        elif isinstance(stmt, ast.AugAssign):
            lab, arg = desc_list_call(stmt)
            plan.append(('EDescList', BUCKETS[self_attr(arg)], const_str(lab), ''))
        elif isinstance(stmt, ast.For):
            need(not stmt.orelse and len(stmt.body) == 1, 'format: for shape')
            if same(stmt.body[0], 'r += format_field_list(*s_p_l)'):
                need(isinstance(stmt.target, ast.Name) and stmt.target.id == 's_p_l' and isinstance(stmt.iter, ast.Tuple),
                     'format: field-list loop header')
                for el in stmt.iter.elts:
                    need(isinstance(el, ast.Tuple) and len(el.elts) == 3, 'format: (singular, plural, bucket) triple')
                    plan.append(('EFieldList', BUCKETS[self_attr(el.elts[2])], const_str(el.elts[0]), const_str(el.elts[1])))
            elif same(stmt.iter, 'self.unknowns.items()'):
                need(same(stmt.target, '(kind, fieldlist)') or ast.dump(stmt.target) == ast.dump(
                    ast.parse('for kind, fieldlist in x: pass').body[0].target), 'format: unknowns loop target')
                lab, arg = desc_list_call(stmt.body[0])
                need(isinstance(arg, ast.Name) and arg.id == 'fieldlist', 'format: unknowns bucket')
                need(isinstance(lab, ast.JoinedStr) and len(lab.values) == 2 and isinstance(lab.values[0], ast.Constant)
                     and isinstance(lab.values[1], ast.FormattedValue) and isinstance(lab.values[1].value, ast.Name)
                     and lab.values[1].value.id == 'kind' and lab.values[1].conversion == -1
                     and lab.values[1].format_spec is None, 'format: unknown-field label')
                plan.append(('EUnknowns', 'BUnknowns', lab.values[0].value, ''))
            else:
                need(False, 'format: unknown loop ' + ast.dump(stmt)[:200])
        else:
            need(False, 'format: unknown statement ' + ast.dump(stmt)[:200])
    return plan


def check_format_docstring() -> None:
    from pydoctor import epydoc2stan
    src = textwrap.dedent(inspect.getsource(epydoc2stan.format_docstring))
    f = ast.parse(src).body[0]
    body = strip_doc(f.body)
    tail = body[-6:]
    need(same(tail[0], 'fh = FieldHandler(obj)'), 'format_docstring: FieldHandler(obj)')
    need(same(tail[1], 'if isinstance(obj, model.Function):\n    fh.set_param_types_from_annotations(obj.annotations)'),
         'format_docstring: annotations only for Function')
    need(isinstance(tail[2], ast.If) and same(tail[2].test, 'source is not None')
         and same(tail[2].body[-1], 'for field in obj.parsed_docstring.fields:\n    fh.handle(Field.from_epydoc(field, source))'),
         'format_docstring: handle loop')
    need(same(tail[3], 'if isinstance(obj, model.Function):\n    fh.resolve_types()'), 'format_docstring: resolve_types')
    need(same(tail[4], 'ret(fh.format())'), 'format_docstring: format')
    need(isinstance(body[-1], ast.Return), 'format_docstring: return')


def py_space() -> List[int]:
    out = []
    for c in range(0x110000):
        ch = chr(c)
        stripped = ('x' + ch).rstrip() == 'x'
        need(stripped == ch.isspace(), 'rstrip() and isspace() disagree on U+%04X' % c)
        if stripped:
            out.append(c)
    need(32 in out and 10 in out and 9 in out, 'space, newline, tab are not whitespace')
    return out


PROMPT2_PATTERN = r'(^[ \t]*\.\.\.(?:[ \t]|$))'
DEFINE_FUNC_PATTERN = r'(?P<def>\w+)(?P<space>\s+)(?P<name>\w+)'
KINDS = ['STRING', 'COMMENT', 'DEFINE', 'KEYWORD', 'BUILTIN', 'PROMPT1', 'PROMPT2', 'EOS']


def doctest_pins() -> dict:
    from pydoctor.epydoc import doctest as D
    need(D.PROMPT2_RE.pattern == PROMPT2_PATTERN and D.PROMPT2_RE.flags == (re.M | re.S | re.U),
         'PROMPT2_RE changed: %r flags %r' % (D.PROMPT2_RE.pattern, D.PROMPT2_RE.flags))
    need(D.DEFINE_FUNC_RE.pattern == DEFINE_FUNC_PATTERN and D.DEFINE_FUNC_RE.flags == int(re.U),
         'DEFINE_FUNC_RE changed: %r flags %r' % (D.DEFINE_FUNC_RE.pattern, D.DEFINE_FUNC_RE.flags))
    gi = D.DOCTEST_RE.groupindex
    need(gi.get('STRING') is not None and set(KINDS) <= set(gi), 'DOCTEST_RE named groups: %s' % sorted(gi))
    need(set(gi) == set(KINDS), 'DOCTEST_RE has named groups the model does not know: %s' % sorted(set(gi) - set(KINDS)))
    need(D.DOCTEST_RE.flags == (re.M | re.S | re.U), 'DOCTEST_RE flags')
    # the whole match is group 1 and the named alternative equals it
    need(D.DOCTEST_RE.pattern.startswith('(') and D.DOCTEST_RE.pattern.endswith(')'), 'DOCTEST_RE outer group')
    return {}


def epytext_tables() -> dict:
    from pydoctor.epydoc.markup import epytext as E
    tags_ = dict(E._COLORIZING_TAGS)
    known = {'code', 'math', 'italic', 'bold', 'uri', 'link', 'escape', 'symbol'}
    need(set(tags_.values()) <= known, 'unknown colorizing element %s' % sorted(set(tags_.values()) - known))
    need(all(len(k) == 1 and 'A' <= k <= 'Z' for k in tags_), 'colorizing tag letters')
    need(list(E._LINK_COLORIZING_TAGS) == ['link', 'uri'], '_LINK_COLORIZING_TAGS')
    need(E._BRACE_RE.pattern == '{|}', '_BRACE_RE')
    need(E._TARGET_RE.pattern == r'^(.*?)\s*<(?:URI:|URL:)?([^<>]+)>$', '_TARGET_RE')
    esc = dict(E._ESCAPES)
    need(all(len(v) == 1 for v in esc.values()), '_ESCAPES values')
    cp = E.ParsedEpytextDocstring.SYMBOL_TO_CODEPOINT
    need(set(E._SYMBOLS) == set(cp), 'a symbol without code point: %s' % sorted(set(E._SYMBOLS) ^ set(cp)))
    return {'tags': tags_, 'escapes': esc, 'symbols': dict(cp)}


def extract_fields_tables() -> dict:
    """epydoc2stan.extract_fields: the tags it handles, the one that sets the type, the kind each of the others gives"""
    from pydoctor import epydoc2stan, model
    src = textwrap.dedent(inspect.getsource(epydoc2stan.extract_fields))
    f = ast.parse(src).body[0]
    body = strip_doc(f.body)
    loop = body[-1]
    need(isinstance(loop, ast.For) and same(loop.iter, 'parsed_doc.fields') and not loop.orelse, 'extract_fields: field loop')
    need(len(loop.body) == 2 and same(loop.body[0], 'tag = field.tag()'), 'extract_fields: tag = field.tag()')
    cond = loop.body[1]
    need(isinstance(cond, ast.If) and not cond.orelse and isinstance(cond.test, ast.Compare) and len(cond.test.ops) == 1
         and isinstance(cond.test.ops[0], ast.In) and same(cond.test.left, 'tag')
         and isinstance(cond.test.comparators[0], ast.List), 'extract_fields: if tag in [...]')
    tags = []
    for e in cond.test.comparators[0].elts:
        need(isinstance(e, ast.Constant) and isinstance(e.value, str), 'extract_fields: tag list element')
        tags.append(e.value)
    b = cond.body
    need(same(b[0], 'arg = field.arg()'), 'extract_fields: arg = field.arg()')
    need(same(b[1], '''
if arg is None:
    obj.report("Missing field name in @%s" % (tag,), 'docstring', field.lineno)
    continue
'''), 'extract_fields: missing-name report')
    need(isinstance(b[2], ast.AnnAssign) and same(b[2].value, 'obj.contents.get(arg)'), 'extract_fields: obj.contents.get(arg)')
    need(isinstance(b[3], ast.If) and same(b[3].test, 'attrobj is None')
         and same(b[3].body[0], 'attrobj = obj.system.Attribute(obj.system, arg, obj)')
         and same(b[3].body[-1], 'obj.system.addObject(attrobj)'), 'extract_fields: attribute creation')
    need(same(b[-1], '''
if tag == 'type':
    attrobj.parsed_type = field.body()
else:
    attrobj.parsed_docstring = field.body()
    attrobj.kind = field_name_to_kind[tag]
'''), 'extract_fields: type / docstring assignment')
    need('type' in tags, "extract_fields: 'type' not handled")
    kinds = {}
    codes = {model.DocumentableKind.INSTANCE_VARIABLE: 0, model.DocumentableKind.CLASS_VARIABLE: 1,
             model.DocumentableKind.VARIABLE: 2}
    for t in tags:
        if t == 'type':
            continue
        need(t in epydoc2stan.field_name_to_kind, 'extract_fields: no kind for @%s' % t)
        k = epydoc2stan.field_name_to_kind[t]
        need(k in codes, 'extract_fields: unknown kind %r' % k)
        kinds[t] = codes[k]
    return {'tags': tags, 'kinds': kinds}


ELEMS = {'code': 'ECode', 'math': 'EMath', 'italic': 'EItalic', 'bold': 'EBold', 'uri': 'EUri', 'link': 'ELink',
         'escape': 'EEscape', 'symbol': 'ESymbol'}


def generate() -> dict:
    ht = handler_table()
    plan = format_plan()
    check_format_docstring()
    sp = py_space()
    doctest_pins()
    ep = epytext_tables()
    xf = extract_fields_tables()
    from pydoctor.epydoc.markup import restructuredtext as R
    need(isinstance(R.CONSOLIDATED_FIELDS, dict) and all(isinstance(k, str) and isinstance(v, str) for k, v in R.CONSOLIDATED_FIELDS.items()), 'CONSOLIDATED_FIELDS')
    need(isinstance(R.CONSOLIDATED_DEFLIST_FIELDS, list), 'CONSOLIDATED_DEFLIST_FIELDS')
    need(R._SplitFieldsTranslator.ALLOW_UNMARKED_ARG_IN_CONSOLIDATED_FIELD is True, 'ALLOW_UNMARKED_ARG_IN_CONSOLIDATED_FIELD')
    L: List[str] = []
    L.append('From Coq Require Import NArith List.')
    L.append('From PydoctorVerif Require Import Base.Sexp Model.FieldTypes.')
    L.append('Import ListNotations.')
    L.append('Local Open Scope N_scope.')
    L.append('')
    L.append('(* getattr(FieldHandler, "handle_" + tag) for every such attribute *)')
    L.append('Definition handler_table : list (text * handler) := [')
    L.append(';\n'.join('  (%s, %s) (* %s *)' % (coq_text(t), h, comment_safe(t)) for t, h in ht))
    L.append('].')
    L.append('')
    L.append('(* FieldHandler.format(): emission order, formatter, label *)')
    L.append('Definition format_plan : list plan_entry := [')
    L.append(';\n'.join('  {| pe_kind := %s; pe_bucket := %s; pe_label := %s; pe_plural := %s |} (* %s / %s *)'
                        % (k, b, coq_text(l), coq_text(p), comment_safe(l), comment_safe(p)) for k, b, l, p in plan))
    L.append('].')
    L.append('')
    L.append('(* code points removed by str.rstrip() with no argument (= str.isspace) *)')
    L.append('Definition py_space : list N := [%s].' % '; '.join(str(c) for c in sp))
    L.append('')
    L.append('(* epytext inline markup: tag letter -> element *)')
    L.append('Inductive epy_elem := ECode | EMath | EItalic | EBold | EUri | ELink | EEscape | ESymbol.')
    L.append('Definition colorizing_tags : list (N * epy_elem) := [%s].'
             % '; '.join('(%d, %s)' % (ord(k), ELEMS[v]) for k, v in sorted(ep['tags'].items())))
    L.append('Definition epy_escapes : list (text * N) := [%s].'
             % '; '.join('(%s, %d)' % (coq_text(k), ord(v)) for k, v in sorted(ep['escapes'].items())))
    L.append('Definition epy_symbols : list (text * N) := [')
    L.append(';\n'.join('  (%s, %d)' % (coq_text(k), v) for k, v in sorted(ep['symbols'].items())))
    L.append('].')
    L.append('')
    L.append('(* epydoc2stan.extract_fields: `if tag in [...]`, and field_name_to_kind (0 instance / 1 class / 2 module variable) *)')
    L.append('Definition extract_tags : list text := [%s].' % '; '.join(coq_text(t) for t in xf['tags']))
    L.append('Definition extract_type_tag : text := %s.' % coq_text('type'))
    L.append('Definition extract_kinds : list (text * N) := [%s].'
             % '; '.join('(%s, %d)' % (coq_text(t), k) for t, k in xf['kinds'].items()))
    L.append('')
    L.append('(* restructuredtext.CONSOLIDATED_FIELDS (list tag -> entry tag, dict order) and CONSOLIDATED_DEFLIST_FIELDS *)')
    L.append('Definition consolidated_fields : list (text * text) := [%s].'
             % '; '.join('(%s, %s)' % (coq_text(k), coq_text(v)) for k, v in R.CONSOLIDATED_FIELDS.items()))
    L.append('Definition consolidated_deflist_fields : list text := [%s].'
             % '; '.join(coq_text(k) for k in R.CONSOLIDATED_DEFLIST_FIELDS))
    return {'TablesC09.v': '\n'.join(L) + '\n'}


if __name__ == '__main__':
    print(generate()['TablesC09.v'])
