"""Translator A for C04: the BODIES of pydoctor/model.py
    Documentable.expandName, Module._localNameToFullName, Class._localNameToFullName, Class.find
translated statement by statement into the deep-embedded language of Model/NamesIR.v (-> Gen/NamesCode.v).
Proofs/NamesIRProofs.v proves, for every registry state / object / name, that interpreting THIS output is Model/Names.v
(l2f, find_member, expand_name); a behavioural edit of those bodies changes Gen/NamesCode.v and breaks that obligation.

Fail-closed: any statement, expression, receiver or call outside the recognised shapes aborts with `unrecognised shape`.
Normalisations (meaning-preserving, done here): docstrings/annotations/pass dropped; `a, *b = e` and `x += e`
desugared; `elif` = nested if; locals numbered in order of first binding (renaming locals does not change the output).
Pinned (checked, not translated): Documentable.resolveName, System.objForFullName, Inheritable._localNameToFullName.
"""
import ast, inspect, textwrap
from pathlib import Path


class Bad(ValueError):
    pass


def bad(what, node=None):
    raise Bad('unrecognised shape: %s%s' % (what, (' at line %d: %s' % (node.lineno, ast.unparse(node)[:90]))
                                            if node is not None and hasattr(node, 'lineno') else ''))


def find_class(tree, name):
    cs = [n for n in tree.body if isinstance(n, ast.ClassDef) and n.name == name]
    if len(cs) != 1:
        bad('class %s not found exactly once' % name)
    return cs[0]


def find_method(cls, name):
    fs = [n for n in cls.body if isinstance(n, ast.FunctionDef) and n.name == name]
    if len(fs) != 1:
        bad('method %s.%s not found exactly once' % (cls.name, name))
    return fs[0]


def strip_doc(body):
    if body and isinstance(body[0], ast.Expr) and isinstance(body[0].value, ast.Constant) and isinstance(body[0].value.value, str):
        return body[1:]
    return body


MAPS = {'contents': ('EInContents', 'EContentsIdx', 'EContentsGet'),
        '_localNameToFullName_map': ('EInAmap', 'EAmapIdx', None)}


class Fn:
    """translation of one method body with parameters (self, name)"""

    def __init__(self, fn, helper=False, module_funcs=None):
        self.fn = fn
        self.helper = helper
        self.module_funcs = module_funcs or {}
        a = fn.args
        if a.vararg or a.kwarg or a.kwonlyargs or a.posonlyargs or a.defaults:
            bad('parameter list of %s' % fn.name, fn)
        if not helper and [x.arg for x in a.args] != ['self', 'name']:
            bad('parameters of %s are not (self, name)' % fn.name, fn)
        if fn.decorator_list:
            bad('decorated %s' % fn.name, fn)
        self.vars = {}
        self.types = {}
        self.assigned = set()
        self.hidden = 0
        self.dict_alias = {}      # local -> (attr, receiver text): a local bound to x.contents / x._localNameToFullName_map
        self.gen_alias = {}       # local -> ast.GeneratorExp
        if helper:
            for x in a.args:      # the parameters of a helper are its locals 0, 1, ...
                if x.arg == 'self':
                    bad('helper with a self parameter', fn)
                self.bind(x.arg, 'any')

    # ---- locals
    def var(self, name):
        if name not in self.vars:
            self.vars[name] = len(self.vars)
        return '%d' % self.vars[name]

    def bind(self, name, ty):
        v = self.var(name)
        self.assigned.add(name)
        self.types[name] = ty if self.types.get(name, ty) == ty else 'any'
        return v

    def fresh(self, ty):
        self.hidden += 1
        return self.bind('$h%d' % self.hidden, ty), '$h%d' % self.hidden

    # ---- expressions: returns (coq text, type) with type in str | seg? no: 'str','list','int','bool','obj','optobj','none','any'
    def as_dict(self, e):
        """(attr, receiver text) when e denotes x.contents / x._localNameToFullName_map, directly or through a local"""
        if isinstance(e, ast.Attribute) and e.attr in MAPS:
            return e.attr, self.obj(e.value)
        if isinstance(e, ast.Name) and e.id in self.dict_alias:
            return self.dict_alias[e.id]
        return None

    def dict_get(self, d, key, default):
        attr, recv = d
        k = self.expr(key)[0]
        if attr == 'contents' and default is None:
            return 'EContentsGet (%s) (%s)' % (recv, k), 'optobj'
        dflt = 'EConst VNone' if default is None else self.expr(default)[0]
        return 'ECond (%s (%s) (%s)) (%s (%s) (%s)) (%s)' % (MAPS[attr][0], recv, k, MAPS[attr][1], recv, k, dflt), 'any'

    def expr(self, e):
        if isinstance(e, ast.Constant):
            if e.value == '' and isinstance(e.value, str):
                return 'EConst (VStr [])', 'str'
            if e.value is None:
                return 'EConst VNone', 'none'
            if e.value is True or e.value is False:
                return 'EConst (VBool %s)' % ('true' if e.value else 'false'), 'bool'
            if isinstance(e.value, int):
                return 'EConst (VInt (%d)%%Z)' % e.value, 'int'
            bad('constant', e)
        if isinstance(e, ast.Name):
            if e.id == 'self' and not self.helper:
                return 'ESelf', 'obj'
            if e.id == 'name' and not self.helper:
                return 'EName', 'str'
            if e.id in self.dict_alias or e.id in self.gen_alias:
                bad('a local bound to a dict / generator used as a value', e)
            if e.id not in self.assigned:
                bad('local %r read before it is bound' % e.id, e)
            return 'EVar %s' % self.var(e.id), self.types.get(e.id, 'any')
        if isinstance(e, ast.UnaryOp) and isinstance(e.op, ast.Not):
            return 'ENot (%s)' % self.expr(e.operand)[0], 'bool'
        if isinstance(e, ast.BoolOp):
            parts = [self.expr(v)[0] for v in e.values]
            op = 'EAnd' if isinstance(e.op, ast.And) else 'EOr'
            r = parts[-1]
            for p in reversed(parts[:-1]):
                r = '%s (%s) (%s)' % (op, p, r)
            return r, 'any'
        if isinstance(e, ast.Compare):
            if len(e.ops) != 1:
                bad('chained comparison', e)
            op, l, r = e.ops[0], e.left, e.comparators[0]
            if isinstance(op, (ast.Is, ast.IsNot)):
                if not (isinstance(r, ast.Constant) and r.value is None):
                    bad('`is` with something other than None', e)
                return '%s (%s)' % ('EIsNone' if isinstance(op, ast.Is) else 'EIsNotNone', self.expr(l)[0]), 'bool'
            if isinstance(op, (ast.In, ast.NotIn)):
                d = self.as_dict(r)
                if d is not None:
                    t = '%s (%s) (%s)' % (MAPS[d[0]][0], d[1], self.expr(l)[0])
                    return (t if isinstance(op, ast.In) else 'ENot (%s)' % t), 'bool'
                bad('`in` on something other than contents / _localNameToFullName_map', e)
            lt, rt = self.expr(l), self.expr(r)
            if isinstance(op, ast.Eq):
                return 'EEq (%s) (%s)' % (lt[0], rt[0]), 'bool'
            if isinstance(op, ast.NotEq):
                return 'ENe (%s) (%s)' % (lt[0], rt[0]), 'bool'
            if lt[1] == 'int' and rt[1] == 'int':
                if isinstance(op, ast.Lt):
                    return 'ELt (%s) (%s)' % (lt[0], rt[0]), 'bool'
                if isinstance(op, ast.Gt):
                    return 'ELt (%s) (%s)' % (rt[0], lt[0]), 'bool'
                if isinstance(op, ast.GtE):
                    return 'ENot (ELt (%s) (%s))' % (lt[0], rt[0]), 'bool'
                if isinstance(op, ast.LtE):
                    return 'ENot (ELt (%s) (%s))' % (rt[0], lt[0]), 'bool'
            bad('comparison', e)
        if isinstance(e, ast.BinOp) and isinstance(e.op, ast.Add):
            a, b = self.expr(e.left), self.expr(e.right)
            if a[1] == 'int' and b[1] == 'int':
                return 'EAddI (%s) (%s)' % (a[0], b[0]), 'int'
            if a[1] == 'list' and b[1] == 'list':
                return 'EConcat (%s) (%s)' % (a[0], b[0]), 'list'
            bad('`+` on operands that are not both int or both list', e)
        if isinstance(e, ast.List):
            # [a] ; [a, *l] = [a] + l
            if len(e.elts) == 1 and not isinstance(e.elts[0], ast.Starred):
                return 'ESingleton (%s)' % self.expr(e.elts[0])[0], 'list'
            if len(e.elts) == 2 and not isinstance(e.elts[0], ast.Starred) and isinstance(e.elts[1], ast.Starred):
                tail = self.expr(e.elts[1].value)
                if tail[1] != 'list':
                    bad('starred element that is not a list', e)
                return 'EConcat (ESingleton (%s)) (%s)' % (self.expr(e.elts[0])[0], tail[0]), 'list'
            bad('list literal', e)
        if isinstance(e, ast.IfExp):
            return 'ECond (%s) (%s) (%s)' % (self.expr(e.test)[0], self.expr(e.body)[0], self.expr(e.orelse)[0]), 'any'
        if isinstance(e, ast.Tuple) and len(e.elts) == 2:
            return 'EPair (%s) (%s)' % (self.expr(e.elts[0])[0], self.expr(e.elts[1])[0]), 'pair'
        if isinstance(e, ast.JoinedStr):
            v = e.values
            if (len(v) == 3 and isinstance(v[0], ast.FormattedValue) and isinstance(v[2], ast.FormattedValue)
                    and isinstance(v[1], ast.Constant) and v[1].value == '.'
                    and v[0].conversion == -1 and v[2].conversion == -1 and v[0].format_spec is None and v[2].format_spec is None):
                return 'EDot (%s) (%s)' % (self.expr(v[0].value)[0], self.expr(v[2].value)[0]), 'str'
            bad('f-string other than f"{a}.{b}"', e)
        if isinstance(e, ast.Subscript):
            d = self.as_dict(e.value)
            if d is not None and not isinstance(e.slice, ast.Slice):
                return '%s (%s) (%s)' % (MAPS[d[0]][1], d[1], self.expr(e.slice)[0]), ('obj' if d[0] == 'contents' else 'str')
            base = self.expr(e.value)
            if base[1] != 'list':
                bad('subscript of something that is not a list', e)
            if isinstance(e.slice, ast.Slice):
                if e.slice.upper is not None or e.slice.step is not None or e.slice.lower is None:
                    bad('slice other than l[a:]', e)
                lo = self.expr(e.slice.lower)
                if lo[1] != 'int':
                    bad('slice bound', e)
                return 'ESliceFrom (%s) (%s)' % (base[0], lo[0]), 'list'
            ix = self.expr(e.slice)
            if ix[1] != 'int':
                bad('list index', e)
            return 'EIndex (%s) (%s)' % (base[0], ix[0]), 'any'
        if isinstance(e, ast.Attribute):
            if e.attr == 'parent':
                return 'EParent (%s)' % self.obj(e.value), 'optobj'
            bad('attribute', e)
        if isinstance(e, ast.Call):
            if e.keywords:
                bad('call with keywords', e)
            f = e.func
            if isinstance(f, ast.Name) and f.id == 'len' and len(e.args) == 1:
                a = self.expr(e.args[0])
                if a[1] != 'list':
                    bad('len() of something that is not a list', e)
                return 'ELen (%s)' % a[0], 'int'
            if isinstance(f, ast.Name) and f.id == 'isinstance' and len(e.args) == 2 and ast.unparse(e.args[1]) == 'Class':
                return 'EIsClass (%s)' % self.expr(e.args[0])[0], 'bool'
            if isinstance(f, ast.Attribute):
                m = f.attr
                if m == 'split' and len(e.args) == 1 and isinstance(e.args[0], ast.Constant) and e.args[0].value == '.':
                    return 'ESplit (%s)' % self.expr(f.value)[0], 'list'
                if (m == 'join' and isinstance(f.value, ast.Constant) and f.value.value == '.' and len(e.args) == 1):
                    a = self.expr(e.args[0])
                    if a[1] != 'list':
                        bad('join() of something that is not a list', e)
                    return 'EJoin (%s)' % a[0], 'str'
                if m == '_localNameToFullName' and len(e.args) == 1:
                    return 'EL2F (%s) (%s)' % (self.obj(f.value), self.expr(e.args[0])[0]), 'str'
                if m == 'find' and len(e.args) == 1:
                    return 'EFind (%s) (%s)' % (self.obj(f.value), self.expr(e.args[0])[0]), 'optobj'
                if m == 'mro' and not e.args:
                    return 'EMro (%s)' % self.obj(f.value), 'list'
                if m == 'fullName' and not e.args:
                    return 'EFullName (%s)' % self.obj(f.value), 'str'
                if m == 'objForFullName' and len(e.args) == 1 and ast.unparse(f.value) == 'self.system':
                    return 'EObjFor (%s)' % self.expr(e.args[0])[0], 'optobj'
                if m == 'get' and len(e.args) in (1, 2) and self.as_dict(f.value) is not None:
                    return self.dict_get(self.as_dict(f.value), e.args[0], e.args[1] if len(e.args) == 2 else None)
            bad('call', e)
        bad('expression %s' % type(e).__name__, e)

    def obj(self, e):
        """an expression used as the receiver of a method / attribute: any expression, the interpreter checks it is an object"""
        return self.expr(e)[0]

    # ---- statements
    def block(self, stmts):
        out = []
        for s in stmts:
            out.extend(self.stmt(s))
        if not out:
            return 'SSkip'
        r = out[-1]
        for o in reversed(out[:-1]):
            r = 'SSeq (%s) (%s)' % (o, r)
        return r

    def assign(self, target, text, ty):
        if not isinstance(target, ast.Name) or target.id in ('self', 'name'):
            bad('assignment target', target)
        return 'SAssign %s (%s)' % (self.bind(target.id, ty), text)

    def stmt(self, s):
        if isinstance(s, ast.Pass):
            return []
        if isinstance(s, ast.Expr) and isinstance(s.value, ast.Constant) and isinstance(s.value.value, str):
            return []
        if isinstance(s, ast.AnnAssign):
            if s.value is None:
                return []
            s = ast.copy_location(ast.Assign(targets=[s.target], value=s.value), s)
        if isinstance(s, ast.AugAssign):
            if not isinstance(s.op, ast.Add) or not isinstance(s.target, ast.Name):
                bad('augmented assignment', s)
            s = ast.copy_location(ast.Assign(targets=[s.target],
                                             value=ast.BinOp(left=ast.Name(id=s.target.id, ctx=ast.Load()), op=ast.Add(), right=s.value)), s)
            ast.fix_missing_locations(s)
        if isinstance(s, ast.Assign):
            if len(s.targets) != 1:
                bad('chained assignment', s)
            t = s.targets[0]
            if isinstance(t, ast.Name) and t.id not in ('self', 'name') or (self.helper and isinstance(t, ast.Name)):
                # a local that caches a dict / names a generator: no statement, the local stands for the expression
                if isinstance(s.value, ast.Attribute) and s.value.attr in MAPS:
                    self.dict_alias[t.id] = (s.value.attr, self.obj(s.value.value))
                    return []
                if isinstance(s.value, ast.GeneratorExp):
                    self.gen_alias[t.id] = s.value
                    return []
            call = self.helper_call(s.value)
            if call is not None:
                callee, args = call
                if isinstance(t, ast.Tuple) and all(isinstance(x, ast.Name) for x in t.elts):
                    ts = [self.bind(x.id, 'any') for x in t.elts]
                elif isinstance(t, ast.Name):
                    ts = [self.bind(t.id, 'any')]
                else:
                    bad('target of a helper call', s)
                return ['SCall [%s] (%s) [%s]' % ('; '.join(ts), callee, '; '.join(args))]
            text, ty = self.expr(s.value)
            if isinstance(t, ast.Tuple):
                # a, *b = e     ->  h = e ; a = h[0] ; b = h[1:]
                if (len(t.elts) == 2 and isinstance(t.elts[0], ast.Name) and isinstance(t.elts[1], ast.Starred)
                        and isinstance(t.elts[1].value, ast.Name) and ty == 'list'):
                    h, hname = self.fresh('list')
                    return ['SAssign %s (%s)' % (h, text),
                            self.assign(t.elts[0], 'EIndex (EVar %s) (EConst (VInt 0%%Z))' % h, 'any'),
                            self.assign(t.elts[1].value, 'ESliceFrom (EVar %s) (EConst (VInt 1%%Z))' % h, 'list')]
                bad('tuple assignment', s)
            return [self.assign(t, text, ty)]
        if isinstance(s, ast.If):
            c = self.expr(s.test)[0]
            before = set(self.assigned)
            th = self.block(s.body)
            a1 = self.assigned
            self.assigned = set(before)
            el = self.block(s.orelse)
            self.assigned = a1 & self.assigned
            return ['SIf (%s) (%s) (%s)' % (c, th, el)]
        if isinstance(s, ast.For):
            if s.orelse:
                bad('for ... else', s)
            it = s.iter
            idx = 'None'
            if (isinstance(it, ast.Call) and isinstance(it.func, ast.Name) and it.func.id == 'enumerate' and len(it.args) == 1
                    and not it.keywords):
                if not (isinstance(s.target, ast.Tuple) and len(s.target.elts) == 2
                        and all(isinstance(x, ast.Name) for x in s.target.elts)):
                    bad('enumerate() target', s)
                seq = self.expr(it.args[0])
                idx = 'Some %s' % self.bind(s.target.elts[0].id, 'int')
                x = self.bind(s.target.elts[1].id, 'any')
            else:
                if not isinstance(s.target, ast.Name):
                    bad('for target', s)
                seq = self.expr(it)
                x = self.bind(s.target.id, 'any')
            if seq[1] != 'list':
                bad('for over something that is not a list', s)
            before = set(self.assigned)
            body = self.block(s.body)
            self.assigned = before            # the loop may run zero times
            return ['SFor (%s) %s (%s) (%s)' % (idx, x, seq[0], body)]
        if isinstance(s, ast.While):
            if s.orelse:
                bad('while ... else', s)
            c = self.expr(s.test)[0]
            before = set(self.assigned)
            body = self.block(s.body)
            self.assigned = before
            return ['SWhile (%s) (%s)' % (c, body)]
        if isinstance(s, ast.Break):
            return ['SBreak']
        if isinstance(s, ast.Continue):
            return ['SContinue']
        if isinstance(s, ast.Return):
            if s.value is None:
                return ['SReturn (EConst VNone)']
            v = s.value
            if (isinstance(v, ast.Call) and isinstance(v.func, ast.Name) and v.func.id == 'next' and len(v.args) == 2
                    and not v.keywords):
                return self.unroll_next(v)
            return ['SReturn (%s)' % self.expr(v)[0]]
        bad('statement %s' % type(s).__name__, s)

    def helper_call(self, v):
        """f(args) with f a module-level function of model.py whose body is in the language: (callee text, [arg texts])"""
        if not (isinstance(v, ast.Call) and isinstance(v.func, ast.Name) and v.func.id in self.module_funcs and not v.keywords):
            return None
        fn = self.module_funcs[v.func.id]
        if len(v.args) != len(fn.args.args) or any(isinstance(a, ast.Starred) for a in v.args):
            bad('arguments of helper %s' % fn.name, v)
        sub = Fn(fn, helper=True, module_funcs={k: f for k, f in self.module_funcs.items() if k != fn.name})
        return sub.translate(), [self.expr(a)[0] for a in v.args]

    def unroll_next(self, call):
        """return next(G, default), G a pipeline of generator expressions over a list  ->  for loop with early return"""
        stages = []

        def collect(g):
            if isinstance(g, ast.Name) and g.id in self.gen_alias:
                g = self.gen_alias[g.id]
            if not isinstance(g, ast.GeneratorExp):
                return self.expr(g)            # the list the pipeline starts from
            if len(g.generators) != 1 or g.generators[0].is_async or not isinstance(g.generators[0].target, ast.Name):
                bad('generator expression', g)
            src = collect(g.generators[0].iter)
            stages.append(g)
            return src
        src = collect(call.args[0])
        if not stages or src[1] != 'list':
            bad('next() over something that is not a generator pipeline over a list', call)
        default = call.args[1]
        first = stages[0].generators[0]
        x = self.bind(first.target.id, 'any')
        before = set(self.assigned)

        def body(k):
            g = stages[k]
            comp = g.generators[0]
            if k + 1 < len(stages):
                nxt = stages[k + 1].generators[0]
                inner = 'SSeq (SAssign %s (%s)) (%s)' % (self.bind(nxt.target.id, 'any'), self.expr(g.elt)[0], '%s')
                rest = inner % body(k + 1)
            else:
                rest = 'SReturn (%s)' % self.expr(g.elt)[0]
            for c in reversed(comp.ifs):
                rest = 'SIf (%s) (%s) (SSkip)' % (self.expr(c)[0], rest)
            return rest
        # conditions of stage k may mention its target: bind targets before translating
        loop = 'SFor (None) %s (%s) (%s)' % (x, src[0], body(0))
        self.assigned = before
        return [loop, 'SReturn (%s)' % self.expr(default)[0]]

    def translate(self):
        # locals bound in a loop body stay bound after it only if the loop ran; Python would raise UnboundLocalError
        # otherwise -- the interpreter reports that as RError, so reads after a loop are allowed here
        text = self.block_allow_loop_locals(strip_doc(self.fn.body))
        return text

    def block_allow_loop_locals(self, stmts):
        out = []
        for s in stmts:
            before = set(self.assigned)
            out.extend(self.stmt(s))
            if isinstance(s, (ast.For, ast.While)):
                # names bound inside the loop may be read afterwards (unbound -> RError in the interpreter)
                for n in ast.walk(s):
                    if isinstance(n, ast.Name) and isinstance(n.ctx, ast.Store):
                        self.bind(n.id, self.types.get(n.id, 'any'))
        if not out:
            return 'SSkip'
        r = out[-1]
        for o in reversed(out[:-1]):
            r = 'SSeq (%s) (%s)' % (o, r)
        return r


def norm(fn):
    f2 = ast.FunctionDef(name=fn.name, args=ast.arguments(posonlyargs=[], args=[ast.arg(arg=a.arg) for a in fn.args.args],
                                                           vararg=None, kwonlyargs=[], kw_defaults=[], kwarg=None, defaults=[]),
                         body=strip_doc(fn.body) or [ast.Pass()], decorator_list=[], returns=None, type_comment=None,
                         lineno=0, col_offset=0)
    return ast.unparse(ast.fix_missing_locations(f2))


def pin(cond, what):
    if not cond:
        bad('pinned function changed: ' + what)


def generate() -> dict:
    from pydoctor import model
    src = Path(inspect.getsourcefile(model)).read_text()
    tree = ast.parse(src)
    D = find_class(tree, 'Documentable')
    M = find_class(tree, 'Module')
    C = find_class(tree, 'Class')
    I = find_class(tree, 'Inheritable')
    S = find_class(tree, 'System')

    pin(norm(find_method(D, 'resolveName')) == 'def resolveName(self, name):\n    return self.system.objForFullName(self.expandName(name))',
        'Documentable.resolveName')
    pin(norm(find_method(S, 'objForFullName')) == 'def objForFullName(self, fullName):\n    return self.allobjects.get(fullName)',
        'System.objForFullName')
    pin(norm(find_method(I, '_localNameToFullName')) == 'def _localNameToFullName(self, name):\n    return self.parent._localNameToFullName(name)',
        'Inheritable._localNameToFullName')
    pin([ast.unparse(b) for b in C.bases] == ['CanContainImportsDocumentable'] and [ast.unparse(b) for b in M.bases] == ['CanContainImportsDocumentable'],
        'Module / Class are no longer direct CanContainImportsDocumentable subclasses')

    items = [('module_l2f', find_method(M, '_localNameToFullName'), 'Module._localNameToFullName'),
             ('class_l2f', find_method(C, '_localNameToFullName'), 'Class._localNameToFullName'),
             ('find', find_method(C, 'find'), 'Class.find'),
             ('expand_name', find_method(D, 'expandName'), 'Documentable.expandName')]
    lines = ['From Coq Require Import ZArith NArith List.', 'Import ListNotations.',
             'From PydoctorVerif Require Import Base.ImportSyntax Model.Names Model.NamesIR.', '']
    module_funcs = {n.name: n for n in tree.body if isinstance(n, ast.FunctionDef)}
    for key, fn, title in items:
        f = Fn(fn, module_funcs=module_funcs)
        text = f.translate()
        lines.append('(* %s ; locals: %s *)' % (title, ', '.join('%s=%d' % (k, v) for k, v in f.vars.items()) or 'none'))
        lines.append('Definition code_%s : istmt :=' % key)
        lines.append(textwrap.fill(text, 110, initial_indent='  ', subsequent_indent='  ', break_long_words=False) + '.')
        lines.append('')
    return {'NamesCode.v': '\n'.join(lines) + '\n'}


if __name__ == '__main__':
    print(generate()['NamesCode.v'])
