"""Translator A for C14: the BODIES of pydoctor/astbuilder.py ModuleVistor._annotations_from_function and of the part of
ModuleVistor._handleFunctionDef that walks ast.arguments, aligns the defaults and builds the list `parameters`,
translated into the deep-embedded producer language of Model/SigIR.v.  Proofs/SigIRProofs.v proves, for every
definition the parser can produce, that the interpretation of THIS output is Model/Sig.v (annotations_from_function,
build_params); so a change of meaning in those bodies changes Gen/SigCode.v and breaks a proof obligation.

Fail-closed: any statement, expression, call or attribute outside the recognised shapes aborts with `unrecognised shape`.

Besides transcription the translator
  * inlines calls of local closures (nested `def`s) and of module-level helper functions of astbuilder.py (these see
    no locals of the caller; `x = helper(..)` where the helper builds a list by append and returns it makes x that
    list; a generator may take arguments): the arguments are let-bound to the renamed parameters first
    (call by value), then the body follows; a closure that returns a value becomes an expression (ELet/EAssert/EIf);
    a closure with `yield` is a generator and its call is EProduced of its body;
  * reads `x = []` / `x: T = {}` followed only by `x.append(e)` / `x[k] = v` (possibly inside inlined closures and
    loops) as the sequence of what is appended / stored, and `yield from e` as `for t in e: yield t`;
  * reads `if v:` on an Optional[ast.AST] local as `v is not None` (AST nodes are truthy);
  * reads `getattr(a, 'posonlyargs', ())` and `try: <stmts> except AttributeError: pass` as the plain attribute access /
    statements (Python >= 3.8: the attribute exists);
  * reads list(l) as l, chain(a, b, ..) as a + b + .., zip(l, repeat(K)) as [(x, K) for x in l] (iterables are lists in
    the language; K is a parameter kind constant);
  * drops `v.arg = epydoc2stan.VariableArgument(v.arg)` / KeywordArgument (str subclasses, equal to the string) and
    the `ctx=` argument of the formatter classes, `cast(T, e)` is e, assert messages are dropped.
Locals assigned inside an `if` / `for` body are not visible after it (using one there aborts the translation).
"""
import ast, inspect, textwrap
from pathlib import Path


class Bad(ValueError):
    pass


def bad(what, node=None):
    raise Bad('unrecognised shape: %s%s' % (what, (' at line %d: %s' % (node.lineno, ast.unparse(node)[:90]))
                                            if node is not None and hasattr(node, 'lineno') else ''))


KINDS = ['POSITIONAL_ONLY', 'POSITIONAL_OR_KEYWORD', 'VAR_POSITIONAL', 'KEYWORD_ONLY', 'VAR_KEYWORD']
# (type of the object, attribute) -> (field constructor, type of the result)
FIELDS = {
    ('def', 'args'): ('FArgs', 'arguments'), ('def', 'returns'): ('FReturns', 'optexpr'),
    ('arguments', 'posonlyargs'): ('FPosonly', ('list', 'arg')), ('arguments', 'args'): ('FArgsList', ('list', 'arg')),
    ('arguments', 'vararg'): ('FVararg', 'optarg'), ('arguments', 'kwonlyargs'): ('FKwonly', ('list', 'arg')),
    ('arguments', 'kw_defaults'): ('FKwDefaults', ('list', 'optexpr')), ('arguments', 'kwarg'): ('FKwarg', 'optarg'),
    ('arguments', 'defaults'): ('FDefaults', ('list', 'expr')),
    ('arg', 'arg'): ('FArg', 'str'), ('optarg', 'arg'): ('FArg', 'str'),
    ('arg', 'annotation'): ('FAnnotation', 'optexpr'), ('optarg', 'annotation'): ('FAnnotation', 'optexpr'),
}
OPTIONAL = ('optarg', 'optexpr')


def strip_doc(body):
    if body and isinstance(body[0], ast.Expr) and isinstance(body[0].value, ast.Constant) and isinstance(body[0].value.value, str):
        return body[1:]
    return body


def contains(node_or_list, cls):
    nodes = node_or_list if isinstance(node_or_list, list) else [node_or_list]
    for n in nodes:
        for x in ast.walk(n):
            if isinstance(x, cls):
                return True
    return False


class Closure:
    def __init__(self, fn, scope):
        self.fn = fn
        self.scope = scope          # the scope at the definition (lexical)
        a = fn.args
        if a.vararg or a.kwarg or a.kwonlyargs or a.posonlyargs or a.defaults or fn.decorator_list:
            bad('signature of local function %s' % fn.name, fn)
        self.params = [x.arg for x in a.args]
        body = strip_doc(fn.body)
        own = [s for s in body]
        if contains(own, (ast.Yield, ast.YieldFrom)):
            self.kind = 'gen'
        elif (own and isinstance(own[-1], ast.Return) and isinstance(own[-1].value, ast.Name)
              and any(isinstance(x, (ast.Assign, ast.AnnAssign)) and isinstance(x.value, ast.List) and not x.value.elts
                      and isinstance(x.targets[0] if isinstance(x, ast.Assign) else x.target, ast.Name)
                      and (x.targets[0] if isinstance(x, ast.Assign) else x.target).id == own[-1].value.id for x in own)):
            self.kind = 'listfn'        # builds a list by append and returns it
        elif any(isinstance(x, ast.Return) and x.value is not None for s in own for x in ast.walk(s)):
            self.kind = 'expr'
        else:
            self.kind = 'stmt'
        self.body = body


MODULE_FUNCS = {}
BODIES = []          # loop bodies, hoisted into named definitions sig_body_<k> (see generate())
MAX_BODIES = 16


def hoist(ir):
    BODIES.append(ir)
    if len(BODIES) > MAX_BODIES:
        bad('more than %d loops' % MAX_BODIES)
    return 'sig_body_%d' % len(BODIES)


class Tr:
    def __init__(self, prefix):
        self.prefix = prefix
        self.vars = {}              # ir name -> index
        self.acc = None             # the accumulator local of the region being translated
        self.ninline = 0
        self.module_funcs = MODULE_FUNCS      # module-level helper functions (inlined like local closures; they see no locals)

    def closure_of(self, scope, name):
        ent = scope.get(name)
        if ent is not None:
            return ent[1] if ent[0] == 'closure' else None
        if name in self.module_funcs:
            return Closure(self.module_funcs[name], {})
        return None

    # ---- variables ------------------------------------------------------------------------------------------------
    def newvar(self, pyname, tag=''):
        base = 'v_%s_%s%s' % (self.prefix, tag, pyname)
        name = base
        k = 1
        while name in self.vars:
            k += 1
            name = '%s_%d' % (base, k)
        self.vars[name] = len(self.vars)
        return name

    # scope: dict python name -> ('var', irname, type) | ('closure', Closure) | ('acc',)
    def lookup(self, scope, name, node):
        if name not in scope:
            bad('name %r is not a known local' % name, node)
        return scope[name]

    # ---- patterns -------------------------------------------------------------------------------------------------
    def pattern(self, target, typ, scope, tag=''):
        """returns (ir pattern, new scope entries)"""
        if isinstance(target, ast.Name):
            v = self.newvar(target.id, tag)
            return 'PVar %s' % v, {target.id: ('var', v, typ)}
        if isinstance(target, ast.Tuple):
            if not (isinstance(typ, tuple) and typ[0] == 'tuple' and len(typ) - 1 == len(target.elts)):
                bad('tuple target does not match the value (%r)' % (typ,), target)
            ps, ents = [], {}
            for t, ty in zip(target.elts, typ[1:]):
                p, e = self.pattern(t, ty, scope, tag)
                ps.append(p)
                for k in e:
                    if k in ents:
                        bad('name bound twice in a target', target)
                ents.update(e)
            return 'PTup [%s]' % '; '.join(ps), ents
        bad('assignment / loop target', target)

    # ---- expressions ----------------------------------------------------------------------------------------------
    def expr(self, e, scope):
        """returns (ir, type)"""
        if isinstance(e, ast.Constant):
            if e.value is None:
                return 'ENone', 'none'
            if isinstance(e.value, bool):
                bad('boolean constant', e)
            if isinstance(e.value, int):
                return 'EInt (%d)' % e.value, 'int'
            if isinstance(e.value, str):
                return 'EText [%s]%%N' % '; '.join(str(ord(c)) for c in e.value), 'str'
            bad('constant', e)
        if isinstance(e, ast.Name):
            if e.id == 'func' and e.id not in scope:
                return 'ENone', 'ctx'          # the Function being built: only ever passed on as ctx= of a formatter
            ent = self.lookup(scope, e.id, e)
            if ent[0] != 'var':
                bad('%r used as a value' % e.id, e)
            return 'EVar %s' % ent[1], ent[2]
        if isinstance(e, ast.Tuple):
            if not e.elts:
                return 'ENil', ('list', 'any')
            parts = [self.expr(x, scope) for x in e.elts]
            ir = 'XNil'
            for p, _ in reversed(parts):
                ir = 'XCons (%s) (%s)' % (p, ir)
            return 'ETuple (%s)' % ir, ('tuple',) + tuple(t for _, t in parts)
        if isinstance(e, ast.Attribute):
            if isinstance(e.value, ast.Name) and e.value.id == 'Parameter':
                if e.attr in KINDS:
                    return 'EKind %s' % e.attr, 'kind'
                if e.attr == 'empty':
                    return 'EEmpty', 'empty'
                bad('attribute of the parameter class', e)
            o, t = self.expr(e.value, scope)
            if (t, e.attr) not in FIELDS:
                bad('attribute .%s of a value of type %r' % (e.attr, t), e)
            f, rt = FIELDS[(t, e.attr)]
            return 'EField (%s) %s' % (o, f), rt
        if isinstance(e, ast.BinOp) and isinstance(e.op, (ast.Add, ast.Sub)):
            a, ta = self.expr(e.left, scope)
            b, tb = self.expr(e.right, scope)
            if ta == 'int' and tb == 'int':
                return '%s (%s) (%s)' % ('EAdd' if isinstance(e.op, ast.Add) else 'EMinus', a, b), 'int'
            if isinstance(e.op, ast.Add) and isinstance(ta, tuple) and ta[0] == 'list' and ta == tb:
                return 'EAdd (%s) (%s)' % (a, b), ta
            bad('operands of + / -', e)
        if isinstance(e, ast.UnaryOp) and isinstance(e.op, ast.Not):
            return 'ENot (%s)' % self.cond(e.operand, scope), 'bool'
        if isinstance(e, ast.BoolOp) and isinstance(e.op, ast.And):
            ir = self.cond(e.values[-1], scope)
            for v in reversed(e.values[:-1]):
                ir = 'EAnd (%s) (%s)' % (self.cond(v, scope), ir)
            return ir, 'bool'
        if isinstance(e, ast.Compare):
            parts = []
            left = e.left
            for op, right in zip(e.ops, e.comparators):
                parts.append(self.compare(left, op, right, scope, e))
                left = right
            ir = parts[-1]
            for p in reversed(parts[:-1]):
                ir = 'EAnd (%s) (%s)' % (p, ir)
            return ir, 'bool'
        if isinstance(e, ast.IfExp):
            c = self.cond(e.test, scope)
            a, ta = self.expr(e.body, scope)
            b, tb = self.expr(e.orelse, scope)
            return 'EIf (%s) (%s) (%s)' % (c, a, b), self.join(ta, tb, e)
        if isinstance(e, ast.Subscript):
            o, t = self.expr(e.value, scope)
            i, ti = self.expr(e.slice, scope)
            if t == 'dict' and ti == 'str':
                # mapping[key] is only reached where mapping.get(key) is not None: same value (KeyError is not modelled)
                return 'EDictGet (%s) (%s)' % (o, i), 'optexpr'
            if isinstance(t, tuple) and t[0] == 'list' and ti == 'int':
                return 'EIndex (%s) (%s)' % (o, i), t[1]
            bad('subscript', e)
        if isinstance(e, ast.ListComp):
            if len(e.generators) != 1 or e.generators[0].ifs or e.generators[0].is_async:
                bad('list comprehension', e)
            g = e.generators[0]
            src, ts = self.expr(g.iter, scope)
            if not (isinstance(ts, tuple) and ts[0] == 'list'):
                bad('iterable of a comprehension', e)
            p, ents = self.pattern(g.target, ts[1], scope)
            b, tb = self.expr(e.elt, dict(scope, **ents))
            return 'EListComp (%s) (%s) (%s)' % (p, src, b), ('list', tb)
        if isinstance(e, ast.Call):
            return self.call(e, scope)
        bad('expression %s' % type(e).__name__, e)

    def join(self, ta, tb, node):
        if ta == tb:
            return ta
        s = {ta, tb}
        if s <= {'none', 'expr', 'optexpr'}:
            return 'optexpr'
        if s <= {'empty', 'expr', 'optexpr', 'formatted'}:
            return 'formatted'
        bad('branches of different types %r / %r' % (ta, tb), node)

    def compare(self, left, op, right, scope, node):
        if isinstance(op, (ast.Is, ast.IsNot)):
            if not (isinstance(right, ast.Constant) and right.value is None):
                bad('`is` with something other than None', node)
            a, ta = self.expr(left, scope)
            if ta not in OPTIONAL and ta != 'none':
                bad('`is None` on a value of type %r' % (ta,), node)
            return ('EIsNone (%s)' if isinstance(op, ast.Is) else 'ENot (EIsNone (%s))') % a
        a, ta = self.expr(left, scope)
        b, tb = self.expr(right, scope)
        if ta != 'int' or tb != 'int':
            bad('comparison of non-integers', node)
        if isinstance(op, ast.Lt):
            return 'ELt (%s) (%s)' % (a, b)
        if isinstance(op, ast.LtE):
            return 'ELe (%s) (%s)' % (a, b)
        if isinstance(op, ast.Gt):
            return 'ELt (%s) (%s)' % (b, a)
        if isinstance(op, ast.GtE):
            return 'ELe (%s) (%s)' % (b, a)
        if isinstance(op, ast.Eq):
            return 'EEq (%s) (%s)' % (a, b)
        if isinstance(op, ast.NotEq):
            return 'ENot (EEq (%s) (%s))' % (a, b)
        bad('comparison operator', node)

    def cond(self, e, scope):
        if isinstance(e, ast.Name):
            if e.id == 'func' and e.id not in scope:
                return 'ENone', 'ctx'          # the Function being built: only ever passed on as ctx= of a formatter
            ent = self.lookup(scope, e.id, e)
            if ent[0] == 'var' and ent[2] in OPTIONAL:
                return 'ENot (EIsNone (EVar %s))' % ent[1]           # `if node:` on an optional AST node
            bad('truth value of %r' % e.id, e)
        ir, t = self.expr(e, scope)
        if t != 'bool':
            bad('condition of type %r' % (t,), e)
        return ir

    def call(self, e, scope):
        f = e.func
        kw = {k.arg: k.value for k in e.keywords}
        if None in kw:
            bad('**kwargs in a call', e)
        if isinstance(f, ast.Name):
            n = f.id
            if n == 'len' and len(e.args) == 1 and not kw:
                a, t = self.expr(e.args[0], scope)
                if not (isinstance(t, tuple) and t[0] in ('list',)):
                    bad('len() of a value of type %r' % (t,), e)
                return 'ELen (%s)' % a, 'int'
            if n == 'enumerate' and 1 <= len(e.args) <= 2 and set(kw) <= {'start'} and len(e.args) + len(kw) <= 2:
                a, t = self.expr(e.args[0], scope)
                if not (isinstance(t, tuple) and t[0] == 'list'):
                    bad('enumerate() of a value of type %r' % (t,), e)
                st = e.args[1] if len(e.args) == 2 else kw.get('start')
                s, ts = ('EInt (0)', 'int') if st is None else self.expr(st, scope)
                if ts != 'int':
                    bad('start of enumerate()', e)
                return 'EEnumerate (%s) (%s)' % (a, s), ('list', ('tuple', 'int', t[1]))
            if n == 'list' and len(e.args) == 1 and not kw:
                a, t = self.expr(e.args[0], scope)
                if not (isinstance(t, tuple) and t[0] == 'list'):
                    bad('list() of a value of type %r' % (t,), e)
                return a, t                                     # iterables are lists here
            if n == 'chain' and e.args and not kw:
                parts = [self.expr(x, scope) for x in e.args]
                t0 = parts[0][1]
                if not (isinstance(t0, tuple) and t0[0] == 'list') or any(t != t0 for _, t in parts):
                    bad('chain() arguments', e)
                ir = parts[-1][0]
                for a, _ in reversed(parts[:-1]):
                    ir = 'EAdd (%s) (%s)' % (a, ir)
                return ir, t0
            if (n == 'zip' and len(e.args) == 2 and not kw and isinstance(e.args[1], ast.Call)
                    and isinstance(e.args[1].func, ast.Name) and e.args[1].func.id == 'repeat'
                    and len(e.args[1].args) == 1 and not e.args[1].keywords):
                # zip(l, repeat(c)) == [(x, c) for x in l]   (c is evaluated once, before the loop: it is a constant here)
                a, ta = self.expr(e.args[0], scope)
                if not (isinstance(ta, tuple) and ta[0] == 'list'):
                    bad('zip() arguments', e)
                c, tc = self.expr(e.args[1].args[0], scope)
                if tc != 'kind':
                    bad('repeat() of something other than a parameter kind', e)
                v = self.newvar('zipped')
                return ('EListComp (PVar %s) (%s) (ETuple (XCons (EVar %s) (XCons (%s) XNil)))' % (v, a, v, c),
                        ('list', ('tuple', ta[1], tc)))
            if n == 'zip' and len(e.args) == 2 and not kw:
                a, ta = self.expr(e.args[0], scope)
                b, tb = self.expr(e.args[1], scope)
                if not (isinstance(ta, tuple) and ta[0] == 'list' and isinstance(tb, tuple) and tb[0] == 'list'):
                    bad('zip() arguments', e)
                return 'EZip (%s) (%s)' % (a, b), ('list', ('tuple', ta[1], tb[1]))
            if n == 'getattr' and len(e.args) == 3 and not kw:
                o, t = self.expr(e.args[0], scope)
                nm, dflt = e.args[1], e.args[2]
                if not (isinstance(nm, ast.Constant) and nm.value == 'posonlyargs' and t == 'arguments'
                        and isinstance(dflt, ast.Tuple) and not dflt.elts):
                    bad('getattr()', e)
                return 'EField (%s) FPosonly' % o, ('list', 'arg')
            if n == 'cast' and len(e.args) == 2 and not kw:
                return self.expr(e.args[1], scope)
            if n in ('_ValueFormatter', '_AnnotationValueFormatter') and len(e.args) == 1 and set(kw) == {'ctx'}:
                if not (isinstance(kw['ctx'], ast.Name) and self.expr(kw['ctx'], scope)[1] == 'ctx'):
                    bad('ctx= of a formatter', e)
                a, t = self.expr(e.args[0], scope)
                if t not in ('expr', 'optexpr', 'none'):      # 'none': a dead branch after inlining (default is None)
                    bad('formatter of a value of type %r' % (t,), e)
                return 'EFormatter (%s)' % a, 'formatted'
            if n == 'Parameter' and len(e.args) == 2 and set(kw) == {'default', 'annotation'}:
                nm, tn = self.expr(e.args[0], scope)
                k, tk = self.expr(e.args[1], scope)
                d, td = self.expr(kw['default'], scope)
                a, ta = self.expr(kw['annotation'], scope)
                if tn != 'str' or tk != 'kind' or td not in ('formatted', 'empty') or ta not in ('formatted', 'empty'):
                    bad('arguments of the parameter constructor (%r %r %r %r)' % (tn, tk, td, ta), e)
                return 'EParam (%s) (%s) (%s) (%s)' % (nm, k, d, a), 'param'
            if n == 'unstring_annotation' and len(e.args) == 2 and not kw:
                if ast.unparse(e.args[1]) != 'self.builder.current':
                    bad('context of unstring_annotation', e)
                a, t = self.expr(e.args[0], scope)
                if t not in ('expr', 'optexpr'):
                    bad('unstring_annotation of a value of type %r' % (t,), e)
                return 'EUnstring (%s)' % a, 'expr'
            c = self.closure_of(scope, n)
            if c is not None:
                if kw:
                    bad('keyword arguments to a local function', e)
                if c.kind == 'gen':
                    bad('a local generator used other than as the iterable of a loop', e)
                if c.kind == 'expr':
                    return self.inline_expr(c, e, scope)
                bad('call of a local procedure used as a value', e)
            bad('call of %s' % n, e)
        if isinstance(f, ast.Attribute):
            src = ast.unparse(f)
            if src in ('epydoc2stan.VariableArgument', 'epydoc2stan.KeywordArgument') and len(e.args) == 1 and not kw:
                a, t = self.expr(e.args[0], scope)
                if t != 'str':
                    bad('argument of %s' % src, e)
                return a, 'str'
            if src == 'self._annotations_from_function' and len(e.args) == 1 and not kw:
                a, t = self.expr(e.args[0], scope)
                if t != 'def':
                    bad('argument of _annotations_from_function', e)
                return 'EAnnotationsOf (%s)' % a, 'dict'
            if f.attr == 'get' and len(e.args) == 1 and not kw:
                o, t = self.expr(f.value, scope)
                k, tk = self.expr(e.args[0], scope)
                if t != 'dict' or tk != 'str':
                    bad('.get() on a value of type %r' % (t,), e)
                return 'EDictGet (%s) (%s)' % (o, k), 'optexpr'
        bad('call', e)

    def source(self, it, scope):
        """the iterable of a for loop / comprehension-as-loop: (ir source, element type)"""
        c = self.closure_of(scope, it.func.id) if isinstance(it, ast.Call) and isinstance(it.func, ast.Name) else None
        if c is not None and c.kind == 'gen':
            if it.keywords:
                bad('keyword arguments to a local generator', it)
            lets, sc, _tag = self.bind_args(c, it, scope)
            ir, ty = self.generator(c, sc)
            for v, a in reversed(lets):
                ir = 'QLet (PVar %s) (%s) (%s)' % (v, a, ir)
            return 'SGen (%s)' % ir, ty
        src, ts = self.expr(it, scope)
        if not (isinstance(ts, tuple) and ts[0] == 'list'):
            bad('iterable of a loop (%r)' % (ts,), it)
        return 'SExpr (%s)' % src, ts[1]

    # ---- local closures -------------------------------------------------------------------------------------------
    def bind_args(self, c, call, scope):
        """let-binds the arguments to freshly named parameters; returns (list of (irvar, ir of argument), callee scope)"""
        if len(call.args) != len(c.params):
            bad('number of arguments to %s' % c.fn.name, call)
        self.ninline += 1
        tag = '%s%d_' % (c.fn.name, self.ninline)
        lets, sc = [], dict(c.scope)
        for p, a in zip(c.params, call.args):
            ir, t = self.expr(a, scope)
            v = self.newvar(p, tag)
            lets.append((v, ir))
            sc[p] = ('var', v, t)
        return lets, sc, tag

    def inline_expr(self, c, call, scope):
        lets, sc, tag = self.bind_args(c, call, scope)
        body, t = self.body_expr(c.body, sc, tag, c.fn)
        for v, ir in reversed(lets):
            body = 'ELet %s (%s) (%s)' % (v, ir, body)
        return body, t

    def body_expr(self, stmts, scope, tag, fn):
        if not stmts:
            bad('local function %s can end without return' % fn.name, fn)
        s, rest = stmts[0], stmts[1:]
        if isinstance(s, ast.Return):
            if s.value is None:
                bad('return without a value', s)
            return self.expr(s.value, scope)
        if isinstance(s, ast.Assert):
            c = self.cond(s.test, scope)
            b, t = self.body_expr(rest, scope, tag, fn)
            return 'EAssert (%s) (%s)' % (c, b), t
        if isinstance(s, (ast.Assign, ast.AnnAssign, ast.AugAssign)):
            name, ir, t = self.simple_assign(s, scope)
            v = self.newvar(name, tag)
            b, tb = self.body_expr(rest, dict(scope, **{name: ('var', v, t)}), tag, fn)
            return 'ELet %s (%s) (%s)' % (v, ir, b), tb
        if isinstance(s, ast.If) and not s.orelse:
            c = self.cond(s.test, scope)
            a, ta = self.body_expr(s.body, scope, tag, fn)
            b, tb = self.body_expr(rest, scope, tag, fn)
            return 'EIf (%s) (%s) (%s)' % (c, a, b), self.join(ta, tb, s)
        if isinstance(s, ast.If):
            c = self.cond(s.test, scope)
            a, ta = self.body_expr(s.body + rest, scope, tag, fn)
            b, tb = self.body_expr(s.orelse + rest, scope, tag, fn)
            return 'EIf (%s) (%s) (%s)' % (c, a, b), self.join(ta, tb, s)
        bad('statement in a local function that returns a value', s)

    def simple_assign(self, s, scope):
        """x = e / x: T = e / x op= e  with a plain name  ->  (name, ir, type)"""
        if isinstance(s, ast.AugAssign):
            if not isinstance(s.target, ast.Name):
                bad('augmented assignment target', s)
            ir, t = self.expr(ast.BinOp(ast.Name(s.target.id, ast.Load(), lineno=s.lineno), s.op, s.value, lineno=s.lineno), scope)
            return s.target.id, ir, t
        tgt = s.targets[0] if isinstance(s, ast.Assign) else s.target
        if isinstance(s, ast.Assign) and len(s.targets) != 1:
            bad('multiple assignment', s)
        if s.value is None or not isinstance(tgt, ast.Name):
            bad('assignment', s)
        ir, t = self.expr(s.value, scope)
        return tgt.id, ir, t

    def generator(self, c, sc=None):
        saved = self.acc
        self.acc = None
        self.ninline += 1
        tag = '%s%d_' % (c.fn.name, self.ninline)
        types = []
        ir = self.prods(c.body, dict(c.scope) if sc is None else sc, lambda _sc: 'QNil', tag, types, in_gen=True)
        self.acc = saved
        if not types:
            bad('generator that yields nothing', c.fn)
        t = types[0]
        for u in types[1:]:
            t = self.join_elem(t, u, c.fn)
        return ir, t

    def join_elem(self, a, b, node):
        if a == b:
            return a
        if isinstance(a, tuple) and isinstance(b, tuple) and a[0] == b[0] == 'tuple' and len(a) == len(b):
            return ('tuple',) + tuple(self.join_elem(x, y, node) for x, y in zip(a[1:], b[1:]))
        if {a, b} <= {'arg', 'optarg'}:
            return 'arg'        # yielded under `if v:` / `if v is not None`
        return self.join(a, b, node)

    # ---- statements -> producers ----------------------------------------------------------------------------------
    def prods(self, stmts, scope, cont, tag, types, in_gen=False):
        """translates stmts followed by cont(scope after them); `types` collects the types of what is emitted"""
        if not stmts:
            return cont(scope)
        s, rest = stmts[0], stmts[1:]
        nxt = lambda sc: self.prods(rest, sc, cont, tag, types, in_gen)
        if isinstance(s, ast.Pass):
            return nxt(scope)
        if isinstance(s, ast.FunctionDef):
            return nxt(dict(scope, **{s.name: ('closure', Closure(s, dict(scope)))}))
        if isinstance(s, ast.Assert):
            return 'QAssert (%s) (%s)' % (self.cond(s.test, scope), nxt(scope))
        if isinstance(s, ast.Try):
            ok = (len(s.handlers) == 1 and not s.orelse and not s.finalbody and s.handlers[0].name is None
                  and isinstance(s.handlers[0].type, ast.Name) and s.handlers[0].type.id == 'AttributeError'
                  and len(s.handlers[0].body) == 1 and isinstance(s.handlers[0].body[0], ast.Pass)
                  and 'posonlyargs' in ast.unparse(s.body))
            if not ok:
                bad('try statement', s)
            return self.prods(s.body + rest, scope, cont, tag, types, in_gen)
        if isinstance(s, ast.Return):
            # `return <the list built>` at the end of an inlined helper
            if (not rest and isinstance(s.value, ast.Name) and self.acc == (s.value.id, 'list') and not in_gen
                    and scope.get(s.value.id) == ('acc',)):
                return cont(scope)
            bad('return', s)
        if isinstance(s, (ast.Assign, ast.AnnAssign)):
            tgt = s.targets[0] if isinstance(s, ast.Assign) else s.target
            if isinstance(s, ast.Assign) and len(s.targets) != 1:
                bad('multiple assignment', s)
            v = s.value
            if (isinstance(tgt, ast.Name) and isinstance(v, ast.Call) and isinstance(v.func, ast.Name)
                    and self.closure_of(scope, v.func.id) is not None and self.closure_of(scope, v.func.id).kind == 'listfn'):
                # x = helper(..): the helper builds a list by append and returns it -> x is that accumulator
                c = self.closure_of(scope, v.func.id)
                if in_gen or self.acc is not None or tgt.id in scope or v.keywords:
                    bad('list-building helper called here', s)
                lets, sc, tag2 = self.bind_args(c, v, scope)

                def after(_sc):
                    self.acc = (tgt.id, 'list')
                    return nxt(dict(scope, **{tgt.id: ('acc',)}))
                body = self.prods(c.body, sc, after, tag2, types, in_gen)
                for var, ir in reversed(lets):
                    body = 'QLet (PVar %s) (%s) (%s)' % (var, ir, body)
                return body
            if isinstance(tgt, ast.Name) and isinstance(v, (ast.List, ast.Dict)) and not (v.elts if isinstance(v, ast.List) else v.keys):
                if in_gen or self.acc is not None or tgt.id in scope:
                    bad('second accumulator %r' % tgt.id, s)
                self.acc = (tgt.id, 'list' if isinstance(v, ast.List) else 'dict')
                return nxt(dict(scope, **{tgt.id: ('acc',)}))
            if isinstance(tgt, ast.Attribute):
                # v.arg = epydoc2stan.VariableArgument(v.arg): the wrapped string equals the string
                ok = (tgt.attr == 'arg' and isinstance(v, ast.Call) and len(v.args) == 1 and not v.keywords
                      and ast.unparse(v.func) in ('epydoc2stan.VariableArgument', 'epydoc2stan.KeywordArgument')
                      and ast.unparse(v.args[0]) == ast.unparse(tgt))
                if not ok:
                    bad('attribute assignment', s)
                self.expr(tgt, scope)
                return nxt(scope)
            if isinstance(tgt, ast.Subscript):
                if not (isinstance(tgt.value, ast.Name) and self.acc == (tgt.value.id, 'dict') and scope.get(tgt.value.id) == ('acc',)):
                    bad('item assignment', s)
                k, tk = self.expr(tgt.slice, scope)
                val, tv = self.expr(v, scope)
                if tk != 'str' or tv not in ('optexpr', 'expr', 'none'):
                    bad('key/value stored in the mapping', s)
                types.append(('tuple', tk, tv))
                return 'QEmit (ETuple (XCons (%s) (XCons (%s) XNil))) (%s)' % (k, val, nxt(scope))
            if v is None:
                bad('annotation without value', s)
            ir, t = self.expr(v, scope)
            p, ents = self.pattern(tgt, t, scope, tag)
            return 'QLet (%s) (%s) (%s)' % (p, ir, nxt(dict(scope, **ents)))
        if isinstance(s, ast.AugAssign):
            name, ir, t = self.simple_assign(s, scope)
            v = self.newvar(name, tag)
            return 'QLet (PVar %s) (%s) (%s)' % (v, ir, nxt(dict(scope, **{name: ('var', v, t)})))
        if isinstance(s, ast.For):
            if s.orelse:
                bad('for/else', s)
            src, et = self.source(s.iter, scope)
            p, ents = self.pattern(s.target, et, scope, tag)
            body = self.prods(s.body, dict(scope, **ents), lambda sc: 'QNil', tag, types, in_gen)
            return 'QFor (%s) (%s) %s (%s)' % (p, src, hoist(body), nxt(scope))
        if isinstance(s, ast.If):
            c = self.cond(s.test, scope)
            th = self.prods(s.body, dict(scope), lambda sc: 'QNil', tag, types, in_gen)
            el = self.prods(s.orelse, dict(scope), lambda sc: 'QNil', tag, types, in_gen)
            return 'QIf (%s) (%s) (%s) (%s)' % (c, th, el, nxt(scope))
        if isinstance(s, ast.Expr):
            v = s.value
            if isinstance(v, ast.Constant) and isinstance(v.value, str):
                return nxt(scope)
            if isinstance(v, ast.Yield):
                if not in_gen or v.value is None:
                    bad('yield', s)
                ir, t = self.expr(v.value, scope)
                types.append(t)
                return 'QEmit (%s) (%s)' % (ir, nxt(scope))
            if isinstance(v, ast.YieldFrom):
                if not in_gen:
                    bad('yield from', s)
                src, et = self.source(v.value, scope)
                t = self.newvar('item', tag)
                types.append(et)
                return 'QFor (PVar %s) (%s) %s (%s)' % (t, src, hoist('QEmit (EVar %s) QNil' % t), nxt(scope))
            if isinstance(v, ast.Call):
                f = v.func
                if (isinstance(f, ast.Attribute) and f.attr == 'append' and isinstance(f.value, ast.Name) and not in_gen
                        and self.acc == (f.value.id, 'list') and scope.get(f.value.id) == ('acc',)
                        and len(v.args) == 1 and not v.keywords):
                    ir, t = self.expr(v.args[0], scope)
                    types.append(t)
                    return 'QEmit (%s) (%s)' % (ir, nxt(scope))
                if isinstance(f, ast.Name) and self.closure_of(scope, f.id) is not None and self.closure_of(scope, f.id).kind == 'stmt':
                    c = self.closure_of(scope, f.id)
                    if v.keywords:
                        bad('keyword arguments to a local function', s)
                    lets, sc, tag2 = self.bind_args(c, v, scope)
                    # the accumulator is visible inside the closure (it is a free variable of it)
                    if self.acc is not None and self.acc[0] in scope:
                        sc[self.acc[0]] = scope[self.acc[0]]
                    body = self.prods(c.body, sc, lambda _sc: nxt(scope), tag2, types, in_gen)
                    for var, ir in reversed(lets):
                        body = 'QLet (PVar %s) (%s) (%s)' % (var, ir, body)
                    return body
            bad('expression statement', s)
        bad('statement %s' % type(s).__name__, s)


def find_class(tree, name):
    cs = [n for n in tree.body if isinstance(n, ast.ClassDef) and n.name == name]
    if len(cs) != 1:
        bad('class %s not found exactly once' % name)
    return cs[0]


def find_method(cls, name):
    fs = [n for n in cls.body if isinstance(n, ast.FunctionDef) and n.name == name]
    if len(fs) != 1:
        bad('method %s.%s not found exactly once' % (cls.name, name))
    return fs[0]


def translate_annotations(fn):
    a = fn.args
    if [x.arg for x in a.args] != ['self', 'func'] or a.vararg or a.kwarg or a.kwonlyargs or a.posonlyargs or a.defaults:
        bad('parameters of _annotations_from_function', fn)
    tr = Tr('ann')
    fv = tr.newvar('func')
    scope = {'func': ('var', fv, 'def')}
    body = strip_doc(fn.body)
    if not body or not isinstance(body[-1], ast.Return) or body[-1].value is None:
        bad('_annotations_from_function does not end with `return <value>`', fn)
    ret = body[-1].value
    if contains(body[:-1], ast.Return) and any(isinstance(x, ast.Return) for s in body[:-1] if not isinstance(s, ast.FunctionDef)
                                                for x in ast.walk(s)):
        bad('early return', fn)
    types = []

    holder = {}

    def cont(sc):
        # the value returned, in the scope after the statements
        if isinstance(ret, ast.Name) and tr.acc == (ret.id, 'dict'):
            holder['kind'] = 'acc'
            return 'QNil'
        if isinstance(ret, ast.DictComp):
            # {k: v for p in src}  ==  for p in src: mapping[k] = v
            if types or tr.acc is not None:
                bad('a mapping is built by statements and another one is returned', ret)
            if len(ret.generators) != 1 or ret.generators[0].ifs or ret.generators[0].is_async:
                bad('dict comprehension', ret)
            g = ret.generators[0]
            src, et = tr.source(g.iter, sc)
            p, ents = tr.pattern(g.target, et, sc)
            sc2 = dict(sc, **ents)
            k, tk = tr.expr(ret.key, sc2)
            v, tv = tr.expr(ret.value, sc2)
            if tk != 'str' or tv not in ('optexpr', 'expr', 'none'):
                bad('key/value of the mapping', ret)
            holder['kind'] = 'comp'
            return 'QFor (%s) (%s) %s QNil' % (p, src, hoist('QEmit (ETuple (XCons (%s) (XCons (%s) XNil))) QNil' % (k, v)))
        bad('value returned by _annotations_from_function', ret)
    ir = tr.prods(body[:-1], scope, cont, '', types)
    return tr, ir, fv


def translate_parameters(fn):
    a = fn.args
    if [x.arg for x in a.args][:2] != ['self', 'node']:
        bad('parameters of _handleFunctionDef', fn)
    body = strip_doc(fn.body)
    # the region: after the statement that settles func.kind, up to (excluding) `return_type = annotations.get('return')`
    end = [i for i, s in enumerate(body) if isinstance(s, ast.Assign) and ast.unparse(s) == "return_type = annotations.get('return')"]
    start = [i for i, s in enumerate(body) if isinstance(s, ast.If) and ast.unparse(s.test) == 'is_staticmethod']
    if len(end) != 1 or len(start) != 1 or not start[0] < end[0]:
        bad('cannot delimit the parameter-building part of _handleFunctionDef', fn)
    region = body[start[0] + 1:end[0]]
    after = body[end[0]:]
    uses = [s for s in after if 'Signature(parameters, return_annotation=return_annotation)' in ast.unparse(s)]
    if len(uses) != 1:
        bad('`parameters` is not passed to Signature(parameters, return_annotation=return_annotation) exactly once', fn)
    for s in body[:start[0] + 1]:
        for x in ast.walk(s):
            if isinstance(x, ast.Name) and isinstance(x.ctx, ast.Store) and x.id in ('node',):
                bad('`node` is reassigned before the translated part', s)
    tr = Tr('par')
    nv = tr.newvar('node')
    scope = {'node': ('var', nv, 'def')}
    types = []
    ir = tr.prods(region, scope, lambda sc: 'QNil', '', types)
    if tr.acc != ('parameters', 'list'):
        bad('the list built is not `parameters`', fn)
    if any(t != 'param' for t in types) or not types:
        bad('something other than inspect parameters is appended to `parameters`', fn)
    # `annotations` must still be the mapping for `return_type = annotations.get('return')`
    return tr, ir, nv


def generate() -> dict:
    from pydoctor import astbuilder
    src = Path(inspect.getsourcefile(astbuilder)).read_text()
    tree = ast.parse(src)
    V = find_class(tree, 'ModuleVistor')
    del BODIES[:]
    MODULE_FUNCS.clear()
    MODULE_FUNCS.update({n.name: n for n in tree.body if isinstance(n, ast.FunctionDef)})
    tra, ann, fv = translate_annotations(find_method(V, '_annotations_from_function'))
    trp, par, nv = translate_parameters(find_method(V, '_handleFunctionDef'))
    def wrap(t):
        return textwrap.fill(t, 116, initial_indent='  ', subsequent_indent='  ', break_long_words=False, break_on_hyphens=False)
    lines = ['From Coq Require Import ZArith NArith List.', 'Import ListNotations.',
             'From PydoctorVerif Require Import Base.Sexp Spec.SigStr Model.Sig Model.SigIR.', 'Local Open Scope Z_scope.', '']
    for tr in (tra, trp):
        for name, i in tr.vars.items():
            lines.append('Notation %s := (%d%%N) (only parsing).' % (name, i))
        lines.append('')

    lines.append('(* the bodies of the loops, in the order the translator met them (a loop body can only be run on an element:')
    lines.append('   Proofs/SigIRProofs.v keeps these names folded until the loop has been fused with what it iterates over);')
    lines.append('   unused names are padded with QNil so that the proof script can mention all of them *)')
    for k in range(MAX_BODIES):
        lines.append('Definition sig_body_%d : prods :=' % (k + 1))
        lines.append(wrap(BODIES[k] if k < len(BODIES) else 'QNil') + '.')
    lines.append('')
    lines.append('(* ModuleVistor._annotations_from_function(self, func) *)')
    lines.append('Definition code_annotations : prods :=')
    lines.append(wrap(ann) + '.')
    lines.append('')
    lines.append('(* ModuleVistor._handleFunctionDef(self, node, is_async): the statements that build `parameters` *)')
    lines.append('Definition code_parameters : prods :=')
    lines.append(wrap(par) + '.')
    lines.append('')
    lines.append('Definition sig_code : code :=')
    lines.append('  {| c_annotations := code_annotations; c_annotations_func := %s;' % fv)
    lines.append('     c_parameters := code_parameters; c_parameters_node := %s |}.' % nv)
    return {'SigCode.v': '\n'.join(lines) + '\n'}


if __name__ == '__main__':
    print(generate()['SigCode.v'])
